"""dev helper: explore single obligations in-process:  tools/prof.py C04 name1 name2 ... [--tier quick]"""
import sys, time
from symx import proxy
from symx.explore import explore
import importlib
mod = importlib.import_module('checks.'+sys.argv[1])
proxy.install(mod.SHIMS)
if hasattr(mod, 'worker_setup'): mod.worker_setup()
obs={o.name:o for o in mod.obligations('quick')}
names = sys.argv[2:] or list(obs)
for name in names:
    o=obs[name]
    t0=time.time()
    opts=dict(o.opts); opts['max_seconds']=float(120)
    r=explore(o.body, opts, expected=o.expected, name=name)
    print(name, 'paths',r['paths'],'ok',r['ok'],'viol',r['violations'][:2],'inc',r['inconclusive'][:2],'esc',r['escapes'][:2],'vcs',r['vcs'],r['vcs_trivial'],r['vcs_linear'],r['vcs_exact'],'solver',round(r['solver_s'],1),'wall',round(time.time()-t0,1), flush=True)

#!/bin/bash
# tools/verify_seed.sh <seed_dir> <tag>: confirm a seeded change in a scratch worktree:
#  demo passes on clean code, fails with the patch; tests of the touched package still pass with the patch.
SD="$1"; TAG="$2"; WT="/tmp/seedverify_wt_$TAG"; LOG="/tmp/seed_verify/$TAG.log"
PP() { echo "$1/cirq-core:$1/cirq-google:$1/cirq-ionq:$1/cirq-aqt:$1/cirq-pasqal"; }
{
git -C /repo worktree remove --force "$WT" 2>/dev/null
git -C /repo worktree add -q --detach "$WT" HEAD || exit 9
cd "$WT"
PYTHONPATH=$(PP $WT) timeout 900 /venv/bin/python "$SD/demo.py" >/dev/null 2>&1; echo "demo_clean_exit=$?"
git apply "$SD/patch.diff" || { echo "patch_apply=FAIL"; }
PYTHONPATH=$(PP $WT) timeout 900 /venv/bin/python "$SD/demo.py" >/dev/null 2>&1; echo "demo_patched_exit=$?"
/venv/bin/python -c "import sys; sys.path[:0]='$(PP $WT)'.split(':'); import cirq, cirq_google, cirq_ionq, cirq_aqt, cirq_pasqal; print('import_ok', cirq.__file__)"
for f in $(git diff --name-only); do
  case "$f" in
    cirq-core/*) d=$(dirname "${f#cirq-core/}"); (cd cirq-core && timeout 3000 /venv/bin/python -m pytest -q -p no:cacheprovider -x "$d" 2>&1 | tail -2 | sed "s#^#tests[$d]: #");;
    *) top=$(echo "$f" | cut -d/ -f1); (timeout 3000 /venv/bin/python -m pytest -q -p no:cacheprovider "$top" 2>&1 | tail -2 | sed "s#^#tests[$top]: #");;
  esac
done
git checkout -- . ; cd /; git -C /repo worktree remove --force "$WT"
echo done
} > "$LOG" 2>&1

#!/usr/bin/env python3
"""tools/ingest_seed.py <src_dir> <seed_id> <property>: confirm a seeded change delivered by a seeding agent
(tools/verify_seed.sh: demo passes clean / fails patched, imports, tests of the touched package) and, if
confirmed, store it under seeded/<seed_id>/ with a meta.json."""
import json, os, re, shutil, subprocess, sys
src, sid, pid = sys.argv[1:4]
V = '/verif'
os.makedirs('/tmp/seed_verify', exist_ok=True)
subprocess.run([f'{V}/tools/verify_seed.sh', src, sid])
log = open(f'/tmp/seed_verify/{sid}.log').read()
g = lambda k: (re.search(rf'{k}=(\S+)', log) or [None, None])[1]
clean, patched = g('demo_clean_exit'), g('demo_patched_exit')
tests = [l for l in log.split('\n') if l.startswith('tests[') and ('passed' in l or 'failed' in l or 'error' in l)]
ok = clean == '0' and patched not in (None, '0') and 'import_ok' in log and 'patch_apply=FAIL' not in log and not any(('failed' in t or 'error' in t) for t in tests)
files = [l[6:] for l in open(f'{src}/patch.diff') if l.startswith('+++ b/')]
meta = {'seed_id': sid, 'property': pid, 'files_changed': [f.strip() for f in files], 'round': 2,
        'needs_to_manifest': 'see notes.md (written by the independent seeding agent)',
        'confirmed_by_me': {'scratch_worktree': True, 'demo_exit_clean': int(clean) if clean and clean.isdigit() else clean, 'demo_exit_patched': int(patched) if patched and patched.isdigit() else patched,
                            'imports_ok': 'import_ok' in log, 'tests_of_touched_package_with_patch': tests,
                            'baseline_suite': 'run by the seeding agent with the patch applied (see notes.md)'},
        'verified_ok': ok}
print(sid, 'verified_ok =', ok, clean, patched, tests)
if ok:
    d = f'{V}/seeded/{sid}'
    os.makedirs(d, exist_ok=True)
    for f in ('patch.diff', 'demo.py', 'notes.md'):
        if os.path.exists(f'{src}/{f}'):
            shutil.copy(f'{src}/{f}', d)
    json.dump(meta, open(f'{d}/meta.json', 'w'), indent=1)

#!/usr/bin/env python3
"""tools/crossrun.py <seed id> <check id> [--only a b ...]: run ANOTHER property's quick check against a seeded
change (a change seeded for one property often violates a neighbouring one too); prints the outcome, records it
in seeded/<seed>/meta.json under 'also_detected_by'."""
import json, os, subprocess, sys
V = '/verif'
sid, pid = sys.argv[1], sys.argv[2]
only = sys.argv[4:] if len(sys.argv) > 3 and sys.argv[3] == '--only' else []
d = f'{V}/seeded/{sid}'
wt = f'/tmp/seedx_{sid}_{pid}'
subprocess.run(['git', '-C', '/repo', 'worktree', 'remove', '--force', wt], capture_output=True)
subprocess.run(['git', '-C', '/repo', 'worktree', 'add', '-q', '--detach', wt, 'HEAD'], check=True)
ap = subprocess.run(['git', '-C', wt, 'apply', f'{d}/patch.diff'], capture_output=True, text=True)
if ap.returncode:
    print('patch does not apply', ap.stderr[:200]); sys.exit(2)
env = dict(os.environ, VERIF_REPO=wt, VERIF_EVIDENCE_SUFFIX='.seedrun')
cmd = [f'{V}/bin/check', pid, '--tier', 'quick'] + (['--only'] + only if only else [])
r = subprocess.run(cmd, capture_output=True, text=True, env=env, cwd=V)
viol = [l.strip() for l in r.stdout.split('\n') if l.strip().startswith('violation in')]
outcome = {0: 'MISSED (exit 0)', 1: 'CAUGHT (VIOLATION)', 2: 'inconclusive (exit 2)'}.get(r.returncode, f'exit {r.returncode}')
print(sid, 'vs', pid, outcome, (viol[0][:160] if viol else ''))
meta = json.load(open(f'{d}/meta.json'))
meta.setdefault('also_detected_by', {})[pid] = {'check': ' '.join(cmd[1:]), 'outcome': outcome, 'first_report': viol[0][:200] if viol else ''}
json.dump(meta, open(f'{d}/meta.json', 'w'), indent=1)
subprocess.run(['git', '-C', '/repo', 'worktree', 'remove', '--force', wt])

#!/bin/bash
# tools/seedrun.sh <patch.diff> <PID> [tier]: apply a seeded change to /repo, run the check, undo.
P="$1"; PID="$2"; TIER="${3:-quick}"
cd /repo || exit 9
git diff --quiet || { echo "repo dirty"; exit 9; }
git apply "$P" || { echo "apply failed"; exit 9; }
cd /verif
bin/check "$PID" --tier "$TIER" 2>&1 | grep -E "VIOLATION|violation in|KNOWN|INCONCLUSIVE|HARNESS|exit=" | cut -c1-300 | head -12
git -C /repo checkout -- .
git -C /repo status --short | head -3

#!/bin/bash
# tools/seedrun.sh <patch.diff> <PID> [tier]: apply a seeded change in a private scratch worktree and run the check on it.
P="$1"; PID="$2"; TIER="${3:-quick}"; WT="/tmp/seedrun_wt_$$"
git -C /repo worktree add -q --detach "$WT" HEAD || exit 9
git -C "$WT" apply "$P" || { echo "apply failed"; git -C /repo worktree remove --force "$WT"; exit 9; }
cd /verif
VERIF_REPO="$WT" bin/check "$PID" --tier "$TIER" 2>&1 | grep -E "VIOLATION|violation in|KNOWN|INCONCLUSIVE|HARNESS|exit=" | cut -c1-300 | head -12
git -C /repo worktree remove --force "$WT"

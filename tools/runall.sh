#!/bin/bash
# tools/runall.sh [tier] [ids...]: run checks sequentially, one summary line each
TIER="${1:-quick}"; shift
IDS="${@:-C01 C02 C03 C04 C05 C06 C08 C09 C10 C11 C12 C13 C14 C15 C16 C17 C18 C19 C20}"
cd /verif
for id in $IDS; do
  [ -f checks/$id.py ] || continue
  s=$(date +%s)
  /usr/bin/time -f "%U" -o /tmp/runall_$id.cpu bin/check $id --tier $TIER > /tmp/runall_$id.log 2>&1
  rc=$?
  e=$(date +%s)
  echo "$id rc=$rc wall=$((e-s))s cpu=$(cat /tmp/runall_$id.cpu)s :: $(grep -c VIOLATION /tmp/runall_$id.log) viol, $(grep -c KNOWN-FINDING /tmp/runall_$id.log) known, $(grep -c INCONCLUSIVE /tmp/runall_$id.log) inconcl :: $(tail -1 /tmp/runall_$id.log | cut -c1-160)"
done

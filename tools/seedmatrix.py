#!/usr/bin/env python3
"""tools/seedmatrix.py [seed ids...]: run each seeded change against its property's quick check in a private
worktree (VERIF_REPO), record the outcome in seeded/<id>/meta.json and seeded/RESULTS.md."""
import json, os, subprocess, sys, time
V = '/verif'
ids = sys.argv[1:] or sorted(d for d in os.listdir(f'{V}/seeded') if os.path.isdir(f'{V}/seeded/{d}'))
rows = []
for sid in ids:
    d = f'{V}/seeded/{sid}'
    meta = json.load(open(f'{d}/meta.json'))
    pid = meta['property']
    if not os.path.exists(f'{V}/checks/{pid}.py'):
        meta['detected_by'] = 'no check for this property'
        json.dump(meta, open(f'{d}/meta.json', 'w'), indent=1)
        rows.append((sid, pid, 'no check', ''))
        continue
    wt = f'/tmp/seedmx_{sid}'
    subprocess.run(['git', '-C', '/repo', 'worktree', 'remove', '--force', wt], capture_output=True)
    subprocess.run(['git', '-C', '/repo', 'worktree', 'add', '-q', '--detach', wt, 'HEAD'], check=True)
    ap = subprocess.run(['git', '-C', wt, 'apply', f'{d}/patch.diff'], capture_output=True, text=True)
    if ap.returncode:
        rows.append((sid, pid, 'patch does not apply', ap.stderr[:100]))
        subprocess.run(['git', '-C', '/repo', 'worktree', 'remove', '--force', wt])
        continue
    t0 = time.time()
    env = dict(os.environ, VERIF_REPO=wt, VERIF_EVIDENCE_SUFFIX='.seedrun')
    extra = os.environ.get('SEED_ONLY_' + pid, '').split()
    cmd = [f'{V}/bin/check', pid, '--tier', 'quick'] + (['--only'] + extra if extra else [])
    r = subprocess.run(cmd, capture_output=True, text=True, env=env, cwd=V)
    dt = time.time() - t0
    out = r.stdout
    viol = [l for l in out.split('\n') if l.strip().startswith('violation in')]
    outcome = {0: 'MISSED (exit 0)', 1: 'CAUGHT (VIOLATION)', 2: 'inconclusive (exit 2)'}.get(r.returncode, f'exit {r.returncode}')
    first = viol[0].strip()[:200] if viol else ([l for l in out.split('\n') if 'INCONCLUSIVE' in l] or [''])[0][:200]
    meta['detected_by'] = {'check': f'bin/check {pid} --tier quick' + (' --only ' + ' '.join(extra) if extra else ''), 'outcome': outcome, 'first_report': first, 'wall_s': round(dt, 1), 'repo_head': subprocess.check_output(['git', '-C', '/repo', 'log', '--format=%h', '-1'], text=True).strip()}
    json.dump(meta, open(f'{d}/meta.json', 'w'), indent=1)
    rows.append((sid, pid, outcome, first))
    subprocess.run(['git', '-C', '/repo', 'worktree', 'remove', '--force', wt])
    print(sid, outcome, first[:120], flush=True)

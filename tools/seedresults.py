#!/usr/bin/env python3
"""Regenerates seeded/RESULTS.md from the meta.json files."""
import json, os
V = '/verif/seeded'
first_missed = {
 'C01-b': 'ClassicalStateSimulator was outside the first version of C01; obligations classical.* added afterwards',
 'C02-a': 'tableau measurement was outside the first version (obligation shared with C13 added afterwards)',
 'C02-b': 'PauliMeasurementGate was outside the first version; obligation pauli_measurement added afterwards',
 'C04-a': 'qudit gates were not in the first menu; obligation qudit.XZ added afterwards',
 'C04-b': 'decompositions were only run on LineQubit.range(k); ten qubit layouts added afterwards',
 'C11-b': 'the id-mode menu lacked explicit ids equal to the default strings; two modes added afterwards',
 'C13-a': 'CliffordTableau._measure was not built in the first version; obligation tableau.measure.* added afterwards',
 'C13-b': 'CH form was not built in the first version; obligations chform.reindex.* added afterwards',
 'C17-b': 'result histograms had 2 entries; a 3-4 entry joint-multiset obligation was added afterwards',
 'C02-c': 'Pauli measurements were only applied to a bare StateVectorSimulationState; obligation pauli_measurement.simulator (Simulator with split_untangled_states on/off, final state) added afterwards',
 'C02-d': 'confusion maps were single-index only; a joint (two-index, symbolic 4x4) confusion matrix was added to act_on_measure afterwards',
 'C03-c': 'BooleanHamiltonianGate was outside the first version of C03; obligation BooleanHamiltonianGate (symbolic angle, 10 expression lists) added afterwards (its docstring had the opposite sign: repaired in /repo 41e230d)',
 'C03-d': 'MatrixGate was outside the first version of C03; obligation MatrixGate (symbolic matrix, returned arrays edited by the caller) added afterwards',
 'C13-c': 'CH-form rules were only exercised through a menu of concrete gates (no exponent that is a non-zero multiple of 2 with a global shift); obligations chform.rule.* (update rules called directly, exponent menu over [-2, 4], SYMBOLIC global shift) added afterwards',
 'C13-d': 'the act_on dispatch menu had no general multi-qubit CliffordGate; obligation tableau.act_on_clifford_gate (every ordered choice of axes incl. no spectator qubit, symbolic sign bits) added afterwards',
 'C16-a': 'program (de)serialization was outside the first (bit-packing only) C16 claim; the message part (pure-Python protobuf backend with symbolic scalars, checks/C16_msgs.py) was built afterwards; NOT blind: it was specified after this seed had been seen (DESIGN 9.5)',
 'C16-b': 'sweep (de)serialization was outside the first C16 claim; message part built afterwards; NOT blind (DESIGN 9.5)',
 'C01-c': 'parameter sweeps were not exercised by the first version; obligation simulate_sweep (two resolvers with symbolic values, SWAP/ISWAP in the parameterized suffix, split on/off) added afterwards',
 'C01-d': 'in the quick tier two-operation shapes ran simulate_moment_steps with split_untangled_states only from a symbolic state object (which bypasses the product-state container); configuration (moment steps, split, basis state) added to the quick tier afterwards (the thorough tier already had it)',
 'C08-c': 'equality was only checked between gates; obligation equality.controlled_operations (10 control-value objects incl. correlated SumOfProducts, both control listings, symbolic exponent) added afterwards',
 'C08-d': 'equality predicates were only checked between gates; obligation equality.operations_qubit_order (operations on every pair of qubit orders, ==, approx_eq, equal_up_to_global_phase) added afterwards',
 'C09-c': 'multi-qubit Kraus channels and re-use of one channel object were not exercised; obligation dm_simulate.kraus2_reuse added afterwards (the aliasing shows in the CONCRETE validation points: the numpy proxies copy)',
 'C18-d': 'Sampler.sample (pandas frame) was outside the first version; obligations sampler.sample_frame / sample_inconsistent_keys (symbolic parameter values and records, 16 params shapes with differently ordered keys) added afterwards',
 'C11-d': 'LinearDict JSON was compared with tolerance 1e-9 (equal to the default atol of LinearDict.clean, which hid the loss); exact json.lin.* obligations with symbolic coefficients over a box containing every small magnitude added afterwards',
 'C05-d': 'no operation in the first menu carried both a measurement key and a control key; keys2.* obligations (CircuitOperations with both kinds of keys, every strategy, symbolic positions, key-conflict base circuits) added afterwards',
 'C20-d': 'the first version did not account for CancelQuantumJob RPCs; cancellation accounting laws and stream.cancelpoint.* (racing cancel / stop() at a symbolic position of the schedule) added afterwards',
 'C12-d': 'cirq.If bodies that are CircuitOperations with their own controls under an enclosing key remap were not in the first menu; ifblock.* obligations added afterwards (they also found the sequential key replacement defect of multi-key conditions, repaired in /repo faa95c0)',
 'C16-c': 'qubit ids were only exercised with three fixed qubits; msgs.qubit_id.* (coordinates over negative / zero / multi-digit values, name templates) added afterwards',
 'C10-c': 'parameterized tags under one-step (non-recursive) resolution were not in the first version; resolve.tagged_once.* added afterwards',
 'C14-c': 'sparse_matrix was outside the first version; sparse.pauli_string / sparse.pauli_sum (every string incl. 2-4 Y factors, symbolic coefficients, scipy.sparse model) added afterwards',
 'C14-d': 'simulate_expectation_values was not exercised (only expectation_from_state_vector / density_matrix on given states); expect.simulator_arguments.* (non-default initial states, qubit orders, sweeps) added afterwards',
 'C06-c': 'add_dynamical_decoupling was outside the first version; dynamical_decoupling.chain / chain_meas (pulses pulled through chains of two-qubit Cliffords to a wall, every schema, symbolic wall exponents; solver-driven bounded exploration) added afterwards',
 'C08-e': 'operation equality was only checked for gate families whose qubit interchangeability is fixed; equality.operations_exchange_param (PhasedFSimGate / FSimGate / PhasedISwapPowGate, symbolic angles and special values of theta) added afterwards',
 'C02-f': 'measurement gates reached the simulator only under their original key; a key-rewrite dimension (with_measurement_key_mapping, key path prefix, rescoping, with_key, CircuitOperation key map) was added to act_on_measure afterwards',
 'C04-e': 'controlled wrappers were exercised with 7 control-value specs on gates without a global phase; controlled.global_phase (zero-qubit phases and shifted gates under mixed control values, unitary and decomposition) added afterwards',
 'C03-e': 'C03 compares cirq.unitary(gate) with the documented matrix and does not run the in-place kernels; the change is caught by the C04 check (controlled.FSim / apply_unitary), see also_detected_by in meta.json',
 'C04-f': 'CircuitOperation is not in the C04 gate menu; the change is caught by the C12 check (unitary.single.*), see also_detected_by in meta.json',
 'C09-e': 'trajectories were only unravelled for qubits; trajectory.qudit_reset* / dm_simulate.qudit_reset (ResetChannel(d), d = 2..4, every populated level symbolic) added afterwards',
 'C09-f': 'Kraus / superoperator / Choi descriptions were only compared for single operations; descriptions.moment_* / circuit_expanded (moments with operations stored in non-sorted qubit order) added afterwards',
 'C01-f': 'zero-qubit operations were not in the C01 gate menu; simulate.global_phase_op (global phase operation at every position, all entry points, split on/off) added afterwards',
 'C13-e': 'copies of the CH-form state and repeated CliffordSimulator.run were not exercised; chform.copy.* (no shared mutable state, visible at the concrete validation points) and chform.measure.simulator_run added afterwards',
 'C13-f': 'CH-form measurement was outside the first versions; chform.measure._measure / distribution (scripted random bits: draw count and distribution over ALL bit strings) added afterwards',
 'C02-e': 'CH-form measurement was outside the first versions; chform.measure.project_Z / _measure / measure (arbitrary valid 2-qubit CH state, post-state = normalised projection) added afterwards and shared with C02',
 'C19-b': 'the concrete KAK fall-back menu only had gates with interaction (x,0,0); matrix-only gates with generic coefficients added afterwards',
}
cross_only = {'C03-e', 'C04-f'}  # caught by a neighbouring property's check from the start, never by their own
still = {
 'C08-a': 'trace_distance_bound is outside the C08 claim (eigenvalue angles / arccos; the ControlledOperation path goes through LAPACK)',
 'C04-c': 'MatrixGate on three qubits decomposes through three_qubit_matrix_to_operations (cosine-sine decomposition, LAPACK): no symbolic matrix can pass, outside the C04 claim',
 'C15-b': 'three-qubit synthesis (CS decomposition, LAPACK) is outside the narrow C15 claim',
}
rows = []
for d in sorted(os.listdir(V)):
    mp = f'{V}/{d}/meta.json'
    if not os.path.exists(mp):
        continue
    m = json.load(open(mp))
    det = m.get('detected_by')
    if d == 'C01-a' and not isinstance(det, dict):
        det = {'check': 'bin/check C01 --tier quick --only SWAP CX', 'outcome': 'CAUGHT (VIOLATION)', 'first_report': 'simulate1.SWAP: Simulator.simulate_moment_steps split=True: max |a-b| = 0.383'}
        m['detected_by'] = det
    out = det['outcome'] if isinstance(det, dict) else str(det)
    first = (det.get('first_report', '') if isinstance(det, dict) else '')[:110]
    # a change seeded for one property may be caught by the check of a neighbouring property (tools/crossrun.py)
    cross = [(k, v) for k, v in (m.get('also_detected_by') or {}).items() if str(v.get('outcome', '')).startswith('CAUGHT')]
    if not out.startswith('CAUGHT') and cross:
        out = f'CAUGHT by the {cross[0][0]} check (its own property check: {out})'
        first = cross[0][1].get('first_report', '')[:110]
    note = ''
    if d in first_missed:
        note = 'MISSED by the first version of the check: ' + first_missed[d] + ('; now caught' if d not in cross_only else '')
    if d in still:
        note = 'still missed: ' + still[d]
    if note:
        m['history'] = note
    json.dump(m, open(mp, 'w'), indent=1)
    rows.append((d, m['property'], ', '.join(m['files_changed'])[:70], out, first.replace('|', '/'), note))
caught = sum(1 for r in rows if r[3].startswith('CAUGHT'))
with open(f'{V}/RESULTS.md', 'w') as f:
    f.write("# Seeded changes: outcome of the property's quick check on each change\n\n")
    f.write('Each change was produced by an independent sub-agent that saw only the property text, was confirmed in a scratch worktree (demo passes clean / fails patched, tests of the touched package pass), and was run with `tools/seedmatrix.py` (private worktree + `VERIF_REPO`). The outcome column refers to the final checks; the history column records what the FIRST version of the check did where that differs.\n\n')
    f.write(f'Caught by the final checks: {caught} of {len(rows)}. Caught by the first versions (before any strengthening prompted by a miss): {caught - len(first_missed) + len(cross_only)} of {len(rows)}. Independence caveat for C06/C10/C12/C14: see DESIGN.md 9.5.\n\n')
    f.write('| seed | property | files | outcome | first report | history |\n|---|---|---|---|---|---|\n')
    for r in rows:
        f.write('| ' + ' | '.join(r) + ' |\n')
print(f'{caught}/{len(rows)} caught')

"""C04: all descriptions of one operation agree (protocol coherence)."""
from __future__ import annotations

import itertools
import math

import numpy as np

from checks.common import BASE_ASSUMPTIONS, CORE_SHIM_MODULES, perturb
from oracles import embed as EM
from oracles import gates_doc as D
from symx.explore import Obligation
from symx.run import run_check

PID = 'C04'
SHIMS = CORE_SHIM_MODULES + [
    'cirq.protocols.decompose_protocol',
    'cirq.protocols.apply_channel_protocol',
    'cirq.protocols.apply_mixture_protocol',
    'cirq.protocols.act_on_protocol',
    'cirq.protocols.has_unitary_protocol',
    'cirq.ops.parallel_gate',
    'cirq.ops.control_values',
    'cirq.circuits.circuit',
    'cirq.circuits.circuit_operation',
    'cirq.circuits.moment',
    'cirq.circuits.frozen_circuit',
    'cirq.qis.states',
]


def gate_menu(cx_params):
    """(name, nparams, builder(params)->gate, doc(params)->matrix or None (=use cirq.unitary), k qubits)"""
    import cirq

    m = [
        ('X', 2, lambda t, s: cirq.XPowGate(exponent=t, global_shift=s), D.X, 1),
        ('Y', 2, lambda t, s: cirq.YPowGate(exponent=t, global_shift=s), D.Y, 1),
        ('Z', 2, lambda t, s: cirq.ZPowGate(exponent=t, global_shift=s), D.Z, 1),
        ('H', 2, lambda t, s: cirq.HPowGate(exponent=t, global_shift=s), D.H, 1),
        ('CZ', 2, lambda t, s: cirq.CZPowGate(exponent=t, global_shift=s), D.CZ, 2),
        ('CX', 2, lambda t, s: cirq.CXPowGate(exponent=t, global_shift=s), D.CX, 2),
        ('CY', 2, lambda t, s: cirq.CYPowGate(exponent=t, global_shift=s), D.CY, 2),
        ('SWAP', 2, lambda t, s: cirq.SwapPowGate(exponent=t, global_shift=s), D.SWAP, 2),
        ('ISWAP', 2, lambda t, s: cirq.ISwapPowGate(exponent=t, global_shift=s), D.ISWAP, 2),
        ('XX', 2, lambda t, s: cirq.XXPowGate(exponent=t, global_shift=s), D.XX, 2),
        ('YY', 2, lambda t, s: cirq.YYPowGate(exponent=t, global_shift=s), D.YY, 2),
        ('ZZ', 2, lambda t, s: cirq.ZZPowGate(exponent=t, global_shift=s), D.ZZ, 2),
        ('CCZ', 2, lambda t, s: cirq.CCZPowGate(exponent=t, global_shift=s), D.CCZ, 3),
        ('CCX', 2, lambda t, s: cirq.CCXPowGate(exponent=t, global_shift=s), D.CCX, 3),
        ('CSWAP', 0, lambda: cirq.CSWAP, lambda: D.CSWAP(), 3),
        ('PhasedX', 2, lambda t, p: cirq.PhasedXPowGate(exponent=t, phase_exponent=p), lambda t, p: D.phased_x(t, p), 1),
        ('PhasedXZ', 3, lambda x, z, a: cirq.PhasedXZGate(x_exponent=x, z_exponent=z, axis_phase_exponent=a), D.phased_xz, 1),
        ('FSim', 2, lambda th, ph: cirq.FSimGate(th, ph), D.fsim, 2),
        ('PhasedISwap', 2, lambda p, t: cirq.PhasedISwapPowGate(phase_exponent=p, exponent=t), lambda p, t: D.phased_iswap(p, t), 2),
        ('rx', 1, lambda th: cirq.rx(th), D.rx, 1),
        ('Identity2', 0, lambda: cirq.IdentityGate(2), lambda: np.eye(4), 2),
        ('GlobalPhase', 1, lambda t: cirq.GlobalPhaseGate(D.ph(t)), lambda t: D.global_phase(D.ph(t)), 0),
        ('Diagonal2', 4, lambda a, b, c, d: cirq.DiagonalGate([a, b, c, d]), lambda a, b, c, d: D.diagonal([a, b, c, d]), 2),
        ('MatrixGate', 0, lambda: cirq.MatrixGate(np.kron(cirq.unitary(cirq.H), cirq.unitary(cirq.S))), lambda: np.kron(D.H(1.0), D.Z(0.5)), 2),
        ('ThreeQubitDiagonal', 4, lambda a, b, c, d: cirq.ThreeQubitDiagonalGate([0.1, b, 0.3, c, 0.7, d, 1.3, a + b]), lambda a, b, c, d: D.diagonal([0.1, b, 0.3, c, 0.7, d, 1.3, a + b]), 3),
    ]
    if hasattr(cirq, 'CCYPowGate'):
        m.append(('CCY', 2, lambda t, s: cirq.CCYPowGate(exponent=t, global_shift=s), D.CCY, 3))
    return m


PNAMES = ['t', 's', 'u', 'v']
BOX = 4.0


def _params(cx, n):
    return [cx.real(PNAMES[i], -BOX, BOX) for i in range(n)]


def controlled_matrix(U, control_dims, selected):
    """block matrix applying U exactly on the selected control basis states (big-endian controls first)"""
    k = U.shape[0]
    C = int(np.prod(control_dims)) if control_dims else 1
    out = np.zeros((C * k, C * k), dtype=object)
    combos = list(itertools.product(*[range(d) for d in control_dims]))
    for ci, c in enumerate(combos):
        blk = U if c in selected else np.eye(k, dtype=complex)
        for i in range(k):
            for j in range(k):
                out[ci * k + i, ci * k + j] = blk[i, j]
    return out


def obligations(tier):
    import cirq

    obs = []
    MENU = gate_menu(None)
    extra_axes = 1 if tier == 'quick' else 2

    # ---- A: apply_unitary on arbitrary axes of an arbitrary tensor, arbitrary scratch buffer ----
    for name, npar, build, doc, k in MENU:
        def body(cx, wrong=False, build=build, doc=doc, k=k, npar=npar, name=name):
            ps = _params(cx, npar)
            g = build(*ps)
            r = k + extra_axes if k + extra_axes <= 4 else 4
            r = max(r, 1)
            inj = list(itertools.permutations(range(r), k))
            axes = inj[cx.choose('axes', len(inj))]
            T = EM.sym_tensor(cx, (2,) * r, 'T')
            B = EM.sym_tensor(cx, (2,) * r, 'B')
            M = doc(*ps)
            if wrong:
                M = perturb(M)
            exp = EM.apply_matrix_to_axes(M, T, axes)
            args = cirq.ApplyUnitaryArgs(target_tensor=T.copy(), available_buffer=B, axes=axes)
            res = cirq.apply_unitary(g, args)
            cx.close(res, exp, label=f'apply_unitary[{name}] axes={axes}')

        obs.append(
            Obligation(
                f'apply_unitary.{name}',
                body,
                twin=lambda cx, b=body: b(cx, wrong=True),
                opts={'weight': 2 + k},
                points=[{'t': 0.25, 's': 0.5, 'u': -0.5, 'v': 1.5, 'choose:axes': 0}, {'t': 1.0, 's': 0.0, 'u': 0.5, 'v': 0.25, 'choose:axes': 1}],
                desc=f'cirq.apply_unitary({name}(symbolic params)) on every injection of its axes into a rank-(k+{extra_axes}) SYMBOLIC tensor with SYMBOLIC scratch buffer vs documented matrix embedded by index arithmetic',
            )
        )

    # ---- B: unitary / kraus / mixture / has_* coherence for the same gates -----------------------
    for name, npar, build, doc, k in MENU:
        def body(cx, wrong=False, build=build, doc=doc, npar=npar, name=name):
            ps = _params(cx, npar)
            g = build(*ps)
            U = cirq.unitary(g)
            M = doc(*ps)
            cx.check(cirq.has_unitary(g) is True, label=f'{name}.has_unitary')
            cx.check(cirq.has_kraus(g) is True, label=f'{name}.has_kraus')
            cx.check(cirq.has_mixture(g) is True, label=f'{name}.has_mixture')
            ks = cirq.kraus(g)
            cx.check(len(ks) == 1, label=f'{name}.kraus_len')
            cx.close(ks[0], perturb(M) if wrong else M, label=f'{name}.kraus==doc')
            mx = cirq.mixture(g)
            cx.check(len(mx) == 1, label=f'{name}.mixture_len')
            cx.close(mx[0][0], 1.0, label=f'{name}.mixture_p')
            cx.close(mx[0][1], M, label=f'{name}.mixture_U==doc')
            cx.close(U, M, label=f'{name}.unitary==doc')
            # operation form agrees with gate form
            qs = cirq.LineQubit.range(cirq.num_qubits(g))
            cx.close(cirq.unitary(g.on(*qs)), M, label=f'{name}.op_unitary')
            cx.close(cirq.unitary(g.on(*qs).with_tags('tag')), M, label=f'{name}.tagged_unitary')

        obs.append(Obligation(f'coherence.{name}', body, twin=lambda cx, b=body: b(cx, wrong=True), desc='unitary/kraus/mixture/has_* of gate, operation and tagged operation agree with the documented matrix'))

    # ---- C: decomposition multiplies back to the matrix, on several qubit layouts (adjacency-aware
    #         decompositions relabel qubits) ---------------------------------------------------------
    L, G, N = cirq.LineQubit, cirq.GridQubit, cirq.NamedQubit
    LAYOUTS = {
        0: [()],
        1: [(L(0),), (N('a'),)],
        2: [(L(0), L(1)), (L(1), L(0)), (L(0), L(4))],
        3: [(L(0), L(1), L(2)), (L(2), L(1), L(0)), (L(1), L(0), L(2)), (L(0), L(2), L(1)), (L(1), L(2), L(0)), (L(2), L(0), L(1)), (L(0), L(1), L(5)),
            (G(0, 0), G(0, 1), G(1, 0)), (G(0, 1), G(0, 0), G(1, 0)), (N('a'), N('b'), N('c'))],
    }
    def decomp_body_factory(name, npar, build, doc, k):
        def body(cx, wrong=False):
            ps = _params(cx, npar)
            lay = LAYOUTS[k]
            li = cx.choose('layout', len(lay))
            if li > 0 and name in ('CCZ', 'CCX', 'CCY'):
                # non-default layouts: global shift fixed to 0 (the shifted, tolerance-band case is
                # covered on the default layout; keeps the exact-stage queries few)
                ps = [ps[0], 0.0]
            g = build(*ps)
            qs = list(lay[li])
            ops = cirq.decompose_once(g.on(*qs), default=None)
            if ops is None:
                cx.note('no decomposition')
                return
            M = doc(*ps)
            if wrong:
                M = perturb(M)
            # ordered product of the parts' matrices embedded by the harness
            N = 2**k
            tot = np.eye(N, dtype=complex).astype(object)
            for op in ops:
                pos = [qs.index(q) for q in op.qubits]
                Uop = cirq.unitary(op)
                tot = EM.embed_matrix(Uop, pos, k) @ tot if False else _matmul(EM.embed_matrix(Uop, pos, k), tot)
            # Cirq drops global-phase operations that np.isclose(., 1) (default rtol 1e-5): the product may
            # differ from the matrix by a phase within 1.001e-5, hence the wider tolerance here
            cx.close(tot, M, tol=2.5e-5, label=f'decompose_once[{name}] product')

        return body

    for name, npar, build, doc, k in MENU:
        if name in ('GlobalPhase', 'Identity2', 'MatrixGate', 'Diagonal2'):
            continue
        if name == 'ThreeQubitDiagonal':
            name = 'ThreeQubitDiagonal'
        b = decomp_body_factory(name, npar, build, doc, k)
        obs.append(Obligation(f'decompose.{name}', b, twin=None, opts={'weight': 3}, desc='ordered product of cirq.unitary of the ops returned by cirq.decompose_once equals the documented matrix (exactly, incl. global phase)'))

    # ---- D: controlled wrappers: block matrix on exactly the selected control states -------------
    CV = [
        ('c1', [2], None, {(1,)}),
        ('c0', [2], [0], {(0,)}),
        ('c11', [2, 2], None, {(1, 1)}),
        ('c01', [2, 2], [0, 1], {(0, 1)}),
        ('c(0|1)1', [2, 2], [(0, 1), 1], {(0, 1), (1, 1)}),
        ('qutrit2', [3], [2], {(2,)}),
        ('qutrit12', [3], [(1, 2)], {(1,), (2,)}),
    ]
    SUB = [m for m in MENU if m[0] in ('X', 'Z', 'H', 'CZ', 'CX', 'SWAP', 'PhasedX', 'FSim', 'ISWAP', 'Y')]
    for name, npar, build, doc, k in SUB:
        def body(cx, wrong=False, build=build, doc=doc, k=k, npar=npar, name=name):
            ps = _params(cx, npar)
            g = build(*ps)
            cvn, cdims, cvals, sel = CV[cx.choose('cv', len(CV))]
            how = cx.choose('how', 3)
            nc = len(cdims)
            cq = [cirq.LineQid(i, d) for i, d in enumerate(cdims)]
            tq = [cirq.LineQid(10 + i, 2) for i in range(k)]
            if how == 0:
                op = cirq.ControlledGate(g, num_controls=nc, control_values=cvals, control_qid_shape=tuple(cdims)).on(*cq, *tq)
            elif how == 1:
                op = g.on(*tq).controlled_by(*cq, control_values=cvals)
            else:
                op = cirq.ControlledOperation(cq, g.on(*tq), control_values=cvals)
            M = doc(*ps)
            exp = controlled_matrix(perturb(M) if wrong else M, cdims, sel)
            cx.close(cirq.unitary(op), exp, label=f'controlled[{name},{cvn},{how}].unitary')
            # apply_unitary of the controlled op on a symbolic tensor
            shape = tuple(cdims) + (2,) * k
            T = EM.sym_tensor(cx, shape, 'T')
            B = EM.sym_tensor(cx, shape, 'B')
            args = cirq.ApplyUnitaryArgs(target_tensor=T.copy(), available_buffer=B, axes=tuple(range(nc + k)))
            res = cirq.apply_unitary(op, args)
            cx.close(res, EM.apply_matrix_to_axes(exp, T, list(range(nc + k))), label=f'controlled[{name},{cvn},{how}].apply_unitary')

        obs.append(Obligation(f'controlled.{name}', body, twin=lambda cx, b=body: b(cx, wrong=True), opts={'weight': 8}, desc='ControlledGate / controlled_by / ControlledOperation with 7 control-value specs (incl. qutrit and sum-of-values controls): unitary and apply_unitary equal the block matrix on exactly the selected control states'))

    # ---- D1b: controlled global phases and controlled gates WITH a global shift, mixed control values, and their
    # decompositions (ControlledGate._decompose_ extracts global phases and re-controls them through
    # GlobalPhaseGate.controlled, which turns the last control into a target)
    CV2 = [
        ('c01', [0, 1], {(0, 1)}),
        ('c10', [1, 0], {(1, 0)}),
        ('c00', [0, 0], {(0, 0)}),
        ('c101', [1, 0, 1], {(1, 0, 1)}),
        ('c011', [0, 1, 1], {(0, 1, 1)}),
        ('c(01)0', [(0, 1), 0], {(0, 0), (1, 0)}),
        ('c1', [1], {(1,)}),
        ('c0', [0], {(0,)}),
    ]

    def ctrl_phase_body(cx, wrong=False):
        t = cx.real('t', -2.0, 2.0)
        sh = cx.real('s', -1.0, 1.0)
        kind = cx.choose('sub', 4)
        cvn, cvals, sel = CV2[cx.choose('cv', len(CV2))]
        nc = len(cvals)
        cq = cirq.LineQubit.range(nc)
        tq = cirq.LineQubit(10)
        if kind == 0:
            sub, M, k = cirq.global_phase_operation(D.ph(t)), np.asarray([[D.ph(t)]], dtype=object), 0
        elif kind == 1:
            sub, M, k = cirq.XPowGate(exponent=t, global_shift=sh).on(tq), D.X(t, sh), 1
        elif kind == 2:
            sub, M, k = cirq.ZPowGate(exponent=t, global_shift=sh).on(tq), D.Z(t, sh), 1
        else:
            sub, M, k = cirq.rz(t).on(tq), D.rz(t), 1
        how = cx.choose('how', 2)
        if kind != 0:
            op = sub.controlled_by(*cq, control_values=cvals) if how == 0 else cirq.ControlledOperation(cq, sub, control_values=cvals)
            # (a controlled zero-qubit phase is rebuilt through np.angle of its coefficient: not encodable with a symbolic
            # phase, it is compared at the lattice values below)
            exp = controlled_matrix(perturb(M) if wrong else M, [2] * nc, sel)
            cx.close(cirq.unitary(op), exp, label=f'controlled phase[{kind},{cvn},{how}].unitary')
        qs = list(cq) + ([tq] if k else [])
        n = len(qs)
        # ControlledGate._decompose_ tests the sub-gate's matrix with np.linalg.det (LAPACK): with symbolic parameters
        # only the zero-qubit case is encodable; the other kinds are decomposed at the concrete validation points only
        # bounded exploration: the decomposition extracts phases with np.angle / np.linalg.det (not encodable), so the
        # gates are decomposed at solver-chosen lattice values of (t, s)
        tv = [0.5, -0.25, 1.0, 0.3][cx.choose('t_lattice', 4)]
        sv = [0.25, -0.5, 0.1][cx.choose('s_lattice', 3 if kind in (1, 2) else 1)]
        if kind == 0:
            sub2, M2 = cirq.global_phase_operation(np.exp(1j * np.pi * tv)), np.array([[np.exp(1j * np.pi * tv)]])
        else:
            sub2, M2 = {1: (cirq.XPowGate(exponent=tv, global_shift=sv).on(tq), D.X(tv, sv)), 2: (cirq.ZPowGate(exponent=tv, global_shift=sv).on(tq), D.Z(tv, sv)), 3: (cirq.rz(tv).on(tq), D.rz(tv))}[kind]
        op = sub2.controlled_by(*cq, control_values=cvals) if how == 0 else cirq.ControlledOperation(cq, sub2, control_values=cvals)
        exp = controlled_matrix(perturb(np.asarray(M2, dtype=complex)) if wrong else np.asarray(M2, dtype=complex), [2] * nc, sel)
        if kind == 0:
            cx.close(np.asarray(cirq.unitary(op), dtype=complex), exp, label=f'controlled phase[0,{cvn},{how}].unitary (lattice phase)')
        for depth, parts in (('once', cirq.decompose_once(op, default=None)),):
            if parts is None:
                continue
            tot = np.eye(2**n, dtype=complex).astype(object)
            for part in cirq.flatten_to_ops(parts):
                pos = [qs.index(q) for q in part.qubits]
                Up = np.asarray(cirq.unitary(part), dtype=complex)
                tot = _matmul(EM.embed_matrix(Up, pos, n) if pos else complex(Up[0, 0]) * np.eye(2**n, dtype=complex), tot)
            cx.close(tot, exp, tol=2.5e-5, label=f'controlled phase[{kind},{cvn},{how}].decompose_{depth} product')

    obs.append(Obligation('controlled.global_phase', ctrl_phase_body, twin=lambda cx: ctrl_phase_body(cx, wrong=True), opts={'weight': 8}, desc='global_phase_operation(exp(i pi t)) / XPowGate, ZPowGate with symbolic global shift / rz(t) under 1-3 controls with 8 mixed control-value specs (controlled_by and ControlledOperation): unitary equals the block matrix on exactly the selected control states, and so does the ordered product of decompose_once (the decomposition extracts phases with np.angle / np.linalg.det, so it is compared at solver-chosen lattice values of exponent and shift: bounded exploration)'))

    # ---- D2: qudit X / Z powers: in-place kernels, unitary and controlled forms agree -------------------------------
    def qudit_body(cx, wrong=False):
        t = cx.real('t', -BOX, BOX)
        s_ = cx.real('s', -1.0, 1.0)
        which = cx.choose('gate', 2)
        d = cx.choose('dim', 2) + 3
        g = (cirq.XPowGate if which == 0 else cirq.ZPowGate)(exponent=t, global_shift=s_, dimension=d)
        U = cirq.unitary(g)
        if wrong:
            U = perturb(U)
        lay = cx.choose('layout', 3)
        shape, axes = [((d,), (0,)), ((2, d), (1,)), ((d, 2), (0,))][lay]
        T = EM.sym_tensor(cx, shape, 'T')
        B = EM.sym_tensor(cx, shape, 'B')
        res = cirq.apply_unitary(g, cirq.ApplyUnitaryArgs(target_tensor=T.copy(), available_buffer=B, axes=axes))
        cx.close(res, EM.apply_matrix_to_axes(U, T, list(axes)), label=f'qudit apply_unitary dim={d}')
        # controlled by a qubit: unitary and apply_unitary equal the block matrix built from cirq.unitary(g)
        cq, tq = cirq.LineQid(0, 2), cirq.LineQid(1, d)
        cop = g.on(tq).controlled_by(cq)
        blk = controlled_matrix(U, [2], {(1,)})
        cx.close(cirq.unitary(cop), blk, label=f'qudit controlled unitary dim={d}')
        T2 = EM.sym_tensor(cx, (2, d), 'U')
        B2 = EM.sym_tensor(cx, (2, d), 'V')
        res2 = cirq.apply_unitary(cop, cirq.ApplyUnitaryArgs(target_tensor=T2.copy(), available_buffer=B2, axes=(0, 1)))
        cx.close(res2, EM.apply_matrix_to_axes(blk, T2, [0, 1]), label=f'qudit controlled apply_unitary dim={d}')

    obs.append(Obligation('qudit.XZ', qudit_body, twin=lambda cx: qudit_body(cx, wrong=True), opts={'weight': 5}, desc='XPowGate / ZPowGate with dimension 3 and 4, symbolic exponent and global shift: apply_unitary kernels on symbolic qudit tensors, cirq.unitary, and the qubit-controlled operation (unitary and apply_unitary) agree'))

    # ---- E: inverse / parallel / circuit-operation wrappers ------------------------------------------
    for name, npar, build, doc, k in [m for m in MENU if m[0] in ('X', 'H', 'CZ', 'ISWAP', 'PhasedXZ', 'FSim', 'CCX')]:
        def body(cx, build=build, doc=doc, k=k, npar=npar, name=name):
            ps = _params(cx, npar)
            g = build(*ps)
            qs = cirq.LineQubit.range(k)
            M = doc(*ps)
            N = 2**k
            inv = cirq.inverse(g.on(*qs))
            cx.close(_matmul(np.asarray(cirq.unitary(inv), dtype=object), np.asarray(M, dtype=object)), np.eye(N), label=f'inverse[{name}]*U==I')
            co = cirq.CircuitOperation(cirq.FrozenCircuit(g.on(*qs)))
            cx.close(cirq.unitary(co), M, label=f'CircuitOperation[{name}].unitary')
            if k == 1:
                pg = cirq.ParallelGate(g, 2)
                cx.close(cirq.unitary(pg), _kron(M, M), label=f'ParallelGate[{name}].unitary')

        obs.append(Obligation(f'wrappers.{name}', body, opts={'weight': 3}, desc='cirq.inverse(op) undoes the documented matrix; CircuitOperation and ParallelGate wrappers preserve it'))
    return obs


def _matmul(A, B):
    A = np.asarray(A, dtype=object)
    B = np.asarray(B, dtype=object)
    n, m = A.shape
    m2, p = B.shape
    out = np.empty((n, p), dtype=object)
    for i in range(n):
        for j in range(p):
            tot = 0
            for l in range(m):
                a = A[i, l]
                if isinstance(a, (int, float, complex)) and a == 0:
                    continue
                b = B[l, j]
                if isinstance(b, (int, float, complex)) and b == 0:
                    continue
                tot = tot + a * b
            out[i, j] = tot
    return out


def _kron(A, B):
    A = np.asarray(A, dtype=object)
    B = np.asarray(B, dtype=object)
    n, m = A.shape
    p, q = B.shape
    out = np.empty((n * p, m * q), dtype=object)
    for i in range(n):
        for j in range(m):
            for k in range(p):
                for l in range(q):
                    out[i * p + k, j * q + l] = A[i, j] * B[k, l]
    return out


LEVEL = (
    'Bounded symbolic execution of the real protocol code, SMT-decided: gate parameters AND the entire contents of the target tensor and scratch '
    'buffer handed to cirq.apply_unitary are symbolic, every injection of the gate axes into the tensor is enumerated; z3 decides entry-wise '
    'agreement of apply_unitary / unitary / kraus / mixture / decompose_once products / controlled, inverse, parallel and sub-circuit wrappers '
    'with the documented matrix embedded by independent index arithmetic, for all parameter values in the boxes.'
)


def main(tier, seed=0, replay=None, only=None, procs=None):
    bounds = {
        'parameter_box': [-BOX, BOX],
        'tensor_entries_box': [-1, 1],
        'tensor_rank': 'k+1 (quick) / k+2 capped at 4 (thorough); all axis injections',
        'control_specs': 7,
        'gate_families': 25,
        'tolerance': 1e-7,
        'outside': ['ancilla-allocating decompositions', 'Clifford simulation states (C13)', 'tensors of rank > 4', 'complex64'],
    }
    return run_check(PID, tier, 'checks.C04', SHIMS, LEVEL, BASE_ASSUMPTIONS, bounds, seed=seed, replay=replay, only=only, procs=procs)

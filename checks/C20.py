"""C20: asynchronous job orchestration resolves every job exactly once.

Part 1  cirq.Collector.collect_async (cirq/work/collector.py) and PauliSumCollector on a deterministic
        duet controller; concurrency, max_total_samples and per-job repetitions are SOLVER variables
        (unbounded integers partitioned by the real loop guards), completion order / batching / which
        call fails are finite selectors.
Part 2  cirq_google StreamManager (_manage_stream, _manage_execution, ResponseDemux, submit, cancel) on a
        private asyncio loop against a model Quantum Engine stream service; everything there is a finite
        selector: solver-selected bounded exhaustive exploration, labelled as such.
Part 2b cancellation accounting on the same driver: the scripted server logs every CancelQuantumJob RPC (oracles/stream_cancel.py)
        and on EVERY explored schedule "the caller of submit() sees CancelledError <=> exactly one cancel RPC arrived for its job"
        is asserted.  The stream.cancelpoint.* obligations add one cancellation (cancel of a submission / StreamManager.stop())
        that is not tied to the quiescent points: it fires `cancel_delay` event-loop iterations after the `cancel_after`-th driver
        action; both are unbounded SOLVER INTEGERS partitioned by the driver's comparisons, so the cancellation lands in the same
        loop turn as a stream break / error reply / result / submit / stop() and at every later turn of the client's reaction.
"""
from __future__ import annotations

import itertools

from checks.common import BASE_ASSUMPTIONS
from symx.explore import Obligation
from symx.run import run_check
from symx.sint import SBool, SInt

PID = 'C20'
_DEBUG = bool(__import__('os').environ.get('C20_DEBUG'))

SHIMS: list = []  # no numpy/builtin shims are needed: symbolic integers flow through plain Python arithmetic


# ------------------------------------------------------------------------------------------------
# symbolic / concrete Boolean helpers (same body runs in both modes)
# ------------------------------------------------------------------------------------------------
def _sb(x):
    if isinstance(x, SBool):
        return x
    return SBool(bool(x))


def OR(*xs):
    if all(not isinstance(x, SBool) for x in xs):
        return any(bool(x) for x in xs)
    acc = _sb(xs[0])
    for x in xs[1:]:
        acc = acc | _sb(x)
    return acc


def AND(xs):
    xs = list(xs)
    if all(not isinstance(x, SBool) for x in xs):
        return all(bool(x) for x in xs)
    acc = None
    for x in xs:
        if not isinstance(x, SBool):
            if not x:
                return False
            continue
        acc = x if acc is None else (acc & x)
    return True if acc is None else acc


class Checks:
    """collects named conditions; one VC per label in symbolic mode, one check per condition in concrete mode"""

    def __init__(self, cx):
        self.cx = cx
        self.by = {}

    def add(self, label, cond, detail=''):
        self.by.setdefault(label, []).append((cond, detail))

    def flush(self):
        cx = self.cx
        for label, items in self.by.items():
            if cx.mode == 'concrete':
                for cond, detail in items:
                    cx.check(cond, label=f'{label} [{detail}]' if detail else label)
            else:
                # concretely false conditions first (clear message), then one conjunction VC
                for cond, detail in items:
                    if not isinstance(cond, SBool) and not cond:
                        cx.check(False, label=f'{label} [{detail}]' if detail else label)
                cx.check(AND(c for c, _ in items), label=label)


# ================================================================================================
# Part 1: Collector.collect_async
# ================================================================================================
def job_shapes(n):
    """how next_job hands out n jobs: list of batches (None = 'nothing right now'), all compositions of n,
    optionally one None answer between two batches or at the very beginning"""
    out = []
    for cuts in itertools.product([0, 1], repeat=max(0, n - 1)):
        batches, cur = [], [0]
        for j in range(1, n):
            if cuts[j - 1]:
                batches.append(cur)
                cur = []
            cur.append(j)
        batches.append(cur)
        out.append(list(batches))
        for pos in range(0, len(batches)):
            out.append(batches[:pos] + [None] + batches[pos:])
    return out


def _tree(jobs):
    """a CIRCUIT_SAMPLE_JOB_TREE for the batch: bare job, flat list, or nested lists"""
    if len(jobs) == 1:
        return jobs[0]
    if len(jobs) == 2:
        return [jobs[0], jobs[1]]
    return [jobs[0], [jobs[1], tuple(jobs[2:])], []]


def collector_scenario(cx, n, shape, max_err, wrong=None, order_menu='all'):
    """runs the real collect_async once on this path and asserts the C20 collector laws"""
    import cirq
    from oracles import async_drivers as D

    C = cx.int('concurrency')
    has_budget = 1 - cx.choose('no_budget', 2)
    M = cx.int('max_total_samples') if has_budget else None
    # vacuity twins only: steer to the inputs on which the deliberately wrong law is violated at once
    if wrong == 'concurrency':
        cx.assume(C == 1)
    if wrong == 'budget' and has_budget:
        cx.assume(M == 1)
    if has_budget:
        reps = [cx.int(f'reps{j}') for j in range(n)]
    else:
        reps = [j + 1 for j in range(n)]  # np.inf arithmetic is not encodable; control flow ignores reps here

    log = []
    circuits = [cirq.Circuit(cirq.measure(cirq.LineQubit(j), key=f'm{j}')) for j in range(n)]
    circuit_ids = {id(c): j for j, c in enumerate(circuits)}
    jobs = [cirq.CircuitSampleJob(circuits[j], repetitions=reps[j], tag=('tag', j)) for j in range(n)]

    class ScriptCollector(cirq.Collector):
        def __init__(self):
            self.pos = 0

        def next_job(self):
            if self.pos >= len(shape):
                log.append(('next_job', None))
                return None
            b = shape[self.pos]
            self.pos += 1
            log.append(('next_job', b))
            if b is None:
                return None
            return _tree([jobs[j] for j in b])

        def on_job_result(self, job, result):
            log.append(('result', job, result))

    fails = [0]

    def decide_pick(step, k):
        if order_menu == 'ends':
            return [0, k - 1][cx.choose(f'pick{step}', min(k, 2))]
        return cx.choose(f'pick{step}', k)

    def decide_fail(step):
        if fails[0] >= max_err:
            return False
        f = cx.choose(f'fail{step}', 2) == 1
        fails[0] += f
        return f

    def decide_more(step):
        return cx.choose(f'more{step}', 2) == 1

    out = D.run_collector(ScriptCollector(), log, circuit_ids, C, M, decide_pick, decide_fail, decide_more)
    check_collector_log(cx, log, out, n, jobs, reps, C, M, wrong)


def check_collector_log(cx, log, out, n, jobs, reps, C, M, wrong=None):
    """the oracle: laws of the property evaluated on the recorded history (independent of collector.py)"""
    K = Checks(cx)
    handed = set()  # job indices next_job has returned
    started = {}  # call -> jid
    started_jids = []
    completed_ok = {}  # call -> Res
    completed_err = {}  # call -> exc
    delivered = []  # (jid, result)
    aborted = set()
    physical = 0  # sampler calls outstanding
    spent = 0  # sum of repetitions of started jobs
    empty_answer_since_delivery = False
    first_error = None
    finished = False
    ok_before_error = []

    def fill_is_maximal(where):
        # "keeps asking for work until none is left": when the collector goes to sleep (or stops) it must be
        # out of budget, at the concurrency limit, or have just been told there is no work
        conds = [empty_answer_since_delivery]
        if M is not None:
            conds.append(M - spent <= 0)
        conds.append(C <= physical)
        K.add('keeps-asking-until-no-work-or-capacity', OR(*conds), where)

    for ev in log:
        kind = ev[0]
        if kind == 'next_job':
            K.add('no-call-after-finish', not finished, 'next_job')
            if ev[1] is None:
                empty_answer_since_delivery = True
            else:
                handed.update(ev[1])
        elif kind == 'start':
            _, call, jid, r = ev
            K.add('started-job-was-handed-out-and-is-new', jid is not None and jid in handed and jid not in started_jids, f'call {call} job {jid}')
            if jid is None:
                continue
            started[call] = jid
            started_jids.append(jid)
            K.add('repetitions-passed-through', r == reps[jid] if not (r is reps[jid]) else True, f'job {jid}')
            if M is not None:
                # no job started once the sample budget is used up
                budget_before = M - spent
                K.add('no-start-without-budget', budget_before > (1 if wrong == 'budget' else 0), f'job {jid}')
            spent = spent + reps[jid]
            physical += 1
            lim = C - 1 if wrong == 'concurrency' else C
            K.add('in-flight<=concurrency', physical <= lim, f'after starting job {jid}: {physical} in flight')
        elif kind == 'complete':
            _, call, jid, val = ev
            physical -= 1
            if isinstance(val, Exception):
                completed_err[call] = val
                if first_error is None:
                    first_error = val
            else:
                completed_ok[call] = val
                if first_error is None:
                    ok_before_error.append(call)
        elif kind == 'aborted':
            aborted.add(ev[1])
            physical -= 1
        elif kind == 'result':
            _, job, result = ev
            K.add('no-call-after-finish', not finished, 'on_job_result')
            jid = next((j for j, jb in enumerate(jobs) if jb is job), None)
            calls = [c for c, r in completed_ok.items() if r is result]
            good = jid is not None and len(calls) == 1 and started.get(calls[0]) == jid
            K.add('result-goes-with-its-own-job', good, f'job {jid} got {result!r}')
            K.add('delivered-at-most-once', all(r is not result for _, r in delivered), f'{result!r}')
            delivered.append((jid, result))
            empty_answer_since_delivery = False
        elif kind == 'blocked':
            K.add('no-hang', ev[1] > 0, 'waiting with nothing outstanding')
            if ev[1] > 0:
                fill_is_maximal(f'blocked with {ev[1]} outstanding')
        elif kind == 'finished':
            finished = True

    K.add('no-hang', not out['hang'], str(out['outcome']))
    outcome = out['outcome']
    if first_error is None:
        K.add('returns-None-without-error', outcome == ('returned', None), str(outcome))
        # every started job's result reached on_job_result exactly once
        want = sorted(completed_ok)
        got = sorted(c for c, r in completed_ok.items() if any(r is d for _, d in delivered))
        if wrong == 'delivery':
            want = want + [99]
        K.add('every-result-delivered', want == got and len(delivered) == len(want), f'completed {want} delivered {got}')
        K.add('stops-only-when-idle', physical == 0 and len(started) == len(completed_ok), f'{physical} outstanding at return')
        if not out['hang']:
            fill_is_maximal('at return')
    else:
        exp = ('raised', first_error) if wrong != 'error' else ('returned', None)
        K.add('first-error-surfaces', outcome is not None and outcome[0] == exp[0] and outcome[1] is exp[1], f'{outcome} vs {first_error!r}')
        # results that completed before the failure are not lost; nothing is delivered twice (checked above)
        got = [c for c in ok_before_error if any(completed_ok[c] is d for _, d in delivered)]
        K.add('results-before-error-delivered', got == ok_before_error, f'{ok_before_error} vs {got}')
        # stops cleanly: nothing left outstanding once the error has surfaced
        K.add('stops-cleanly-after-error', physical == 0 and not out['sampler'].pending, f'{physical} sampler calls left running')
    K.flush()


def pauli_scenario(cx, spt, nterms, batching, wrong=False):
    """PauliSumCollector on the same controller: symbolic max_samples_per_job and concurrency"""
    import cirq
    from oracles import async_drivers as D

    spj = cx.int('max_samples_per_job', 1, None)
    C = cx.int('concurrency')
    # budget that can never cut the collection short (np.inf of max_total_samples=None is not encodable)
    M = cx.int('max_total_samples', spt * nterms, None)
    a, b = cirq.LineQubit.range(2)
    terms = [cirq.X(a) * cirq.Z(b) * 0.5, cirq.Y(b) * 2.0][:nterms]
    obs = sum(terms[1:], terms[0]) + 0.25
    pc = cirq.PauliSumCollector(cirq.Circuit(cirq.H(a)), obs, samples_per_term=spt, max_samples_per_job=spj)
    log = []
    real_next = pc.next_job
    real_res = pc.on_job_result
    handed = []

    def next_job():
        j = real_next()
        handed.append(j)
        log.append(('next_job', None if j is None else [len(handed) - 1]))
        return j

    class FakeResult:
        def __init__(self, reps, k):
            self.reps, self.k = reps, k

        def histogram(self, *, key, fold_func=None):
            assert key == 'out'
            ones = cx.int(f'ones{self.k}', 0, None)
            cx.assume(ones <= self.reps)
            return {0: self.reps - ones, 1: ones}

    got = []

    def on_job_result(job, result):
        k = next(i for i, h in enumerate(handed) if h is job)
        got.append(k)
        real_res(job, FakeResult(job.repetitions, k))

    pc.next_job = next_job
    pc.on_job_result = on_job_result
    class Ids(dict):
        def get(self, key, default=None):
            for i, h in enumerate(handed):
                if h is not None and id(h.circuit) == key:
                    return i
            return default

    def pick(step, k):
        return [0, k - 1][cx.choose(f'pick{step}', min(k, 2))]

    out = D.run_collector(pc, log, Ids(), C, M, pick, lambda s: False, lambda s: batching and cx.choose(f'more{s}', 2) == 1)
    K = Checks(cx)
    K.add('no-hang', not out['hang'], str(out['outcome']))
    K.add('returns', out['outcome'] == ('returned', None), str(out['outcome']))
    real = [h for h in handed if h is not None]
    by_term = {}
    for h in real:
        by_term.setdefault(h.tag, []).append(h)
        K.add('job-size<=max_samples_per_job', AND([h.repetitions <= spj, h.repetitions >= 1]), str(h.tag))
    # C <= 0: nothing can be started (covered by the generic obligations); otherwise every term is sampled
    # exactly samples_per_term times, whatever the order in which the jobs finished
    pos = C >= 1
    for t, _coef in pc._pauli_coef_terms:
        tot = sum((h.repetitions for h in by_term.get(t, [])), 0)
        seen = pc._zeros[t] + pc._ones[t]
        target = spt + (1 if wrong else 0)
        K.add('each-term-requested-samples_per_term', OR(~_sb(pos), tot == target), str(t))
        K.add('each-term-tallied-samples_per_term', OR(~_sb(pos), seen == target), str(t))
    K.add('every-job-reported-once', OR(~_sb(pos), sorted(got) == list(range(len(real)))), str(got))
    K.flush()


# ================================================================================================
# Part 2: StreamManager against the model service
# ================================================================================================
PROJECT = 'projects/proj'


def _names(i):
    prog = f'{PROJECT}/programs/prog{i}'
    return prog, f'{prog}/jobs/job{i}'


INITS = ('fresh', 'program_exists', 'job_done', 'job_done_jae', 'job_running')
FAULT_KINDS = ('break_retry', 'break_fatal', 'open_fail', 'reject', 'cancel0', 'cancel1', 'stop')


RACERS = ('cancel0', 'cancel1', 'stop')


def stream_scenario(cx, nsub, init, faults, wrong=None, class_select=True, race=None, stop_window='subscribed'):
    """one schedule of: submissions, service processing steps, job completions and the planned faults.

    init   : 'fresh' | 'program_exists' (program created outside the client) | 'job_done' (program and job exist,
             job finished: e.g. created by an earlier session) | 'job_done_jae' (same, but the service names the job in its
             reply: JOB_ALREADY_EXISTS instead of PROGRAM_ALREADY_EXISTS) | 'job_running' (program and job exist, job
             still running)   -- applies to submission 0
    faults : tuple of fault kinds injected in this order at solver-selected points of the schedule
    race   : None | 'cancel0' | 'cancel1' | 'stop': ONE additional cancellation that is NOT restricted to the quiescent points of
             the schedule.  It is fired `cancel_delay` event-loop iterations after the `cancel_after`-th driver action (submit /
             service step / job completion / fault), i.e. possibly in the same loop turn as that action and anywhere in the
             client's reaction to it.  Both numbers are unbounded SOLVER INTEGERS (z3 Int): the explorer partitions them by
             the comparisons below, a delay that outlasts the client's reaction lands on the quiescent point, an action index
             beyond the end of the schedule means "never".
    """
    import google.api_core.exceptions as gx
    from cirq_google.cloud import quantum
    from cirq_google.engine import stream_manager as sm
    from oracles import async_drivers as D
    from oracles import stream_cancel as C

    Code = quantum.StreamError.Code
    RETRY = [gx.ServiceUnavailable, gx.InternalServerError, gx.Unknown]
    FATAL = [gx.PermissionDenied, gx.NotFound, gx.DeadlineExceeded]
    REJECT = [Code.INTERNAL, Code.INVALID_ARGUMENT, Code.PERMISSION_DENIED, Code.PROCESSOR_DOES_NOT_EXIST, Code.INVALID_PROCESSOR_FOR_JOB, Code.CODE_UNSPECIFIED]

    def pick(name, menu, k):
        # exception class / error code: a selector, or (largest plans only) a fixed rotation through the menu
        return menu[cx.choose(name, len(menu))] if class_select else menu[k % len(menu)]

    progs, jobsn = zip(*[_names(i) for i in range(nsub)])
    pre_prog = [progs[0]] if init != 'fresh' else []
    pre_done = [jobsn[0]] if init in ('job_done', 'job_done_jae') else []
    pre_running = [jobsn[0]] if init == 'job_running' else []
    H = {'events': [], 'tasks': [None] * nsub, 'cancelled': set(), 'stopped': set(), 'fatal': {}, 'rejected': {}, 'inflight_at_fatal': None}
    H.update({'cancel_rpcs': [], 'never_started': set(), 'stop_midway': set(), 'race': None})
    if race is not None:
        # "cancel after the k-th action, `delay` loop iterations later": genuinely numeric, hence solver variables
        race_after = cx.int('cancel_after', 1, None)
        race_delay = cx.int('cancel_delay', 0, None)

    async def race_window(loop, step, acted, submitted):
        """the racing cancellation: called right after driver action number `step`, BEFORE the loop gets to run"""
        import asyncio

        d = 0
        while True:
            if race == 'stop':
                targets = [i for i in range(submitted) if not H['tasks'][i].done()]
            else:
                i = int(race[6:])
                targets = [i] if i < submitted and not H['tasks'][i].done() else []
            if not targets:
                return  # nothing (left) in flight that this cancellation could hit
            quiescent = not loop._ready  # every later delay is this same point
            if quiescent or bool(race_delay == d):
                H['events'].append(f'{race}@+{d}' + ('(quiescent)' if quiescent else ''))
                H['race'] = {'kind': race, 'after': acted, 'delay': d, 'quiescent': quiescent, 'targets': targets}
                if race == 'stop':
                    # classification only (never used for an expected value): does every in-flight execution coroutine hold
                    # a pending subscription right now?  If not (coroutine not started yet, or between a delivered reply /
                    # stream break and its next request) stop() cannot reach it: that window is the recorded finding
                    # stream.finding.stop_strands_unsubscribed_submission and is kept out of the healthy family.
                    subs = getattr(getattr(H['mgr'], '_response_demux', None), '_subscribers', {})
                    unreachable = len(targets) - sum(1 for f in subs.values() if not f.done())
                    cx.assume((unreachable > 0) == (stop_window == 'unsubscribed'))
                    H['stopped'].update(targets)
                    if not quiescent:
                        H['stop_midway'].update(targets)
                    H['mgr'].stop()
                else:
                    H['cancelled'].add(targets[0])
                    if d == 0 and acted == ('submit', targets[0]):
                        H['never_started'].add(targets[0])  # the execution coroutine has not run a single step
                    H['tasks'][targets[0]].cancel()
                return
            await asyncio.sleep(0)  # exactly one iteration of the event loop
            d += 1

    async def driver(loop):
        eng = C.make_engine(D, quantum, H, programs=pre_prog, done_jobs=pre_done, running_jobs=pre_running, both_exist_code='job' if init == 'job_done_jae' else 'program')
        mgr, ex = D.make_manager(loop, eng)
        H['eng'], H['mgr'] = eng, mgr
        race_open = race is not None
        pending_faults = list(faults)
        submitted = 0
        step = 0
        nfault = 0
        while True:
            await D.settle(loop)
            step += 1
            if step > 60:
                raise D.Hang('client keeps sending requests: no termination within 60 service steps')
            unresolved = [i for i in range(submitted) if not H['tasks'][i].done()]
            acts = []
            if submitted < nsub:
                acts.append(('submit', submitted))
            st = eng.live_stream()
            if st is not None and st.inbox:
                acts.append(('process', st))
            for j in eng.running_jobs():
                acts.append(('finish', j))
            if pending_faults:
                f = pending_faults[0]
                if f in ('break_retry', 'break_fatal') and st is not None and unresolved:
                    acts.append(('fault', f))
                elif f == 'open_fail' and (
                    (st is None and submitted < nsub)
                    or (st is not None and unresolved and len(pending_faults) > 1 and pending_faults[1].startswith('break'))
                ):
                    acts.append(('fault', f))  # arms: the NEXT stream open fails
                elif f == 'reject' and st is not None and st.inbox:
                    acts.append(('fault', f))
                elif f.startswith('cancel') and int(f[6:]) in unresolved:
                    acts.append(('fault', f))
                elif f == 'stop' and unresolved:
                    acts.append(('fault', f))
            if not acts:
                break
            if not unresolved and submitted == nsub:
                break
            acts.sort(key=lambda a: a[0] != 'fault')  # fault first: the first explored schedule uses the faults
            a = acts[cx.choose(f'act{step}', len(acts))]
            H['events'].append(a[0] if a[0] != 'fault' else a[1])
            if a[0] == 'submit':
                i = a[1]
                H['tasks'][i] = mgr.submit(PROJECT, quantum.QuantumProgram(name=progs[i]), quantum.QuantumJob(name=jobsn[i]))
                submitted += 1
            elif a[0] == 'process':
                eng.process_next(a[1])
            elif a[0] == 'finish':
                eng.finish_job(a[1])
            else:
                f = pending_faults.pop(0)
                nfault += 1
                if f == 'break_retry':
                    exc = pick(f'rx{nfault}', RETRY, nfault)('stream broke')
                    eng.break_stream(st, exc)
                elif f == 'break_fatal':
                    exc = pick(f'fx{nfault}', FATAL, nfault)('stream broke for good')
                    H['fatal'][id(exc)] = (exc, list(unresolved))
                    for i in unresolved:
                        H.setdefault('fatal_for', {}).setdefault(i, exc)
                    eng.break_stream(st, exc)
                elif f == 'open_fail':
                    eng.open_fail.append(pick(f'ox{nfault}', RETRY, nfault + 1)('cannot open stream'))
                    # the failing open happens with the next submission
                elif f == 'reject':
                    code = pick(f'code{nfault}', REJECT, nfault)
                    mid = st.inbox[0].message_id
                    req = st.inbox[0]
                    tgt = _request_job(req)
                    H['rejected'].setdefault(tgt, f'injected error {int(code)} for message {mid}')
                    eng.process_next(st, inject=code)
                elif f == 'stop':
                    H['stopped'].update(unresolved)
                    mgr.stop()
                else:
                    i = int(f[6:])
                    H['cancelled'].add(i)
                    H['tasks'][i].cancel()
            if race_open and bool(race_after == step):
                race_open = False
                await race_window(loop, step, (a[0], a[1]) if a[0] in ('submit', 'fault') else (a[0], None), submitted)
        await D.settle(loop)
        H['unresolved_end'] = [i for i in range(submitted) if not H['tasks'][i].done()]
        H['submitted'] = submitted
        H['unused_faults'] = list(pending_faults)
        t = mgr._manage_stream_loop_future
        H['stream_task_crashed'] = t is not None and t.done()  # None: never started or stopped by stop()
        # stop the manager: the stream coroutine must end
        mgr.stop()
        await D.settle(loop)
        H['stream_task_alive'] = [t for t in ex.tasks if not t.done()]
        return None

    hang = None
    try:
        _, loop_errors = D.run_stream_scenario(driver)
    except D.Hang as e:
        hang, loop_errors = e, []
    check_stream_history(cx, H, nsub, jobsn, progs, init, hang, loop_errors, wrong, sm, quantum)


def _request_job(req):
    if 'create_quantum_program_and_job' in req:
        return req.create_quantum_program_and_job.quantum_job.name
    if 'create_quantum_job' in req:
        return req.create_quantum_job.quantum_job.name
    return req.get_quantum_result.parent


def check_stream_history(cx, H, nsub, jobsn, progs, init, hang, loop_errors, wrong, sm, quantum):
    import asyncio

    K = Checks(cx)
    K.add('terminates', hang is None, str(hang))
    if hang is not None:
        K.flush()
        return
    eng = H['eng']
    ev = ','.join(H['events'])
    if _DEBUG:
        outs = [('cancelled' if t.cancelled() else repr(t.exception() or t.result().parent[-4:])) if t is not None and t.done() else 'unresolved' for t in H['tasks']]
        print('SCHED', ev, '| REQ', [(r[0], r[1], r[2]) for r in eng.requests], '| created', dict(eng.job_creations), '| cancels', len(eng.cancels), '| out', outs)
    K.add('all-callers-resolved', H['unresolved_end'] == [], f'unresolved {H["unresolved_end"]} after [{ev}]')
    K.add('stream-coroutine-survives', not H['stream_task_crashed'], 'the _manage_stream task ended by itself')
    K.add('stream-coroutine-stops', not H['stream_task_alive'], 'tasks alive after stop()')
    for i in range(H['submitted']):
        t = H['tasks'][i]
        if not t.done():
            continue
        job = jobsn[i]
        pre = 1 if (i == 0 and init in ('job_done', 'job_done_jae', 'job_running')) else 0
        created = eng.job_creations.get(job, 0)
        # the job is never executed twice, whatever happened
        K.add('job-created-at-most-once', created + pre <= 1, f'{job}: created {created}x (+{pre} pre-existing) after [{ev}]')
        K.add('program-created-at-most-once', eng.program_creations.get(progs[i], 0) <= 1, progs[i])
        ncancel = sum(1 for c in eng.cancels if c == job)
        if t.cancelled():
            outcome = ('cancelled',)
        elif t.exception() is not None:
            outcome = ('raised', t.exception())
        else:
            outcome = ('result', t.result())
        if i in H['cancelled']:
            exp = 'cancelled'
        elif i in H['stopped'] and (i not in H['stop_midway'] or outcome == ('cancelled',)):
            # stop() at a quiescent point always cancels the caller; a stop() that lands in the middle of the client's reaction
            # to a reply / stream break may find the submission already settled (reply delivered): then the ordinary outcome
            # below is the only other acceptable one
            exp = 'stopped'
        elif i in H.get('fatal_for', {}):
            exp = 'fatal'
        elif job in H['rejected']:
            exp = 'rejected'
        else:
            exp = 'result'
        if wrong == 'outcome':
            exp = {'result': 'rejected', 'rejected': 'result', 'cancelled': 'result', 'stopped': 'result', 'fatal': 'result'}[exp]
        where = f'submission {i} after [{ev}]: {outcome}'
        if exp == 'cancelled':
            # cancellation cancels the remote job (exactly one cancel RPC, for this job) and the caller sees it
            K.add('cancel-reaches-caller', outcome == ('cancelled',), where)
            if i not in H['never_started']:  # (cancelled before its coroutine ran a single step: separate law below)
                K.add('cancel-cancels-remote-job', ncancel == 1, f'{ncancel} cancel RPCs for {job}; {where}')
        elif exp == 'stopped':
            # StreamManager.stop() while the job is in flight: the caller sees a cancellation
            K.add('stop-cancels-callers-in-flight', outcome == ('cancelled',), where)
            K.add('at-most-one-cancel-rpc', ncancel <= 1, f'{ncancel} cancel RPCs for {job}; {where}')
        else:
            K.add('no-cancel-rpc-without-cancel', ncancel == 0, f'{ncancel} cancel RPCs for {job}; {where}')
        # cancellation accounting, on EVERY schedule: the caller sees CancelledError <=> exactly one CancelQuantumJob RPC
        # was received for its job (no remote job keeps running that nobody waits for, no job is cancelled behind the back
        # of a caller that got a result / an error)
        rpcs = [c for c in H['cancel_rpcs'] if c['job'] == job]
        caller_cancelled = outcome == ('cancelled',)
        if wrong == 'cancel_rpc':
            caller_cancelled = not caller_cancelled
        acct = f'{len(rpcs)} cancel RPCs for {job} {[(c["after_events"], c["job_state"]) for c in rpcs]}; {where}'
        if i in H['never_started']:
            # cancelled in the loop turn of its own submit(): the execution coroutine never ran, so nothing may have been sent
            sent = [r for r in eng.requests if r[3] == job] + [1 for st in eng.streams for r in st.inbox + st.lost if _request_job(r) == job]
            K.add('cancelled-before-first-step-sends-nothing', len(rpcs) == (0 if wrong != 'cancel_rpc' else 1) and created == 0 and not sent, acct)
        elif caller_cancelled:
            K.add('caller-cancelled=>exactly-one-cancel-rpc', len(rpcs) == 1, acct)
        else:
            K.add('caller-not-cancelled=>no-cancel-rpc', len(rpcs) == 0, acct)
        if exp == 'fatal':
            K.add('non-retryable-break-surfaces', outcome[0] == 'raised' and outcome[1] is H['fatal_for'][i], where)
        elif exp == 'rejected':
            ok = outcome[0] == 'raised' and isinstance(outcome[1], sm.StreamError) and str(outcome[1]) == H['rejected'].get(job)
            K.add('non-retryable-code-surfaces', ok, where)
        elif exp == 'result':
            res = outcome[1] if outcome[0] == 'result' else None
            ok = isinstance(res, quantum.QuantumResult) and res.parent == (job if wrong != 'routing' else 'x')
            K.add('caller-gets-its-own-result', ok, where)
            K.add('job-ran-exactly-once', created + pre == (1 if wrong != 'once' else 2), f'{job}: created {created}x; {where}')
    K.flush()


# ================================================================================================
# obligations
# ================================================================================================
def obligations(tier):
    quick = tier == 'quick'
    obs = []

    # ---- Part 1 --------------------------------------------------------------------------------
    NMAX = 3 if quick else 4
    TWINS = ['concurrency', 'budget', 'delivery', 'error']
    MAX_ERR = 2
    k = 0
    for n in range(1, NMAX + 1):
        shapes = sorted(job_shapes(n), key=lambda sh: sh[0] is None)  # stable: shapes that start with a None answer last
        groups = 1 if n < 3 else (6 if n == 3 else 20)  # <= number of shapes that start with work (every twin needs one)
        for g in range(groups):
            mine = [s for i, s in enumerate(shapes) if i % groups == g]

            def body(cx, wrong=None, n=n, mine=mine):
                shape = mine[cx.choose('shape', len(mine))]
                collector_scenario(cx, n, shape, MAX_ERR, wrong)

            tw = TWINS[k % 4]
            k += 1
            obs.append(
                Obligation(
                    f'collector.jobs{n}.g{g}',
                    body,
                    twin=lambda cx, body=body, tw=tw: body(cx, wrong=tw),
                    points=[
                        dict({'concurrency': 2, 'max_total_samples': 3}, **{f'reps{j}': 2 for j in range(n)}),
                        {'concurrency': 1, 'choose:no_budget': 1, 'choose:fail0': 1},
                        dict({'concurrency': 5, 'max_total_samples': 100, 'choose:more0': 1, 'choose:pick0': n - 1}, **{f'reps{j}': j for j in range(n)}),
                    ],
                    opts={'weight': 2 * (n ** 3), 'max_paths': 400000, 'depth_limit': 2000},
                    desc=f'Collector.collect_async with {n} jobs handed out in {len(mine)} batch shapes (group {g}), 0..{MAX_ERR} failing sampler calls; symbolic concurrency / max_total_samples / repetitions; every completion order and batching; twin: wrong {tw} law',
                )
            )
    for spt, nterms in [(1, 1), (2, 1), (3, 1), (1, 2), (2, 2)] + ([] if quick else [(3, 2), (4, 1)]):
        batching = spt * nterms <= (3 if quick else 4)

        def pbody(cx, wrong=False, spt=spt, nterms=nterms, batching=batching):
            pauli_scenario(cx, spt, nterms, batching, wrong)

        obs.append(
            Obligation(
                f'collector.pauli_sum.spt{spt}.terms{nterms}',
                pbody,
                twin=lambda cx, pbody=pbody: pbody(cx, wrong=True),
                points=[{'concurrency': 2, 'max_samples_per_job': 2, 'max_total_samples': 50}, {'concurrency': 1, 'max_samples_per_job': 1, 'max_total_samples': 7, 'choose:pick1': 1}],
                opts={'weight': 3 ** (spt * nterms), 'max_paths': 400000, 'depth_limit': 2000},
                desc=f'PauliSumCollector ({nterms} term(s), samples_per_term={spt}, symbolic max_samples_per_job >= 1, concurrency, max_total_samples): every term is requested and tallied exactly samples_per_term times for every job split and completion order',
            )
        )

    # ---- Part 2 --------------------------------------------------------------------------------
    def fault_seqs(nsub, maxf):
        kinds = [k for k in FAULT_KINDS if not (k == 'cancel1' and nsub < 2)]
        seqs = [()]
        for L in range(1, maxf + 1):
            for s in itertools.product(kinds, repeat=L):
                if any(s.count(c) > 1 for c in ('cancel0', 'cancel1')):
                    continue
                # a fault that resolves a submission for good (cancel, fatal break, rejected request) can be followed
                # by further faults only while another submission is left: drop plans that can never be injected fully
                if 'stop' in s and L > 2:
                    continue  # stop() is combined with at most one other fault
                term = [i for i, k in enumerate(s) if k in ('cancel0', 'cancel1', 'break_fatal', 'reject', 'stop')]
                if len(term) >= nsub and term[nsub - 1] != L - 1:
                    continue
                seqs.append(s)
        return seqs

    plans = []
    if quick:
        plans += [(1, i, s) for i in INITS for s in fault_seqs(1, 3)]
        plans += [(2, i, s) for i in INITS for s in fault_seqs(2, 1)]
        plans += [(2, i, s) for i in ('fresh', 'program_exists') for s in fault_seqs(2, 2) if len(s) == 2]
    else:
        plans += [(1, i, s) for i in INITS for s in fault_seqs(1, 3)]
        plans += [(2, i, s) for i in INITS for s in fault_seqs(2, 2)]
        plans += [(2, i, s) for i in INITS for s in fault_seqs(2, 3) if len(s) == 3]
    for k, (nsub, init, seq) in enumerate(plans):

        cls = not (nsub == 2 and len(seq) == 3)

        def sbody(cx, wrong=None, nsub=nsub, init=init, seq=seq, cls=cls):
            stream_scenario(cx, nsub, init, seq, wrong, class_select=cls)

        tw = 'outcome'
        obs.append(
            Obligation(
                f'stream.sub{nsub}.{init}.' + ('+'.join(seq) if seq else 'nofault'),
                sbody,
                twin=lambda cx, sbody=sbody, tw=tw: sbody(cx, wrong=tw),
                points=[{}, {'choose:act2': 1, 'choose:act3': 1}],
                opts={'weight': (4 ** len(seq)) * (6 if nsub == 2 else 1), 'max_paths': 400000},
                desc=f'StreamManager: {nsub} submission(s), service initially {init}, faults {seq or "none"} injected at every possible point of every schedule of service steps',
                kind='bounded-exhaustive (finite selectors only)',
            )
        )
    # ---- Part 2b: cancellation at EVERY point of the schedule (not only the quiescent ones) -----------------
    for k, (nsub, init, seq, racer) in enumerate(race_plans(quick)):

        def rbody(cx, wrong=None, nsub=nsub, init=init, seq=seq, racer=racer):
            stream_scenario(cx, nsub, init, seq, wrong, class_select=False, race=racer)

        obs.append(
            Obligation(
                f'stream.cancelpoint.sub{nsub}.{init}.' + ('+'.join(seq) if seq else 'nofault') + f'.{racer}',
                rbody,
                twin=lambda cx, rbody=rbody: rbody(cx, wrong='cancel_rpc'),
                points=[{'cancel_after': 1, 'cancel_delay': 1}, {'cancel_after': 2, 'cancel_delay': 0}, {'cancel_after': 3, 'cancel_delay': 2, 'choose:act2': 1}, {'cancel_after': 50, 'cancel_delay': 0}],
                opts={'weight': (4 ** len(seq)) * (6 if nsub == 2 else 1) * 6, 'max_paths': 400000, 'depth_limit': 2000},
                desc=f'StreamManager cancellation accounting: {nsub} submission(s), service initially {init}, faults {seq or "none"} at every quiescent point of every schedule, '
                f'plus {racer} fired cancel_delay loop iterations after the cancel_after-th action (both unbounded z3 integers): caller cancelled <=> exactly one CancelQuantumJob RPC for its job',
                kind='symbolic integers (position and delay of the cancellation) over bounded-exhaustive schedules',
            )
        )
    # the window the healthy family leaves out (see race_window): recorded finding, asserted with the SAME laws
    FIND = [(1, 'fresh', ()), (1, 'program_exists', ()), (1, 'fresh', ('break_retry',)), (2, 'fresh', ())]

    def fbody(cx, wrong=None):
        nsub, init, seq = FIND[cx.choose('plan', len(FIND))]
        stream_scenario(cx, nsub, init, seq, wrong, class_select=False, race='stop', stop_window='unsubscribed')

    obs.append(
        Obligation(
            'stream.finding.stop_strands_unsubscribed_submission',
            fbody,
            twin=lambda cx: fbody(cx, wrong='cancel_rpc'),
            points=[{'choose:plan': 0, 'cancel_after': 1, 'cancel_delay': 0}, {'choose:plan': 1, 'cancel_after': 2, 'cancel_delay': 1}, {'choose:plan': 2, 'cancel_after': 2, 'cancel_delay': 1}],
            opts={'weight': 50, 'max_paths': 400000, 'depth_limit': 2000},
            desc='StreamManager.stop() fired (cancel_delay loop iterations after the cancel_after-th action, z3 integers) while an in-flight execution coroutine holds no pending '
            'subscription (submit() not started yet / between a delivered retryable reply or stream break and its next request): the same laws as the healthy family; '
            'on the recorded defect the coroutine re-subscribes in the fresh ResponseDemux and writes to the abandoned request queue, so the caller never resolves and no cancel RPC is sent',
            kind='symbolic integers (position and delay of stop()) over bounded-exhaustive schedules',
        )
    )
    return obs


def race_plans(quick):
    """(submissions, initial service state, faults injected at quiescent points, racing cancellation)"""
    plans = []
    one = [(), ('break_retry',), ('open_fail',), ('reject',), ('break_fatal',), ('stop',), ('cancel0',), ('break_retry', 'break_retry'), ('open_fail', 'break_retry')]
    if not quick:
        one += [('break_retry', 'reject'), ('break_retry', 'break_fatal'), ('break_retry', 'stop'), ('break_retry', 'break_retry', 'break_retry')]
    for init in INITS:
        for seq in one:
            for racer in ('cancel0', 'stop'):
                if 'stop' in seq and racer == 'stop':
                    continue  # a second stop() finds nothing in flight
                plans.append((1, init, seq, racer))
    two = [(), ('break_retry',), ('reject',), ('stop',)]
    for init in INITS:
        for seq in two + ([] if quick else [('break_fatal',), ('open_fail',), ('cancel1',)]):
            if quick and seq and init not in ('fresh', 'program_exists'):
                continue
            for racer in RACERS:
                if 'stop' in seq and racer == 'stop':
                    continue
                plans.append((2, init, seq, racer))
    if not quick:
        plans += [(2, init, ('break_retry', 'break_retry'), racer) for init in ('fresh', 'program_exists') for racer in RACERS]
    return plans


LEVEL = (
    'Solver-driven bounded exploration of the real orchestration code on deterministic single-thread drivers. '
    'Part 1 (cirq.Collector.collect_async, PauliSumCollector): concurrency, max_total_samples, per-job repetitions and max_samples_per_job are '
    'unbounded z3 integers that flow through the real dispatch loop; the loop guards partition them, and z3 decides on every path the laws '
    '"in flight <= concurrency", "no start once budget <= 0", "sleeps/stops only when out of budget, at capacity or told there is no work", '
    '"per-term sample totals" over ALL integer values; completion order, batching of completions, job-tree shapes and failing calls are finite selectors, all exhausted. '
    'Part 2 (cirq_google StreamManager / ResponseDemux): there is nothing numeric to make symbolic; the solver-backed explorer only SELECTS schedules and fault sequences from finite menus, '
    'i.e. this part is bounded exhaustive exploration (every interleaving of submissions, service steps, job completions, stream breaks before/after processing, failing opens, '
    'injected non-retryable codes and cancellations within the bounds), each schedule executed through the real client code against a model Quantum Engine stream service. '
    'Part 2b (cancellation accounting): the model service logs every CancelQuantumJob RPC and every schedule asserts "caller sees CancelledError <=> exactly one cancel RPC for its job" '
    '(none for a submission that returned a result or raised); in the stream.cancelpoint.* obligations the position of one extra cancellation (task cancel or StreamManager.stop()) is given by two '
    'unbounded z3 integers - index of the driver action it follows and number of event-loop iterations it is delayed - which the solver partitions into: same loop turn as the action, every later turn '
    'of the client reaction, the quiescent point (all larger delays), never (index beyond the schedule).'
)


def main(tier, seed=0, replay=None, only=None, procs=None):
    quick = tier == 'quick'
    bounds = {
        'part1_symbolic': 'concurrency, max_total_samples, repetitions of every job, PauliSumCollector.max_samples_per_job (>=1), per-job histogram counts: unbounded integers (z3 Int)',
        'part1_jobs': '<=3 jobs (quick) / <=4 jobs (thorough); next_job hands them out in every composition into batches (bare job / list / nested tree), optionally with one None answer; max_total_samples None or symbolic',
        'part1_schedules': 'every completion order, every grouping of completions that happen before the collector runs again, <=2 failing sampler calls at any position',
        'part1_pauli_sum': 'samples_per_term x terms in {1x1,2x1,3x1,1x2,2x2} (quick; grouping of completions only up to 3 jobs) plus {3x2,4x1} (thorough; grouping up to 4 jobs), completion order restricted to oldest/newest outstanding call, symbolic max_total_samples >= terms*samples_per_term (never cuts the collection short)',
        'part2_enumerated': 'EVERYTHING in part 2 is a finite selector (bounded exhaustive exploration, no numeric symbolic input): schedule of {submit, service processes next request, job finishes}, fault positions, exception class (3 retryable, 3 non-retryable), injected StreamError code (6 non-retryable codes)',
        'part2_bounds': (
            '1 submission x <=3 faults x 5 initial service states; 2 concurrent submissions x <=1 fault x 5 initial states and x 2 faults from {fresh, program exists} (quick)'
            if quick
            else '1 submission x <=3 faults and 2 concurrent submissions x <=2 faults, each x 5 initial service states with exception class / error code selected; 2 concurrent submissions x 3 faults x 5 initial states with the exception class / error code rotated through the menus instead of selected'
        )
        + '; fault kinds: retryable stream break, non-retryable stream break, failing stream open, injected non-retryable StreamError code, cancel of either submission, StreamManager.stop() with jobs in flight (combined with at most one other fault); '
        'initial service state for submission 0: fresh / program exists / program+finished job (reply PROGRAM_ALREADY_EXISTS or JOB_ALREADY_EXISTS) / program+running job',
        'part2b_cancellation': (
            'symbolic: cancel_after >= 1 (index of the driver action the cancellation follows) and cancel_delay >= 0 (event-loop iterations between that action and the cancellation), unbounded z3 integers; '
            'enumerated: racing cancellation in {cancel of submission 0, cancel of submission 1, StreamManager.stop()}, at most ONE racing cancellation per schedule, on top of '
            + (
                '1 submission x 5 initial states x quiescent-point faults from {none, break_retry, open_fail, reject, break_fatal, stop, cancel0, break_retry+break_retry, open_fail+break_retry}; '
                '2 submissions x {none: 5 initial states; break_retry, reject, stop: fresh / program exists}'
                if quick
                else '1 submission x 5 initial states x quiescent-point faults from {none, break_retry, open_fail, reject, break_fatal, stop, cancel0, break_retry+break_retry, open_fail+break_retry, break_retry+reject, '
                'break_retry+break_fatal, break_retry+stop, 3x break_retry}; 2 submissions x 5 initial states x {none, break_retry, reject, stop, break_fatal, open_fail, cancel1} and break_retry+break_retry from fresh / program exists'
            )
            + '; exception classes / error codes rotated, not selected. Granularity of a cancellation point: one iteration of the asyncio loop (what a cancel() / stop() arriving from another thread through '
            'call_soon_threadsafe can distinguish). stop() is split by whether every in-flight execution coroutine holds a pending subscription at that instant (read from ResponseDemux._subscribers, classification only): '
            'the healthy family takes the subscribed windows, stream.finding.stop_strands_unsubscribed_submission the others. A cancel in the very turn of its own submit() (coroutine never ran) must send NOTHING (no request, no cancel RPC)'
        ),
        'outside': [
            'two racing cancellations in one schedule; a cancellation that interrupts the CancelQuantumJob RPC itself after more than one loop turn (the model RPC completes in one turn and is logged on arrival); cancellation points inside one loop iteration (between two callbacks of the same turn)',
            'real threads / AsyncioExecutor background thread / duet<->asyncio bridging (replaced by an in-loop executor; thread-safety of ResponseDemux across threads is NOT covered)',
            'real gRPC transport: the model keeps the request-iterator reader of a dead stream alive until it reads the None sentinel (as grpc.aio / the repo fake do)',
            'more than 4 jobs / 2 concurrent submissions / 3 faults; exponential backoff; EngineClient / EngineJob / ProcessorSampler layers above StreamManager',
            'max_total_samples=None with symbolic repetitions (np.inf arithmetic): repetitions are concrete there',
        ],
    }
    assumptions = BASE_ASSUMPTIONS[-1:] + [
        'duet scheduler and asyncio loop are deterministic on one thread; the controller acts only at quiescence (all other tasks blocked), detected via duet Task._ready_future / loop._ready',
        'model Quantum Engine stream service (oracles/async_drivers.py ModelEngine) written from the StreamError code semantics: create/get semantics, reply when the job finishes, broken stream loses unprocessed requests and unsent replies',
        'StreamManager._executor is overridden by an in-loop executor; submit() returns the asyncio Task (cancel() on it stands for cancelling the duet future)',
        'a schedule that does not finish within 20 s / 60 service steps is reported as a livelock of the code under test',
    ]
    return run_check(PID, tier, 'checks.C20', SHIMS, LEVEL, assumptions, bounds, seed=seed, replay=replay, only=only, procs=procs)

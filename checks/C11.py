"""C11: JSON round-trips every value (narrow claim, see LEVEL / bounds['outside']).

Parts
 json.*      per-class round trip  obj -> CirqEncoder.default -> (json tree) -> ObjectHook -> back  with SYMBOLIC
             numeric field values flowing through the real `_json_dict_`, `CirqEncoder.default`, `ObjectHook.__call__`,
             resolver lookup, `_from_json_dict_` / constructor, then the real `==`, and an attribute-by-attribute
             comparison written in the harness.  Only the C-level text step is replaced by the tree model in
             oracles/json_model.py (in concrete mode / replay the real text `cirq.to_json`/`cirq.read_json` is used
             and the model is compared with `json.loads` of the real text).
 json.lin.*  EXACT round trip (no tolerance) of cirq.LinearDict and of the values built on it (PauliSum, ProjectorSum,
             PauliString-family / ProjectorString coefficients) with symbolic real / purely imaginary / complex coefficients
             over [-10,10] (0, every tiny magnitude, exactly 1e-9 ...), sympy-valued coefficients (enumerated menu) next to
             symbolic numeric ones, nesting in lists / dicts, and the same exactness for 35 other numeric fields; complex
             symbolic scalars go through the real CirqEncoder 'complex' branch (oracles/json_model_complex.py).
 eq.*        value_equality contracts on symbolic field values (reflexive on rebuilt copies, symmetric, and
             "equal gates have equal matrices").
 time.*      Duration / Timestamp arithmetic and ordering against the picosecond number.
 hist.*      cached-hash histories: solver-driven BOUNDED EXPLORATION (finite menus of steps; labelled as such).
 key.*       MeasurementKey string laws: CrossHair contracts in harness_ch/c11_keys.py (run by harness_ch/runner.py).
"""
from __future__ import annotations

import copy
import itertools
import json
import math
import pickle
import types

import numpy as np

from checks.common import BASE_ASSUMPTIONS, CORE_SHIM_MODULES
from oracles import json_model as JM
from oracles import json_model_complex as JMC
from symx.explore import Obligation
from symx.hint import hint
from symx.run import run_check
from symx.sint import SBool, SInt
from symx.snum import SNum

PID = 'C11'

SHIMS = CORE_SHIM_MODULES + [
    'cirq.value.duration',
    'cirq.value.timestamp',
    'cirq.ops.wait_gate',
    'cirq.ops.dense_pauli_string',
    'cirq.ops.pauli_string',
    'cirq.ops.pauli_string_phasor',
    'cirq.ops.random_gate_channel',
    'cirq.ops.parallel_gate',
    'cirq.ops.control_values',
    'cirq.ops.measurement_gate',
    'cirq.ops.mixed_unitary_channel',
    'cirq.ops.kraus_channel',
    'cirq.ops.linear_combinations',
    'cirq.ops.projector',
    'cirq.ops.boolean_hamiltonian',
    'cirq.ops.qubit_order',
    'cirq.ops.tags',
    'cirq.value.linear_dict',
    'cirq.value.condition',
    'cirq.value.abc_alt',
    'cirq.study.sweeps',
    'cirq.study.resolver',
    'cirq.study.result',
    'cirq.circuits.circuit',
    'cirq.circuits.circuit_operation',
    'cirq.circuits.moment',
    'cirq.circuits.frozen_circuit',
    'cirq.circuits.qasm_output',
    'cirq.work.observable_measurement_data',
    'cirq.work.observable_measurement',
    'cirq.experiments.random_quantum_circuit_generation',
    'cirq.experiments.xeb_fitting',
    'cirq.experiments.single_qubit_readout_calibration',
    'cirq.protocols.json_serialization',
    'cirq.protocols.approximate_equality_protocol',
    'cirq.protocols.resolve_parameters',
    'cirq.devices.noise_model',
    'cirq_google.experimental.ops.coupler_pulse',
    'cirq_google.ops.internal_gate',
    'cirq_google.workflow.processor_record',
    'cirq_google.workflow.quantum_executable',
    'cirq_google.workflow.quantum_runtime',
    'cirq_google.study.device_parameter',
    'cirq_google.engine.calibration_layer',
    'cirq_pasqal.pasqal_qubits',
    'cirq_pasqal.pasqal_device',
    'cirq_ionq.ionq_native_target_gateset',
]

TOL = 1e-9
E = 4.0


# =================================================================================================
# generic comparison of observables (harness side; independent of _value_equality_values_)
# =================================================================================================
def is_symb(x):
    return isinstance(x, (SNum, SInt, SBool))


def _is_num(x):
    import sympy

    if isinstance(x, (bool, np.bool_)):
        return False
    if isinstance(x, sympy.Basic):
        return False
    return isinstance(x, (int, float, complex, np.number, SNum, SInt))


class Cmp:
    """collects numeric observables (for cx.close) and Boolean conditions (for cx.check)"""

    def __init__(self, strict=True):
        self.na, self.nb, self.conds = [], [], []
        self.strict = strict  # list vs tuple matters for attributes of the rebuilt object (JSON turns tuples into lists)

    def add(self, a, b, path='$'):
        if _is_num(a) and _is_num(b):
            self.na.append(a)
            self.nb.append(b)
            return
        if isinstance(a, (SBool, bool, np.bool_)) and isinstance(b, (SBool, bool, np.bool_)):
            if isinstance(a, SBool) or isinstance(b, SBool):
                a = a if isinstance(a, SBool) else SBool(bool(a))
                self.conds.append((path, a == b))
            else:
                self.conds.append((path, bool(a) == bool(b)))
            return
        if isinstance(a, np.ndarray) or isinstance(b, np.ndarray):
            a, b = np.asarray(a), np.asarray(b)
            if a.shape != b.shape:
                self.conds.append((path + '.shape', False))
                return
            for i, (x, y) in enumerate(zip(a.reshape(-1), b.reshape(-1))):
                self.add(x, y, f'{path}[{i}]')
            return
        if isinstance(a, (list, tuple)) and isinstance(b, (list, tuple)):
            if self.strict and type(a) is not type(b):
                self.conds.append((path + f'.type({type(a).__name__} vs {type(b).__name__})', False))
                return
            if len(a) != len(b):
                self.conds.append((path + '.len', False))
                return
            for i, (x, y) in enumerate(zip(a, b)):
                self.add(x, y, f'{path}[{i}]')
            return
        if isinstance(a, dict) and isinstance(b, dict):
            ka, kb = list(a.keys()), list(b.keys())
            if len(ka) != len(kb) or any(k not in b for k in ka):
                self.conds.append((path + '.keys', False))
                return
            for k in ka:
                self.add(a[k], b[k], f'{path}[{k!r}]')
            return
        if (a is None) != (b is None):
            self.conds.append((path + '.none', False))
            return
        r = a == b
        if isinstance(r, np.ndarray):
            r = bool(r.all())
        self.conds.append((path, r if isinstance(r, SBool) else bool(r)))

    def emit(self, cx, label, wrong=False):
        bad = [p for p, c in self.conds if not isinstance(c, SBool) and not c]
        cx.check(not bad, label=f'{label}.structure{bad[:3] if bad else ""}')
        for p, c in self.conds:
            if isinstance(c, SBool):
                cx.check(c, label=f'{label}.{p}')
        nb = list(self.nb)
        if wrong:
            if nb:
                nb[0] = nb[0] + 0.01
            else:
                cx.check(False, label=f'{label}.twin-no-numeric-observable')
        cx.close(np.array(self.na + [0], dtype=object), np.array(nb + [0], dtype=object), tol=TOL, label=f'{label}.observables')


def observe(obj, attrs):
    out = []
    for a in attrs:
        v = a(obj) if callable(a) else getattr(obj, a)
        out.append(v() if isinstance(v, (types.MethodType, types.FunctionType)) else v)
    return out


def roundtrip(cx, obj):
    """symbolic mode: real CirqEncoder.default / ObjectHook around the tree model of `json`;
    concrete mode: the real text round trip, plus model-vs-json.loads agreement"""
    import cirq
    from cirq.protocols import json_serialization as js

    if cx.mode == 'concrete':
        text = cirq.to_json(obj)
        back = cirq.read_json(json_text=text)
        model_tree = JM.encode_tree(obj, js.CirqEncoder().default)
        cx.check(_plain_equal(json.loads(text), model_tree), label='json-tree-model == json.loads(cirq.to_json(obj))')
        return back
    back, _tree = JM.cirq_roundtrip(obj)
    return back


def _plain_equal(a, b):
    if isinstance(a, dict) and isinstance(b, dict):
        return list(a.keys()) == list(b.keys()) and all(_plain_equal(a[k], b[k]) for k in a)
    if isinstance(a, list) and isinstance(b, list):
        return len(a) == len(b) and all(_plain_equal(x, y) for x, y in zip(a, b))
    if isinstance(a, float) and isinstance(b, float) and math.isnan(a) and math.isnan(b):
        return True
    if isinstance(a, bool) != isinstance(b, bool):
        return False
    if isinstance(a, (int, float)) and isinstance(b, (int, float)):
        return isinstance(a, float) == isinstance(b, float) and a == b  # 1 stays int, 1.0 stays float
    return type(a) is type(b) and a == b


def as_bool(x):
    if isinstance(x, SBool):
        return x
    if x is NotImplemented:
        return False
    return bool(x)


# =================================================================================================
# part A: per-class JSON round trip
# =================================================================================================
def json_ob(name, build, attrs, reals=(), ints=(), choices=(), unitary=False, hashable=True, expected=(), desc='', points=None, opts=None, eq=True):
    """reals: (name, lo, hi) symbolic reals; ints: (name, lo, hi) symbolic integers; choices: (name, n)"""
    import cirq

    def body(cx, wrong=False):
        kw = {}
        for n, lo, hi in reals:
            kw[n] = cx.real(n, lo, hi)
        for n, lo, hi in ints:
            kw[n] = hint(cx, n, lo, hi)
        for n, k in choices:
            kw[n] = cx.choose(n, k)
        obj = build(**kw)
        back = roundtrip(cx, obj)
        cx.check(type(back) is type(obj), label=f'{name}.type')
        c = Cmp()
        for a_, vb, vo in zip(attrs, observe(back, attrs), observe(obj, attrs)):
            c.add(vb, vo, a_ if isinstance(a_, str) else '$')
        if unitary:
            c.add(cirq.unitary(back), cirq.unitary(obj), 'unitary')
        c.emit(cx, name, wrong)
        if eq:
            cx.check(as_bool(back == obj), label=f'{name}.back==obj')
            cx.check(as_bool(obj == back), label=f'{name}.obj==back')
            ne = back != obj
            cx.check(~ne if isinstance(ne, SBool) else not ne, label=f'{name}.not(back!=obj)')
        if hashable and cx.mode == 'concrete':
            # hash VALUES of symbolic numbers are not modelled (constant): hash agreement is decided at the concrete
            # validation points and in every replay only (and in hist.*)
            cx.check(hash(back) == hash(obj), label=f'{name}.hash')

    pts = points
    if pts is None:
        pts = []
        vals = [0.0, 1.0, 0.25, -0.5, 2.0, 0.5, 1.5, -1.0, 3.7, 0.123]
        ch = list(itertools.product(*[range(k) for _, k in choices])) or [()]
        for ci, cv in enumerate(ch[:8]):
            for i in range(4 if len(ch) > 1 else 8):
                env = {'choose:' + n: v for (n, _), v in zip(choices, cv)}
                ok = True
                for j, (n, lo, hi) in enumerate(reals):
                    v = vals[(i + 3 * j + ci) % len(vals)]
                    if not lo <= v <= hi:
                        v = lo + (hi - lo) * ((i + j) % 5) / 4.0
                    env[n] = v
                for j, (n, lo, hi) in enumerate(ints):
                    env[n] = lo + (i + j) % (hi - lo + 1)
                if ok:
                    pts.append(env)
    return Obligation(
        'json.' + name,
        body,
        expected=expected,
        twin=lambda cx: body(cx, wrong=True),
        points=pts,
        opts=opts or {},
        desc=desc or f'{name}: read_json(to_json(x)) has the same type, the same observable attributes {[a for a in attrs if isinstance(a, str)]}, is == x (both ways), hashes equal; numeric fields symbolic',
    )


def json_obligations(tier):
    import sympy

    import cirq
    import cirq_google
    import cirq_ionq
    import cirq_pasqal

    obs = []
    t = ('t', -E, E)
    s = ('s', -1.0, 1.0)
    p = ('p', -2.0, 2.0)
    A = 7.0
    th, ph = ('theta', -A, A), ('phi', -A, A)
    pr = ('pr', 0.0, 1.0)
    g_ = ('g', 0.0, 1.0)
    q0, q1, q2 = cirq.LineQubit.range(3)
    ES = ['exponent', 'global_shift']

    # ---- eigen gates -------------------------------------------------------------------------
    for nm in ('YPowGate', 'HPowGate', 'CZPowGate', 'CXPowGate', 'CYPowGate', 'SwapPowGate', 'ISwapPowGate', 'XXPowGate', 'YYPowGate', 'ZZPowGate', 'CCZPowGate', 'CCXPowGate', 'CCYPowGate'):
        cls = getattr(cirq, nm, None)
        if cls is None:
            continue
        obs.append(json_ob(nm, lambda t, s, _c=cls: _c(exponent=t, global_shift=s), ES, [t, s], unitary=nm in ('YPowGate', 'HPowGate', 'CZPowGate', 'ISwapPowGate')))
    for nm in ('XPowGate', 'ZPowGate'):
        cls = getattr(cirq, nm)
        obs.append(json_ob(nm, lambda t, s, dim, _c=cls: _c(exponent=t, global_shift=s, dimension=dim + 2), ES + ['dimension'], [t, s], choices=[('dim', 2)], unitary=True, desc=f'{nm} incl. the "dimension omitted when == 2" branch'))
    for nm in ('Rx', 'Ry', 'Rz'):
        cls = getattr(cirq, nm)
        obs.append(json_ob(nm, lambda theta, _c=cls: _c(rads=theta), ES + ['_rads'], [th], unitary=True))
    obs.append(json_ob('cirq.MSGate', lambda theta: cirq.ms(theta), ES + ['rads'] if hasattr(cirq.ms(0.1), 'rads') else ES, [th]))
    obs.append(json_ob('PhasedXPowGate', lambda t, p, sk: cirq.PhasedXPowGate(exponent=t, phase_exponent=p, global_shift=[0.0, -0.5, 0.25][sk]), ['exponent', 'phase_exponent', 'global_shift'], [t, p], choices=[('sk', 3)], desc='PhasedXPowGate: exponent/phase symbolic; global_shift in {0,-0.5,0.25} (its canonical-exponent period goes through math.gcd of the shift)'))
    obs.append(json_ob('PhasedISwapPowGate', lambda t, p, s: cirq.PhasedISwapPowGate(exponent=t, phase_exponent=p, global_shift=s), ['exponent', 'phase_exponent', 'global_shift'], [t, p, s]))
    obs.append(json_ob('PhasedXZGate', lambda x, z, a: cirq.PhasedXZGate(x_exponent=x, z_exponent=z, axis_phase_exponent=a), ['x_exponent', 'z_exponent', 'axis_phase_exponent'], [('x', -E, E), ('z', -E, E), ('a', -E, E)], unitary=True))
    obs.append(json_ob('FSimGate', lambda theta, phi: cirq.FSimGate(theta, phi), ['theta', 'phi'], [th, ph], unitary=True))
    obs.append(json_ob('PhasedFSimGate', lambda theta, zeta, chi, gamma, phi: cirq.PhasedFSimGate(theta, zeta, chi, gamma, phi), ['theta', 'zeta', 'chi', 'gamma', 'phi'], [th, ('zeta', -A, A), ('chi', -A, A), ('gamma', -A, A), ph]))
    obs.append(json_ob('QasmUGate', lambda theta, phi, lmda: cirq.circuits.qasm_output.QasmUGate(theta, phi, lmda), ['theta', 'phi', 'lmda'], [('theta', 0.0, 2.0), ('phi', 0.0, 2.0), ('lmda', 0.0, 2.0)]))
    obs.append(json_ob('PhaseGradientGate', lambda t, n: cirq.PhaseGradientGate(num_qubits=n + 1, exponent=t), ['exponent', lambda g: g.num_qubits()], [t], choices=[('n', 3)]))
    obs.append(json_ob('QuantumFourierTransformGate', lambda n, wr: cirq.QuantumFourierTransformGate(n + 1, without_reverse=bool(wr)), [lambda g: g.num_qubits(), '_without_reverse'], choices=[('n', 3), ('wr', 2)], desc='no numeric field: finite selectors only (bounded exploration)'))
    for nm, k in (('DiagonalGate', 4), ('TwoQubitDiagonalGate', 4), ('ThreeQubitDiagonalGate', 8)):
        cls = getattr(cirq, nm)
        ps = [(f'a{i}', -A, A) for i in range(k)]
        attr = (lambda g: list(g._diag_angles_radians)) if nm != 'DiagonalGate' else (lambda g: list(g.diag_angles_radians))
        obs.append(json_ob(nm, lambda _c=cls, _k=k, **kw: _c([kw[f'a{i}'] for i in range(_k)]), [attr], ps))
    obs.append(json_ob('GlobalPhaseGate', lambda t: cirq.GlobalPhaseGate(_ph(t)), ['coefficient'], [t], desc='complex coefficient exp(i pi t): exercises the {cirq_type: complex, real, imag} encoding'))
    PA = [cirq.X, cirq.Y, cirq.Z]
    obs.append(json_ob('PauliInteractionGate', lambda p0, i0, p1, i1: cirq.PauliInteractionGate(PA[p0], bool(i0), PA[p1], bool(i1)), ['pauli0', 'invert0', 'pauli1', 'invert1', 'exponent'], choices=[('p0', 3), ('i0', 2), ('p1', 3), ('i1', 2)], desc='PauliInteractionGate with the default exponent, finite selectors only (symbolic exponent: see finding.pauli_interaction_exponent)'))
    obs.append(json_ob('IdentityGate', lambda k: [cirq.IdentityGate(1), cirq.IdentityGate(3), cirq.IdentityGate(qid_shape=(3,)), cirq.IdentityGate(qid_shape=(2, 3))][k], [lambda g: cirq.qid_shape(g)], choices=[('k', 4)], desc='qid_shape omitted when all 2 (finite selectors only)'))

    # ---- wrappers / composite gates with a symbolic sub gate -------------------------------------
    obs.append(json_ob('ControlledGate', lambda t, k: cirq.ControlledGate(cirq.X**t, num_controls=[1, 2, 1, 2][k], control_values=[None, None, [0], [(0, 1), 1]][k]), ['sub_gate', 'control_values', 'control_qid_shape', lambda g: g.sub_gate.exponent], [t], choices=[('k', 4)]))
    obs.append(json_ob('ControlledGate.sum_of_products', lambda t: cirq.ControlledGate(cirq.Z**t, control_values=cirq.SumOfProducts([(0, 1), (1, 0)], name='xor')), ['sub_gate', 'control_values', lambda g: g.sub_gate.exponent], [t]))
    obs.append(json_ob('ParallelGate', lambda t, n: cirq.ParallelGate(cirq.Y**t, n + 1), ['sub_gate', 'num_copies', lambda g: g.sub_gate.exponent], [t], choices=[('n', 3)]))
    obs.append(json_ob('RandomGateChannel', lambda t, pr: cirq.RandomGateChannel(sub_gate=cirq.X**t, probability=pr), ['sub_gate', 'probability', lambda g: g.sub_gate.exponent], [t, pr]))
    obs.append(json_ob('_InverseCompositeGate', lambda theta, phi: cirq.ops.raw_types._InverseCompositeGate(cirq.FSimGate(theta, phi)), [lambda g: g._original.theta, lambda g: g._original.phi], [th, ph]))
    obs.append(json_ob('WaitGate', lambda d, k: cirq.WaitGate(cirq.Duration(picos=d), **[{}, {'num_qubits': 2}, {'qid_shape': (3,)}, {'qid_shape': (2, 3)}][k]), [lambda g: g.duration.total_picos(), lambda g: cirq.qid_shape(g)], [('d', 0.0, 1e6)], choices=[('k', 4)], expected=(ValueError,), hashable=False, desc='WaitGate(duration=Duration(picos=d)) with num_qubits/qid_shape omitted-when-default branches'))
    obs.append(json_ob('MatrixGate.diag', lambda a, b, nmd: cirq.MatrixGate(np.array([[_ph(a), 0], [0, _ph(b)]], dtype=object) if is_symb(a) else np.array([[_ph(a), 0], [0, _ph(b)]]), name=[None, 'G'][nmd]), [lambda g: cirq.unitary(g), '_name'], [('a', -2.0, 2.0), ('b', -2.0, 2.0)], choices=[('nmd', 2)], hashable=False, desc='MatrixGate(diag(e^{i pi a}, e^{i pi b})): complex matrix entries through tolist()/np.array and the unitarity re-validation; name omitted when None'))
    dps = cirq.DensePauliString('XYZ')
    obs.append(json_ob('DensePauliString', lambda t, k: cirq.DensePauliString('XIZY', coefficient=[1, -1, 1j, None][k] if k < 3 else _ph(t)), ['pauli_mask', 'coefficient'], [t], choices=[('k', 4)], hashable=False))
    obs.append(json_ob('MutableDensePauliString', lambda t: cirq.MutableDensePauliString('XZ', coefficient=_ph(t)), ['pauli_mask', 'coefficient'], [t], hashable=False))
    obs.append(json_ob('PauliString', lambda c: cirq.PauliString({q0: cirq.X, q2: cirq.Z}, coefficient=c), ['coefficient', lambda ps: dict(ps.items())], [('c', -2.0, 2.0)]))
    obs.append(json_ob('PauliString.phase', lambda t: cirq.PauliString({q1: cirq.Y}, coefficient=_ph(t)), ['coefficient', lambda ps: dict(ps.items())], [t]))
    obs.append(json_ob('PauliStringPhasor', lambda a, b: cirq.PauliStringPhasor(cirq.X(q0) * cirq.Z(q1), qubits=[q0, q1, q2], exponent_neg=a, exponent_pos=b), ['exponent_neg', 'exponent_pos', 'pauli_string', 'qubits'], [('a', -2.0, 2.0), ('b', -2.0, 2.0)]))
    obs.append(json_ob('PauliStringPhasorGate', lambda a, b: cirq.PauliStringPhasorGate(dps, exponent_neg=a, exponent_pos=b), ['exponent_neg', 'exponent_pos', 'dense_pauli_string'], [('a', -2.0, 2.0), ('b', -2.0, 2.0)]))
    obs.append(json_ob('PauliSum', lambda a, b: a * cirq.X(q0) * cirq.Y(q1) + b * cirq.Z(q2), [lambda ps: sorted(((tuple(sorted(k)), v) for k, v in ps._linear_dict.items()), key=lambda kv: repr(kv[0]))], [('a', 0.5, 2.0), ('b', 0.5, 2.0)], hashable=False))
    obs.append(json_ob('LinearDict', lambda a, b: cirq.LinearDict({'X': a, 'Y': b * 1j}), [lambda d: [(k, d[k]) for k in ('X', 'Y', 'Z')]], [('a', 0.5, 2.0), ('b', 0.5, 2.0)], hashable=False))
    obs.append(json_ob('ProjectorString', lambda c: cirq.ProjectorString({q0: 0, q1: 1}, coefficient=c), ['coefficient', 'projector_dict'], [('c', -2.0, 2.0)]))
    obs.append(json_ob('BooleanHamiltonianGate', lambda theta: cirq.BooleanHamiltonianGate(['a', 'b'], ['a ^ b'], theta), ['_theta', '_parameter_names', '_boolean_strs'], [th]))

    # ---- channels ---------------------------------------------------------------------------------
    obs.append(json_ob('AmplitudeDampingChannel', lambda g: cirq.AmplitudeDampingChannel(g), ['gamma'], [g_]))
    obs.append(json_ob('PhaseDampingChannel', lambda g: cirq.PhaseDampingChannel(g), ['gamma'], [g_]))
    obs.append(json_ob('GeneralizedAmplitudeDampingChannel', lambda pr, g: cirq.GeneralizedAmplitudeDampingChannel(pr, g), ['p', 'gamma'], [pr, g_]))
    obs.append(json_ob('BitFlipChannel', lambda pr: cirq.BitFlipChannel(pr), ['p'], [pr]))
    obs.append(json_ob('PhaseFlipChannel', lambda pr: cirq.PhaseFlipChannel(pr), ['p'], [pr]))
    obs.append(json_ob('DepolarizingChannel', lambda pr, n: cirq.DepolarizingChannel(pr * 0.75, n_qubits=n + 1), ['p', 'n_qubits'], [pr], choices=[('n', 2)], desc='n_qubits omitted when == 1'))
    obs.append(json_ob('AsymmetricDepolarizingChannel', lambda px, py, pz: cirq.AsymmetricDepolarizingChannel(px / 3, py / 3, pz / 3), ['p_x', 'p_y', 'p_z', 'error_probabilities'], [('px', 0.0, 1.0), ('py', 0.0, 1.0), ('pz', 0.0, 1.0)]))
    obs.append(json_ob('AsymmetricDepolarizingChannel.dict', lambda px, py: cirq.AsymmetricDepolarizingChannel(error_probabilities={'XI': px / 2, 'ZZ': py / 2, 'II': 1 - px / 2 - py / 2}), ['error_probabilities', 'num_qubits'], [('px', 0.0, 1.0), ('py', 0.0, 1.0)], expected=(ValueError,)))
    obs.append(json_ob('ResetChannel', lambda d: cirq.ResetChannel(d + 2), ['dimension'], choices=[('d', 2)], desc='finite selectors only'))
    X_, Z_ = np.array([[0, 1], [1, 0]]), np.array([[1, 0], [0, -1]])
    obs.append(json_ob('MixedUnitaryChannel', lambda pr, k: cirq.MixedUnitaryChannel([(pr, X_ + 0j), (1 - pr, Z_ + 0j)], key=[None, 'm'][k]), [lambda c: [(p_, u) for p_, u in c._mixture], '_key'], [pr], choices=[('k', 2)], hashable=False))
    obs.append(json_ob('KrausChannel', lambda g, k: cirq.KrausChannel([_sym_arr([[1, 0], [0, _sqrt1m(g)]]), _sym_arr([[0, _sqrt(g)], [0, 0]])], key=[None, 'm'][k]), [lambda c: list(c._kraus_ops), '_key'], [('g', 0.0, 1.0)], choices=[('k', 2)], hashable=False, opts={'pow2': True}))

    # ---- measurement / classical control ---------------------------------------------------------------
    obs.append(json_ob('MeasurementGate', lambda k, im, cm: cirq.MeasurementGate([1, 2, 2][k], key=['a', 'b', cirq.MeasurementKey('c', ('p',))][k], invert_mask=[(), (True,), (False, True)][im][: [1, 2, 2][k]], qid_shape=[None, None, (2, 3)][k], confusion_map=[None, {(0,): np.array([[0.9, 0.1], [0.2, 0.8]])}][cm]), ['key', 'invert_mask', 'confusion_map', lambda g: cirq.qid_shape(g)], choices=[('k', 3), ('im', 3), ('cm', 2)], hashable=False, desc='finite selectors only: key / invert_mask / qid_shape / confusion_map omitted-when-default branches'))
    obs.append(json_ob('MeasurementGate.confusion', lambda e0, e1: cirq.MeasurementGate(1, key='m', confusion_map={(0,): _sym_arr([[1 - e0, e0], [e1, 1 - e1]])}), [lambda g: g.confusion_map[(0,)], 'key'], [('e0', 0.0, 0.5), ('e1', 0.0, 0.5)], hashable=False, eq=False, desc='confusion-matrix entries symbolic (np.ndarray values have no usable == : observables only)'))
    obs.append(json_ob('KeyCondition', lambda k: cirq.KeyCondition([cirq.MeasurementKey('a', ('x',)), cirq.MeasurementKey('b')][k]), ['key', 'index'], choices=[('k', 2)], desc='KeyCondition with the default index (symbolic index: see finding.keycondition_index)'))
    obs.append(json_ob('BitMaskKeyCondition', lambda idx, tv, et, bm: cirq.BitMaskKeyCondition('a', idx, tv, bool(et), [None, 5][bm]), ['key', 'index', 'target_value', 'equal_target', 'bitmask'], ints=[('idx', -3, 3), ('tv', 0, 15)], choices=[('et', 2), ('bm', 2)]))
    obs.append(json_ob('ClassicallyControlledOperation', lambda t, idx: (cirq.X**t).on(q0).with_classical_controls(cirq.BitMaskKeyCondition('a', idx, 1, True, 3), cirq.KeyCondition(cirq.MeasurementKey('c')), sympy.Symbol('b') > 0), [lambda o: o.without_classical_controls().gate.exponent, 'classical_controls', 'qubits'], [t], ints=[('idx', -2, 2)]))

    # ---- operations / circuits ---------------------------------------------------------------------------
    obs.append(json_ob('GateOperation', lambda t, s: cirq.CZPowGate(exponent=t, global_shift=s).on(q2, q0), [lambda o: o.gate.exponent, lambda o: o.gate.global_shift, 'qubits'], [t, s]))
    obs.append(json_ob('TaggedOperation', lambda t, pr: (cirq.X**t).on(q1).with_tags('tag', cirq.VirtualTag(), cirq.Duration(picos=pr)), [lambda o: o.untagged.gate.exponent, lambda o: o.tags[2].total_picos(), lambda o: o.tags[:2], 'qubits'], [t, ('pr', 0.0, 1e3)], hashable=False))
    obs.append(json_ob('ControlledOperation', lambda t: (cirq.Y**t).on(q0).controlled_by(q2, q1, control_values=[0, (0, 1)]), [lambda o: o.sub_operation.gate.exponent, 'controls', 'control_values'], [t]))
    obs.append(json_ob('Moment', lambda t, theta, tg: cirq.Moment((cirq.X**t).on(q0), cirq.FSimGate(theta, 0.5).on(q1, q2), tags=[(), ('mt', 5)][tg]), [lambda m: [o.qubits for o in m.operations], lambda m: m.operations[0].gate.exponent, lambda m: m.operations[1].gate.theta], [t, th], choices=[('tg', 2)], desc='Moment (operations, symbolic gates; tags written only when present). The TYPE of .tags after loading: see finding.moment_tags_type'))

    def circ(t, theta, frozen, tagged):
        c = cirq.Circuit([cirq.Moment((cirq.X**t).on(q0), cirq.CNOT(q1, q2)), cirq.Moment(), cirq.Moment(cirq.rz(theta).on(q2).with_tags('k'), cirq.measure(q0, q1, key='m'))])
        if tagged:
            c = c.with_tags('ct', 7)
        return c.freeze() if frozen else c

    obs.append(json_ob('Circuit', lambda t, theta, fr, tg: circ(t, theta, fr, tg), [lambda c: len(c.moments), lambda c: [[(type(o.gate), o.qubits, o.tags if hasattr(o, 'tags') else ()) for o in m.operations] for m in c.moments], lambda c: c.moments[0].operations[0].gate.exponent, lambda c: c.moments[2].operations[0].gate.exponent, 'tags'], [t, th], choices=[('fr', 2), ('tg', 2)], hashable=False, desc='Circuit / FrozenCircuit (with an empty moment, tags) containing symbolic gates'))

    def circop(t, v, reps, ids):
        fc = cirq.FrozenCircuit((cirq.X ** sympy.Symbol('a')).on(q0), (cirq.Z**t).on(q1), cirq.measure(q0, key='m'))
        r = [1, 2, 3][reps]
        kw = [dict(), dict(use_repetition_ids=True), dict(use_repetition_ids=False), dict(repetition_ids=[f'r{i}' for i in range(abs(r))]), dict(repetition_ids=[f'r{i}' for i in range(abs(r))], use_repetition_ids=False), dict(repetition_ids=[str(i) for i in range(abs(r))], use_repetition_ids=False), dict(repetition_ids=[str(i) for i in range(abs(r))], use_repetition_ids=True)][ids]
        return cirq.CircuitOperation(fc, repetitions=r, param_resolver={'a': v}, qubit_map={q0: q2}, measurement_key_map={'m': 'mm'}, parent_path=('pp',), **kw)

    obs.append(json_ob('CircuitOperation', circop, [lambda o: o.circuit.moments[0].operations[1].gate.exponent, lambda o: o.param_resolver.value_of('a'), 'repetitions', 'repetition_ids', 'use_repetition_ids', 'qubit_map', 'measurement_key_map', 'parent_path'], [t, ('v', -2.0, 2.0)], choices=[('reps', 3), ('ids', 7)], desc='CircuitOperation: symbolic gate exponent inside the sub-circuit and symbolic resolver value; repetitions x repetition_ids/use_repetition_ids combinations enumerated'))

    # ---- study ----------------------------------------------------------------------------------------------
    obs.append(json_ob('Linspace', lambda a, b, n: cirq.Linspace('k', a, b, n), ['key', 'start', 'stop', 'length'], [('a', -3.0, 3.0), ('b', -3.0, 3.0)], ints=[('n', 1, 9)]))
    obs.append(json_ob('Linspace.metadata', lambda a, b: cirq.Linspace(sympy.Symbol('k'), a, b, 3, metadata='md'), ['key', 'start', 'stop', 'length', 'metadata'], [('a', -3.0, 3.0), ('b', -3.0, 3.0)]))
    obs.append(json_ob('Points', lambda a, b, c: cirq.Points('k', [a, b, c]), ['key', 'points'], [('a', -3.0, 3.0), ('b', -3.0, 3.0), ('c', -3.0, 3.0)]))
    obs.append(json_ob('ParamResolver', lambda a, b: cirq.ParamResolver({'x': a, sympy.Symbol('y'): b, 'z': sympy.Symbol('x') * 2}), [lambda r: [r.param_dict.get(k) for k in ('x', sympy.Symbol('y'), 'z')], lambda r: len(r.param_dict)], [('a', -3.0, 3.0), ('b', -3.0, 3.0)]))
    obs.append(json_ob('ListSweep', lambda a, b: cirq.ListSweep([{'x': a}, {'x': b}]), [lambda sw: [r.param_dict['x'] for r in sw.resolver_list]], [('a', -3.0, 3.0), ('b', -3.0, 3.0)], hashable=False))

    def sweep_tree(a, b, c, k):
        A_, B_, C_ = cirq.Linspace('x', a, b, 2), cirq.Points('y', [c, a]), cirq.Points('z', [b])
        return [cirq.Zip(A_, B_), cirq.Product(A_, cirq.Zip(B_, C_)), cirq.Concat(cirq.Points('x', [a]), cirq.Points('x', [b, c])), cirq.ZipLongest(B_, C_), cirq.Product(cirq.Product(A_), cirq.Concat(B_, B_))][k]

    obs.append(json_ob('SweepTrees', sweep_tree, [lambda sw: [sorted(r.param_dict.items()) for r in sw] if not _has_sym_sweep(sw) else _sweep_leaves(sw)], [('a', -3.0, 3.0), ('b', -3.0, 3.0), ('c', -3.0, 3.0)], choices=[('k', 5)], desc='Zip / Product / Concat / ZipLongest trees over Linspace/Points with symbolic endpoints and points'))

    # ---- value / work / experiments -------------------------------------------------------------------------------
    obs.append(json_ob('Duration', lambda pi, na, k: cirq.Duration(picos=pi, nanos=[0, na][k]), [lambda d: d.total_picos()], [('pi', -1e6, 1e6), ('na', -1e3, 1e3)], choices=[('k', 2)], hashable=False))
    obs.append(json_ob('Duration.int', lambda pi, mi: cirq.Duration(picos=pi, micros=mi), [lambda d: d.total_picos()], ints=[('pi', -10**6, 10**6), ('mi', -50, 50)], hashable=False))
    obs.append(json_ob('ObservableMeasuredResult', lambda mean, var, reps: cirq.work.ObservableMeasuredResult(setting=cirq.work.InitObsSetting(cirq.KET_PLUS(q0) * cirq.KET_ZERO(q1), cirq.X(q0) * cirq.Z(q1)), mean=mean, variance=var, repetitions=reps, circuit_params={'a': mean}), ['mean', 'variance', 'repetitions', 'setting', 'circuit_params'], [('mean', -1.0, 1.0), ('var', 0.0, 1.0)], ints=[('reps', 1, 10**6)], hashable=False))
    obs.append(json_ob('VarianceStoppingCriteria', lambda var, n: cirq.work.VarianceStoppingCriteria(var, n), ['variance_bound', 'repetitions_per_chunk'], [('var', 0.0, 1.0)], ints=[('n', 1, 10**5)], hashable=False))
    obs.append(json_ob('RepetitionsStoppingCriteria', lambda n, m: cirq.work.RepetitionsStoppingCriteria(n, m), ['total_repetitions', 'repetitions_per_chunk'], ints=[('n', 1, 10**6), ('m', 1, 10**5)], hashable=False))
    obs.append(json_ob('GridInteractionLayer', lambda co, v, st: cirq.experiments.GridInteractionLayer(co, bool(v), bool(st)), ['col_offset', 'vertical', 'stagger'], ints=[('co', 0, 3)], choices=[('v', 2), ('st', 2)]))
    obs.append(json_ob('SingleQubitReadoutCalibrationResult', lambda e0, e1, ts, reps: cirq.experiments.SingleQubitReadoutCalibrationResult({q0: e0, q1: e1}, {q0: e1, q1: e0}, reps, ts), ['zero_state_errors', 'one_state_errors', 'repetitions', 'timestamp'], [('e0', 0.0, 1.0), ('e1', 0.0, 1.0), ('ts', 0.0, 2e9)], ints=[('reps', 1, 10**6)], hashable=False))
    obs.append(json_ob('XEBPhasedFSimCharacterizationOptions', lambda theta, phi, k: cirq.experiments.XEBPhasedFSimCharacterizationOptions(characterize_zeta=bool(k), theta_default=theta, phi_default=[None, phi][k]), ['characterize_theta', 'characterize_zeta', 'theta_default', 'zeta_default', 'phi_default'], [th, ph], choices=[('k', 2)], hashable=False))
    obs.append(json_ob('ConstantQubitNoiseModel', lambda pr: cirq.ConstantQubitNoiseModel(cirq.DepolarizingChannel(pr * 0.5)), [lambda m: m.qubit_noise_gate.p, '_prepend'], [pr], desc='ConstantQubitNoiseModel with the default prepend=False (prepend=True: see finding.constant_noise_prepend)'))

    # ---- vendor packages -------------------------------------------------------------------------------------------------
    obs.append(json_ob('ionq.GPIGate', lambda phi: cirq_ionq.GPIGate(phi=phi), ['phi'], [('phi', -2.0, 2.0)], unitary=True))
    obs.append(json_ob('ionq.GPI2Gate', lambda phi: cirq_ionq.GPI2Gate(phi=phi), ['phi'], [('phi', -2.0, 2.0)], unitary=True))
    obs.append(json_ob('ionq.MSGate', lambda phi0, phi1, theta: cirq_ionq.MSGate(phi0=phi0, phi1=phi1, theta=theta), ['phi0', 'phi1', 'theta'], [('phi0', -2.0, 2.0), ('phi1', -2.0, 2.0), ('theta', -1.0, 1.0)]))
    obs.append(json_ob('ionq.ZZGate', lambda theta: cirq_ionq.ZZGate(theta=theta), ['theta'], [('theta', -2.0, 2.0)]))
    for nm in ('IonQTargetGateset', 'AriaNativeGateset', 'ForteNativeGateset'):
        cls = getattr(cirq_ionq, nm, None) or getattr(cirq_ionq.ionq_native_target_gateset, nm)
        obs.append(json_ob('ionq.' + nm, lambda atol, _c=cls: _c(atol=atol), ['atol'], [('atol', 0.0, 1e-3)], hashable=False, eq=(nm == 'IonQTargetGateset')))
    obs.append(json_ob('google.CouplerPulse', lambda ht, c, rt: cirq_google.experimental.CouplerPulse(hold_time=cirq.Duration(picos=ht), coupling_mhz=c, rise_time=cirq.Duration(picos=rt)), [lambda g: g.hold_time.total_picos(), 'coupling_mhz', lambda g: g.rise_time.total_picos(), lambda g: g.padding_time.total_picos()], [('ht', 0.0, 1e5), ('c', -50.0, 50.0), ('rt', 0.0, 1e5)], hashable=False))
    obs.append(json_ob('google.InternalGate', lambda a, n: cirq_google.InternalGate('g', 'mod', 2, amplitude=a, n=n, label='l'), ['gate_name', 'gate_module', 'gate_args', lambda g: g.num_qubits()], [('a', -2.0, 2.0)], ints=[('n', 0, 9)]))
    obs.append(json_ob('google.SimulatedProcessorRecord', lambda ns, k: [cirq_google.SimulatedProcessorRecord, cirq_google.SimulatedProcessorWithLocalDeviceRecord][k]('rainbow', noise_strength=ns), ['processor_id', 'noise_strength'], [('ns', 0.0, 1.0)], choices=[('k', 2)], hashable=False))
    obs.append(json_ob('google.DeviceParameter', lambda v, idx: cirq_google.study.DeviceParameter(['a', 'b'], idx=idx, value=v, units='GHz'), ['path', 'idx', 'value', 'units'], [('v', -5.0, 5.0)], ints=[('idx', 0, 9)], hashable=False))
    obs.append(json_ob('google.CalibrationLayer', lambda a, t: cirq_google.CalibrationLayer('xeb', cirq.Circuit((cirq.X**t).on(q0)), {'a': a, 'b': 'str'}), ['calibration_type', 'args', lambda l: l.program.moments[0].operations[0].gate.exponent], [('a', -5.0, 5.0), t], hashable=False, eq=False))
    obs.append(json_ob('google.BitstringsMeasurement', lambda n: cirq_google.BitstringsMeasurement(n), ['n_repetitions'], ints=[('n', 1, 10**6)], hashable=False))
    obs.append(json_ob('google.RuntimeInfo', lambda a, b, i: cirq_google.workflow.RuntimeInfo(execution_index=i, qubit_placement={(0, 1): q0}, timings_s={'x': a, 'y': b}), ['execution_index', 'timings_s', 'qubit_placement'], [('a', 0.0, 100.0), ('b', 0.0, 100.0)], ints=[('i', 0, 99)], hashable=False))
    return obs


def finding_obligations(tier):
    """defects found by this check on the tree it was developed against; they stay as ordinary obligations"""
    import cirq

    q0 = cirq.LineQubit(0)
    PA = [cirq.X, cirq.Y, cirq.Z]
    obs = []
    o = json_ob('keycondition_index', lambda idx, k: cirq.KeyCondition([cirq.MeasurementKey('a', ('x',)), cirq.MeasurementKey('b')][k], idx), ['key', 'index'], ints=[('idx', -3, 3)], choices=[('k', 2)], desc='KeyCondition(key, index) with SYMBOLIC index: read_json(to_json(c)) keeps the index (was dropped by _from_json_dict_)')
    o.name = 'finding.keycondition_index'
    obs.append(o)
    o = json_ob('keycondition_index.op', lambda idx, t: (cirq.X**t).on(q0).with_classical_controls(cirq.KeyCondition(cirq.MeasurementKey('a'), idx)), [lambda op: [c.index for c in op.classical_controls], lambda op: op.without_classical_controls().gate.exponent], [('t', -E, E)], ints=[('idx', -3, 3)], desc='same through ClassicallyControlledOperation')
    o.name = 'finding.keycondition_index.op'
    obs.append(o)
    o = json_ob('constant_noise_prepend', lambda pr, pp: cirq.ConstantQubitNoiseModel(cirq.DepolarizingChannel(pr * 0.5), prepend=bool(pp)), [lambda m: m.qubit_noise_gate.p, '_prepend', lambda m: [type(x).__name__ for x in m.noisy_moment(cirq.Moment(cirq.X(q0)), [q0])]], [('pr', 0.0, 1.0)], choices=[('pp', 2)], desc='ConstantQubitNoiseModel(gate(p), prepend): the round-tripped model keeps prepend and orders noise/gate moments the same way')
    o.name = 'finding.constant_noise_prepend'
    obs.append(o)
    o = json_ob('pauli_interaction_exponent', lambda t, p0, i0, p1, i1: cirq.PauliInteractionGate(PA[p0], bool(i0), PA[p1], bool(i1), exponent=t), ['pauli0', 'invert0', 'pauli1', 'invert1', 'exponent'], [('t', -E, E)], choices=[('p0', 3), ('i0', 2), ('p1', 3), ('i1', 2)], desc='PauliInteractionGate(..., exponent=t) with SYMBOLIC t: JSON keeps the exponent')
    o.name = 'finding.pauli_interaction_exponent'
    obs.append(o)
    q1 = cirq.LineQubit(1)
    o = json_ob('moment_tags_type', lambda t, k: cirq.Moment((cirq.X**t).on(q0), cirq.H(q1), tags=[('mt',), ('a', 7)][k]), ['tags', lambda m: m.operations[0].gate.exponent, lambda m: m.with_tags('z').tags], [('t', -E, E)], choices=[('k', 2)], desc='Moment(..., tags=(...)): after JSON .tags is the same TUPLE (was a list) and with_tags keeps working')
    o.name = 'finding.moment_tags_type'
    obs.append(o)

    def copy_tags(cx, wrong=False):
        t = cx.real('t', -E, E)
        m = cirq.Moment((cirq.X**t).on(q0), cirq.H(q1), tags=('mt', 3))
        if cx.choose('hashed_first', 2):
            hash(m)
        c = [copy.copy, copy.deepcopy, lambda x: pickle.loads(pickle.dumps(x))][cx.choose('how', 3)](m)
        cx.check(c.tags == (('mt',) if wrong else ('mt', 3)), label='copy keeps Moment.tags')
        cx.check(as_bool(c == m) and hash(c) == hash(m), label='copy == source, hash equal')
        cx.close([c.operations[0].gate.exponent], [t], tol=TOL, label='copy keeps the symbolic exponent')

    obs.append(Obligation('finding.moment_copy_tags', copy_tags, twin=lambda cx: copy_tags(cx, True), points=[{'t': 0.5, 'choose:how': 0}, {'t': 1.0, 'choose:how': 2, 'choose:hashed_first': 1}], desc='copy.copy / copy.deepcopy / pickle of a tagged Moment keep .tags (copy.copy dropped them)'))
    return obs


# =================================================================================================
# part A2: EXACT round trip of LinearDict-backed values and of numeric fields, down to the smallest magnitudes
# =================================================================================================
# LinearDict ==, len, `in`, keys() are EXACT (a term is dropped only when its coefficient == 0), so the JSON round trip
# must return every stored term with exactly its coefficient, however small.  Coefficients are SYMBOLIC over the whole
# box [-10, 10] -- the box contains 0, 1e-15, exactly 1e-9 (default atol of LinearDict.clean), 1e-8, 1e-7 ... -- real,
# purely imaginary or complex, and every assertion is an exact equality decided by the solver (cx.check), because the
# absolute tolerance TOL = 1e-9 of the attribute comparison in json.* hides precisely what a cleaning step removes.
# (A coefficient is a solver variable itself, NOT variable * 1e-k: symx prunes SNum terms whose constant factor is below
# 1e-13 as float residue, so scaled terms would silently vanish in symbolic mode.)  The twins are off by a RELATIVE 1e-6.
# The concrete validation points pin the magnitudes 10**-k, k = 0..15 and 1e-30, 1e-300 (incl. exactly +-1e-9).
CB = 10.0
MAGS = [float(f'1e-{k}') for k in range(16)] + [1e-30, 1e-300]


def roundtrip_cx(cx, obj):
    """as roundtrip(), but in symbolic mode a COMPLEX symbolic scalar is not a JSON leaf: it goes through the real
    CirqEncoder.default ({'cirq_type': 'complex', real, imag}) and the resolver entry 'complex' like a Python complex
    (oracles/json_model_complex.py)"""
    if cx.mode == 'concrete':
        return roundtrip(cx, obj)
    return JMC.cirq_roundtrip(obj)[0]


def EXACT(a, b):
    """a == b exactly: SBool in symbolic mode, bool otherwise (sympy: structural equality)"""
    r = a == b
    if r is NotImplemented:
        return False
    return r if isinstance(r, SBool) else bool(r)


def NONZERO(c):
    r = c != 0
    return r if isinstance(r, SBool) else bool(r)


def _coef(cx, tag, kind, lo=-CB, hi=CB):
    """kind 0: real  s;  1: purely imaginary  i*s;  2: complex  s + i u;  s, u symbolic in [lo, hi]"""
    if kind == 0:
        return cx.real(tag + '.re', lo, hi)
    if kind == 1:
        return cx.real(tag + '.im', lo, hi) * 1j
    return cx.real(tag + '.re', lo, hi) + cx.real(tag + '.im', lo, hi) * 1j


def _off(c, wrong):
    return c * (1 + 1e-6) if wrong else c


def _lin_checks(cx, lab, got, want, probe):
    """got: mapping view (vector -> coefficient) of the rebuilt value, `want`: harness dict vector -> coefficient (the
    oracle: exactly what was put in), probe: vectors that must be absent.  Term by term: exact coefficient, membership
    iff the coefficient is non-zero, length, key set."""
    n = 0
    for v, c in want.items():
        cx.check(EXACT(got[v], c), label=f'{lab}[{v!s:.40}] is exactly the stored coefficient')
        nz = NONZERO(c)
        cx.check(IFF(v in got, nz), label=f'{lab}: ({v!s:.40} in x) iff its coefficient != 0')
        if bool(nz):
            n += 1
    for v in probe:
        cx.check(as_bool(EXACT(got[v], 0)) and v not in got, label=f'{lab}: absent vector {v!s:.40}')
    cx.check(len(got) == n, label=f'{lab}: len == number of non-zero terms ({n})')
    ks = list(got.keys())
    cx.check(len(ks) == n and all(k in want for k in ks) and len(set(ks)) == n, label=f'{lab}: keys()')


def _eq_both(cx, lab, back, obj):
    cx.check(type(back) is type(obj), label=f'{lab}.type')
    cx.check(as_bool(back == obj), label=f'{lab}.back==obj')
    cx.check(as_bool(obj == back), label=f'{lab}.obj==back')
    ne = back != obj
    cx.check(~ne if isinstance(ne, SBool) else not ne, label=f'{lab}.not(back!=obj)')


def _pts(**fixed):
    """concrete validation points: every magnitude of MAGS in every coefficient (incl. exactly the 1e-9 threshold), with
    signs, zeros and mixed magnitudes; variables that are not named are auto-filled inside their boxes"""
    names = ('a.re', 'b.im', 'c.re', 'c.im')
    pts = [{**fixed, **{n: m for n in names}} for m in MAGS]
    pts.append({**fixed, 'a.re': -1e-9, 'b.im': -1e-9, 'c.re': 0.0, 'c.im': 1e-9})
    pts.append({**fixed, 'a.re': 0.0, 'b.im': 3.7e-12, 'c.re': -2.5e-10, 'c.im': 0.0})
    pts.append({**fixed, 'a.re': -9.99, 'b.im': 0.0, 'c.re': 6e-10, 'c.im': -8e-10})
    pts.append({**fixed, 'a.re': 1.0000000001e-9, 'b.im': 0.9999999999e-9, 'c.re': 1e-9, 'c.im': 1e-9})
    return pts


def lin_obligations(tier):
    import sympy

    import cirq

    obs = []
    q0, q1, q2 = cirq.LineQubit.range(3)
    KEYSETS = [('X', 'Y', 'Z', 'W'), (cirq.X, cirq.Y, cirq.CZ**0.5, cirq.H), (q0, q2, cirq.NamedQubit('n'), q1)]
    a_, b_ = sympy.Symbol('a'), sympy.Symbol('b')

    # ---- LinearDict ---------------------------------------------------------------------------------------------
    def lin_dict(cx, wrong=False):
        kx, ky, kz, absent = KEYSETS[cx.choose('keys', len(KEYSETS))]
        want = {kx: _coef(cx, 'a', 0), ky: _coef(cx, 'b', 1), kz: _coef(cx, 'c', 2)}
        obj = cirq.LinearDict(dict(want))
        back = roundtrip_cx(cx, obj)
        want[kx] = _off(want[kx], wrong)
        _lin_checks(cx, 'LinearDict', back, want, [absent])
        if not wrong:
            _eq_both(cx, 'LinearDict', back, obj)
        cx.close([back[kx], back[ky], back[kz]], [want[kx], want[ky], want[kz]], tol=TOL, label='LinearDict coefficients')

    obs.append(Obligation('json.lin.LinearDict', lin_dict, twin=lambda cx: lin_dict(cx, True), points=_pts() + _pts(**{'choose:keys': 1})[7:12] + _pts(**{'choose:keys': 2})[8:11], opts={'weight': 4}, desc='cirq.LinearDict({x: a, y: i b, z: c + i d}) with a, b, c, d SYMBOLIC in [-10,10] (the box contains 0 and every tiny magnitude, e.g. exactly 1e-9), keys from 3 menus (str / gates / qubits): read_json(to_json(x)) has EXACTLY every coefficient (no tolerance), `in` iff non-zero, len, keys(), == both ways; an absent vector stays absent'))

    # ---- PauliSum -------------------------------------------------------------------------------------------------
    UP = [frozenset({(q0, cirq.X), (q1, cirq.Y)}), frozenset({(q2, cirq.Z)}), frozenset(), frozenset({(q0, cirq.Z)})]

    def _pstr(key, c):
        return cirq.PauliString(dict(key), coefficient=c)

    def pauli_sum(cx, wrong=False):
        how = cx.choose('how', 3)
        want = {UP[0]: _coef(cx, 'a', 0), UP[1]: _coef(cx, 'b', 1), UP[2]: _coef(cx, 'c', 2)}
        if how == 0:
            obj = cirq.PauliSum(cirq.LinearDict(dict(want)))
        elif how == 1:
            obj = cirq.PauliSum.from_pauli_strings([_pstr(k_, c) for k_, c in want.items()])
        else:
            obj = want[UP[0]] * (cirq.X(q0) * cirq.Y(q1)) + want[UP[1]] * cirq.Z(q2) + want[UP[2]] * cirq.PauliString()
        back = roundtrip_cx(cx, obj)
        want[UP[0]] = _off(want[UP[0]], wrong)
        _lin_checks(cx, 'PauliSum._linear_dict', back._linear_dict, want, [UP[3]])
        terms = {frozenset(t.items()): t.coefficient for t in back}  # the public view: PauliStrings with coefficients
        cx.check(len(terms) == len(back) and all(k_ in want for k_ in terms), label='PauliSum: iteration yields one PauliString per stored term')
        for k_, c in terms.items():
            cx.check(EXACT(c, want[k_]), label='PauliSum: iterated PauliString carries exactly the stored coefficient')
        if not wrong:
            _eq_both(cx, 'PauliSum', back, obj)
        cx.close([back._linear_dict[v] for v in UP[:3]], [want[v] for v in UP[:3]], tol=TOL, label='PauliSum coefficients')

    obs.append(Obligation('json.lin.PauliSum', pauli_sum, twin=lambda cx: pauli_sum(cx, True), points=_pts() + _pts(**{'choose:how': 1})[7:13] + _pts(**{'choose:how': 2})[7:13], opts={'weight': 5}, desc='cirq.PauliSum a*X0Y1 + (i b)*Z2 + (c + i d)*I (identity term) built 3 ways (LinearDict constructor / from_pauli_strings / arithmetic), a, b, c, d SYMBOLIC in [-10,10] incl. 0 and every tiny magnitude: the JSON round trip keeps EXACTLY every term (backing LinearDict and iterated PauliStrings), len, == both ways'))

    # ---- ProjectorSum ---------------------------------------------------------------------------------------------------
    PK = [frozenset({(q0, 0)}), frozenset({(q0, 1), (q1, 0)}), frozenset({(q2, 1)}), frozenset({(q1, 1)})]

    def projector_sum(cx, wrong=False):
        how = cx.choose('how', 2)
        want = {PK[0]: _coef(cx, 'a', 0), PK[1]: _coef(cx, 'b', 1), PK[2]: _coef(cx, 'c', 2)}
        if how == 0:
            obj = cirq.ProjectorSum(cirq.LinearDict(dict(want)))
        else:
            obj = cirq.ProjectorSum.from_projector_strings([cirq.ProjectorString(dict(k_), c) for k_, c in want.items()])
        back = roundtrip_cx(cx, obj)
        want[PK[0]] = _off(want[PK[0]], wrong)
        _lin_checks(cx, 'ProjectorSum._linear_dict', back._linear_dict, want, [PK[3]])
        if not wrong:
            _eq_both(cx, 'ProjectorSum', back, obj)
        cx.close([back._linear_dict[v] for v in PK[:3]], [want[v] for v in PK[:3]], tol=TOL, label='ProjectorSum coefficients')

    obs.append(Obligation('json.lin.ProjectorSum', projector_sum, twin=lambda cx: projector_sum(cx, True), points=_pts() + _pts(**{'choose:how': 1})[7:13], opts={'weight': 4}, desc='cirq.ProjectorSum of three projector strings (LinearDict constructor / from_projector_strings) with SYMBOLIC real / imaginary / complex coefficients in [-10,10]: JSON keeps EXACTLY every term'))

    # ---- single coefficients: PauliString family, ProjectorString ------------------------------------------------------------
    CO = [
        ('PauliString', lambda c: cirq.PauliString({q0: cirq.X, q2: cirq.Z}, coefficient=c), lambda x: dict(x.items())),
        ('PauliString.single_qubit', lambda c: cirq.PauliString({q1: cirq.Y}, coefficient=c), lambda x: dict(x.items())),
        ('PauliString.identity', lambda c: cirq.PauliString(coefficient=c), lambda x: dict(x.items())),
        ('MutablePauliString', lambda c: cirq.MutablePauliString({q0: cirq.X, q1: cirq.Y}, coefficient=c), lambda x: dict(x.pauli_int_dict)),
        ('DensePauliString', lambda c: cirq.DensePauliString('XIZY', coefficient=c), lambda x: list(x.pauli_mask)),
        ('MutableDensePauliString', lambda c: cirq.MutableDensePauliString('ZX', coefficient=c), lambda x: list(x.pauli_mask)),
        ('ProjectorString', lambda c: cirq.ProjectorString({q0: 0, q1: 1}, coefficient=c), lambda x: dict(x.projector_dict)),
    ]

    def coefficient(cx, wrong=False):
        nm, mk, struct = CO[cx.choose('cls', len(CO))]
        c = _coef(cx, 'c', cx.choose('kind', 3))
        obj = mk(c)
        back = roundtrip_cx(cx, obj)
        cx.check(EXACT(back.coefficient, _off(c, wrong)), label=f'{nm}.coefficient is exactly the stored one')
        cx.check(struct(back) == struct(obj), label=f'{nm}: Pauli / projector structure')
        if not wrong:
            _eq_both(cx, nm, back, obj)
        cx.close([back.coefficient], [_off(c, wrong)], tol=TOL, label=f'{nm}.coefficient')

    pts = []
    for ci in range(len(CO)):
        pts += [{'choose:cls': ci, 'choose:kind': 0, 'c.re': 1e-9}, {'choose:cls': ci, 'choose:kind': 1, 'c.im': -1e-12}, {'choose:cls': ci, 'choose:kind': 2, 'c.re': 2.5e-15, 'c.im': -0.75e-15}, {'choose:cls': ci, 'choose:kind': 0, 'c.re': 1.0}, {'choose:cls': ci, 'choose:kind': 2, 'c.re': 0.0, 'c.im': 1e-10}, {'choose:cls': ci, 'choose:kind': 0, 'c.re': -1e-300}, {'choose:cls': ci, 'choose:kind': 2}]
    obs.append(Obligation('json.lin.coefficient', coefficient, twin=lambda cx: coefficient(cx, True), points=pts, opts={'weight': 3}, desc=f'{[c_[0] for c_ in CO]}: coefficient SYMBOLIC in [-10,10], real / purely imaginary / complex (incl. 0, tiny values and 1, which selects the GateOperation-equality branch of PauliString): JSON keeps it EXACTLY, structure and == preserved'))

    # ---- sympy-valued coefficients next to symbolic numeric ones ----------------------------------------------------------------
    EX = [a_, 2 * a_, a_ + b_, a_**2, a_ / 3, sympy.pi * a_, -a_, a_ * b_ + 1, sympy.Float(1e-12) * a_, a_ * sympy.Rational(1, 10**12), a_ - 1e-10]

    def sym_coeff(cx, wrong=False):
        e = EX[cx.choose('expr', len(EX))]
        cls = cx.choose('cls', 4)
        c = _coef(cx, 'c', 2)
        if cls == 0:
            want = {'S': e, 'N': c}
            obj = cirq.LinearDict(dict(want))
            view = lambda x: x
            absent = 'Q'
        elif cls == 1:
            want = {UP[0]: e, UP[1]: c}
            obj = cirq.PauliSum(cirq.LinearDict(dict(want)))
            view = lambda x: x._linear_dict
            absent = UP[3]
        elif cls == 2:
            want = {PK[0]: e, PK[1]: c}
            obj = cirq.ProjectorSum(cirq.LinearDict(dict(want)))
            view = lambda x: x._linear_dict
            absent = PK[3]
        else:
            obj = cirq.PauliString({q0: cirq.X, q2: cirq.Z}, coefficient=e)
            back = roundtrip_cx(cx, [obj, {'n': c}])
            # PauliString stores 1.0*e for a sympy coefficient e: same value (difference simplifies to 0), and the
            # round trip must return the stored expression structurally unchanged
            cx.check(sympy.simplify(obj.coefficient - (e + 1 if wrong else e)) == 0, label='PauliString(coefficient=e).coefficient has the value e')
            cx.check(EXACT(back[0].coefficient, obj.coefficient) and sympy.simplify(back[0].coefficient - e) == 0, label='PauliString sympy coefficient')
            cx.check(EXACT(back[1]['n'], c), label='numeric neighbour in the same document')
            _eq_both(cx, 'PauliString(sympy)', back[0], obj)
            return
        back = roundtrip_cx(cx, obj)
        if wrong:
            want[next(iter(want))] = e + 1
        _lin_checks(cx, 'sympy', view(back), want, [absent])
        if not wrong:
            _eq_both(cx, 'sympy-valued', back, obj)
            if cls == 0:  # PauliSum / ProjectorSum do not implement the parameter-name protocols
                cx.check(cirq.is_parameterized(back) and cirq.parameter_names(back) == set(cirq.parameter_names(e)), label='parameter names survive')

    pts = [{'choose:expr': i, 'choose:cls': j, 'c.re': [1e-9, -2.5e-12, 0.0][(i + j) % 3], 'c.im': [0.0, 1e-10, -1.0][i % 3]} for i in range(len(EX)) for j in range(4)]
    obs.append(Obligation('json.lin.sympy_coefficients', sym_coeff, twin=lambda cx: sym_coeff(cx, True), points=pts, opts={'weight': 3}, desc=f'LinearDict / PauliSum / ProjectorSum / PauliString whose coefficient is a sympy expression from the menu {[str(e) for e in EX]} (ENUMERATED: sympy cannot carry solver values) next to a SYMBOLIC complex numeric coefficient in the same value / document: both come back exactly (sympy: structurally equal), parameter names survive'))

    # ---- nested in lists / dicts ------------------------------------------------------------------------------------------------
    def nested(cx, wrong=False):
        a, b, c = _coef(cx, 'a', 0), _coef(cx, 'b', 1), _coef(cx, 'c', 2)
        ld = cirq.LinearDict({'X': a, 'Y': b})
        psum = cirq.PauliSum(cirq.LinearDict({UP[0]: b, UP[2]: c}))
        prs = cirq.ProjectorSum(cirq.LinearDict({PK[0]: c, PK[1]: a}))
        pstr = cirq.PauliString({q1: cirq.Z}, coefficient=c)
        shape = cx.choose('shape', 3)
        if shape == 0:
            doc = [ld, psum, prs, pstr, ld]  # the same object twice
            back = roundtrip_cx(cx, doc)
            cx.check(type(back) is list and len(back) == 5, label='nested: list')
            g_ld, g_ps, g_pr, g_st, g_ld2 = back
        elif shape == 1:
            doc = {'ld': ld, 'sums': {'pauli': psum, 'proj': [prs]}, 'str': (pstr,), 'again': [[ld]]}
            back = roundtrip_cx(cx, doc)
            cx.check(type(back) is dict and list(back) == ['ld', 'sums', 'str', 'again'], label='nested: dict')
            g_ld, g_ps, g_pr, g_st, g_ld2 = back['ld'], back['sums']['pauli'], back['sums']['proj'][0], back['str'][0], back['again'][0][0]
        else:
            doc = [[[{'k': [ld, {'p': psum}]}]], {'q': [prs, [pstr]]}, ld]
            back = roundtrip_cx(cx, doc)
            g_ld, g_ps, g_pr, g_st, g_ld2 = back[0][0][0]['k'][0], back[0][0][0]['k'][1]['p'], back[1]['q'][0], back[1]['q'][1][0], back[2]
        _lin_checks(cx, 'nested LinearDict', g_ld, {'X': _off(a, wrong), 'Y': b}, ['Z'])
        _lin_checks(cx, 'nested LinearDict (2nd occurrence)', g_ld2, {'X': a, 'Y': b}, ['Z'])
        _lin_checks(cx, 'nested PauliSum', g_ps._linear_dict, {UP[0]: b, UP[2]: c}, [UP[1]])
        _lin_checks(cx, 'nested ProjectorSum', g_pr._linear_dict, {PK[0]: c, PK[1]: a}, [PK[2]])
        cx.check(EXACT(g_st.coefficient, c), label='nested PauliString.coefficient')
        if not wrong:
            for nm, g, o in (('LinearDict', g_ld, ld), ('LinearDict#2', g_ld2, ld), ('PauliSum', g_ps, psum), ('ProjectorSum', g_pr, prs), ('PauliString', g_st, pstr)):
                _eq_both(cx, 'nested ' + nm, g, o)
        cx.close([g_ld['X'], g_ps._linear_dict[UP[0]], g_pr._linear_dict[PK[0]]], [_off(a, wrong), b, c], tol=TOL, label='nested coefficients')

    # ---- the same exactness for the other numeric fields of cirq.value / cirq.ops / cirq.study values -----------------------------
    # (no _json_dict_ there cleans or rounds on the unchanged tree; this family makes sure none starts to: the harness
    # compares the reloaded FIELD with the constructor argument exactly, independently of the class's own ==)
    dps = cirq.DensePauliString('XYZ')
    U, P, S_, H_ = (-4.0, 4.0), (0.0, 1.0), (-3.0, 3.0), (-0.9, 0.9)  # H_: inside the canonical half-turn range (-1, 1]; S_: inside [-pi, pi)
    FL = [
        ('XPowGate.exponent', lambda v: cirq.XPowGate(exponent=v), lambda g: g.exponent, U),
        ('YPowGate.global_shift', lambda v: cirq.YPowGate(exponent=0.5, global_shift=v), lambda g: g.global_shift, U),
        ('ZPowGate.exponent(dim 3)', lambda v: cirq.ZPowGate(exponent=v, dimension=3), lambda g: g.exponent, U),
        ('HPowGate.exponent', lambda v: cirq.HPowGate(exponent=v), lambda g: g.exponent, U),
        ('CZPowGate.exponent', lambda v: cirq.CZPowGate(exponent=v), lambda g: g.exponent, U),
        ('ISwapPowGate.exponent', lambda v: cirq.ISwapPowGate(exponent=v), lambda g: g.exponent, U),
        ('ZZPowGate.global_shift', lambda v: cirq.ZZPowGate(exponent=1.5, global_shift=v), lambda g: g.global_shift, U),
        ('CCXPowGate.exponent', lambda v: cirq.CCXPowGate(exponent=v), lambda g: g.exponent, U),
        ('Rz.rads', lambda v: cirq.Rz(rads=v), lambda g: g._rads, U),
        ('Rx.rads', lambda v: cirq.Rx(rads=v), lambda g: g._rads, U),
        ('PhasedXPowGate.phase_exponent', lambda v: cirq.PhasedXPowGate(phase_exponent=v, exponent=0.5), lambda g: g.phase_exponent, H_),
        ('PhasedXZGate.z_exponent', lambda v: cirq.PhasedXZGate(x_exponent=0.25, z_exponent=v, axis_phase_exponent=0.5), lambda g: g.z_exponent, U),
        ('FSimGate.phi', lambda v: cirq.FSimGate(0.5, v), lambda g: g.phi, S_),
        ('PhasedFSimGate.zeta', lambda v: cirq.PhasedFSimGate(0.5, zeta=v), lambda g: g.zeta, S_),
        ('PhaseGradientGate.exponent', lambda v: cirq.PhaseGradientGate(num_qubits=2, exponent=v), lambda g: g.exponent, U),
        ('DiagonalGate.angle', lambda v: cirq.DiagonalGate([0.5, v]), lambda g: g.diag_angles_radians[1], U),
        ('TwoQubitDiagonalGate.angle', lambda v: cirq.TwoQubitDiagonalGate([v, 0.5, 1.0, 0.25]), lambda g: g._diag_angles_radians[0], U),
        ('BooleanHamiltonianGate.theta', lambda v: cirq.BooleanHamiltonianGate(['a', 'b'], ['a ^ b'], v), lambda g: g._theta, U),
        ('PauliStringPhasor.exponent_neg', lambda v: cirq.PauliStringPhasor(cirq.X(q0) * cirq.Z(q1), exponent_neg=v, exponent_pos=0.5), lambda g: g.exponent_neg, H_),
        ('PauliStringPhasorGate.exponent_pos', lambda v: cirq.PauliStringPhasorGate(dps, exponent_neg=0.25, exponent_pos=v), lambda g: g.exponent_pos, H_),
        ('ControlledGate(X**v)', lambda v: cirq.ControlledGate(cirq.X**v), lambda g: g.sub_gate.exponent, U),
        ('GateOperation(CZ**v)', lambda v: (cirq.CZ**v).on(q0, q2), lambda o: o.gate.exponent, U),
        ('BitFlipChannel.p', lambda v: cirq.BitFlipChannel(v), lambda g: g.p, P),
        ('PhaseFlipChannel.p', lambda v: cirq.PhaseFlipChannel(v), lambda g: g.p, P),
        ('DepolarizingChannel.p', lambda v: cirq.DepolarizingChannel(v), lambda g: g.p, P),
        ('AsymmetricDepolarizingChannel.p_y', lambda v: cirq.AsymmetricDepolarizingChannel(0.125, v * 0.5, 0.25), lambda g: g.p_y * 2, P),
        ('AmplitudeDampingChannel.gamma', lambda v: cirq.AmplitudeDampingChannel(v), lambda g: g.gamma, P),
        ('PhaseDampingChannel.gamma', lambda v: cirq.PhaseDampingChannel(v), lambda g: g.gamma, P),
        ('GeneralizedAmplitudeDampingChannel.gamma', lambda v: cirq.GeneralizedAmplitudeDampingChannel(0.5, v), lambda g: g.gamma, P),
        ('RandomGateChannel.probability', lambda v: cirq.RandomGateChannel(sub_gate=cirq.X, probability=v), lambda g: g.probability, P),
        ('Duration.picos', lambda v: cirq.Duration(picos=v), lambda d: d.total_picos(), U),
        ('WaitGate.duration', lambda v: cirq.WaitGate(cirq.Duration(picos=v)), lambda g: g.duration.total_picos(), P),
        ('ParamResolver.value', lambda v: cirq.ParamResolver({'x': v, 'y': 1.0}), lambda r: r.param_dict['x'], S_),
        ('Points.point', lambda v: cirq.Points('k', [1.0, v]), lambda sw: sw.points[1], S_),
        ('Linspace.start', lambda v: cirq.Linspace('k', v, 1.0, 3), lambda sw: sw.start, S_),
    ]

    def exact_field(cx, wrong=False):
        nm, mk, get, (lo, hi) = FL[cx.choose('field', len(FL))]
        v = cx.real('v', lo, hi)
        obj = mk(v)
        back = roundtrip_cx(cx, obj)
        cx.check(EXACT(get(back), _off(get(obj), wrong)), label=f'{nm} comes back exactly as stored')
        if cx.mode == 'sym':  # exact real arithmetic: the stored field IS the argument (constructors that canonicalise
            # modulo a period do it in floating point, so at the concrete points this holds up to rounding: cx.close below)
            cx.check(EXACT(get(back), _off(v, wrong)), label=f'{nm} comes back exactly as given')
        if not wrong:
            _eq_both(cx, nm, back, obj)
        cx.close([get(back)], [_off(v, wrong)], tol=TOL, label=nm)

    pts = []
    for fi in range(len(FL)):
        pts += [{'choose:field': fi, 'v': m} for m in (1e-9, 1e-12, 0.0, 1e-300, 0.9999999999e-9)] + [{'choose:field': fi}]
        if FL[fi][3][0] < 0:
            pts += [{'choose:field': fi, 'v': -1e-9}, {'choose:field': fi, 'v': -3e-15}]
    obs.append(Obligation('json.lin.exact_fields', exact_field, expected=(ValueError,), twin=lambda cx: exact_field(cx, True), points=pts, opts={'weight': 4}, desc=f'{len(FL)} numeric fields of cirq.ops / cirq.value / cirq.study values ({", ".join(f[0] for f in FL)}), field value SYMBOLIC over its whole box (incl. 0 and every tiny magnitude): the reloaded field equals the constructor argument EXACTLY (harness comparison, no tolerance), == both ways'))

    obs.append(Obligation('json.lin.nested', nested, twin=lambda cx: nested(cx, True), points=_pts() + _pts(**{'choose:shape': 1})[7:13] + _pts(**{'choose:shape': 2})[7:13], opts={'weight': 5}, desc='LinearDict, PauliSum, ProjectorSum and PauliString sharing SYMBOLIC coefficients a, i b, c + i d (all in [-10,10], incl. 0 and tiny), placed in 3 document shapes (flat list with a repeated object / dict of dicts, lists, tuple / depth-4 mix): every nested value comes back with exactly its terms'))
    return obs


def IFF(a, b):
    """a <-> b for bool / SBool mixes"""
    if a is NotImplemented:
        a = False
    if isinstance(a, SBool) or isinstance(b, SBool):
        a = a if isinstance(a, SBool) else SBool(bool(a))
        return a == (b if isinstance(b, SBool) else bool(b))
    return bool(a) == bool(b)


def AND(conds):
    acc = True
    for c in conds:
        if isinstance(c, SBool):
            acc = c if acc is True else (acc & c)
        elif not c:
            return False
    return acc


# =================================================================================================
# part C: Duration / Timestamp against the picosecond number
# =================================================================================================
def time_obligations(tier):
    import datetime

    import cirq

    B = 1000 if tier == 'quick' else 10**5
    TT = 1e-3  # picoseconds; exact in symbolic mode, absorbs float rounding of ~1e10 ps totals at the concrete points
    obs = []

    def mkvar(cx, kind):
        return (lambda n, lo, hi: cx.real(n, lo, hi)) if kind == 0 else (lambda n, lo, hi: cx.int(n, lo, hi))

    def units(cx, wrong=False):
        kind = cx.choose('kind', 2)
        mk = mkvar(cx, kind)
        p, n, u, m = mk('p', -B, B), mk('n', -B, B), mk('u', -B, B), mk('m', -10, 10)
        d = cirq.Duration(picos=p, nanos=n, micros=u, millis=m)
        tot = p + n * 1000 + u * 10**6 + m * 10**9
        cx.close([d.total_picos(), d.total_nanos(), d.total_micros(), d.total_millis()], [tot, tot / (100 if wrong else 1000), tot / 10**6, tot / 10**9], tol=TT, label='Duration.total_*')
        d2 = cirq.Duration(d, nanos=n)
        cx.close(d2.total_picos(), tot + n * 1000, tol=TT, label='Duration(value=d, nanos=n)')
        cx.close(d.total_picos(), tot, tol=TT, label='Duration(value=d,...) leaves d unchanged')
        j = d._json_dict_()
        cx.check(list(j.keys()) == ['picos'], label='Duration._json_dict_ keys')
        cx.close(cirq.Duration(**j).total_picos(), tot, tol=TT, label='Duration(**_json_dict_())')

    pts = [{'choose:kind': 0, 'p': 1.5, 'n': 0.0, 'u': 2.0, 'm': 0.0}, {'choose:kind': 0, 'p': 0.0, 'n': -3.25, 'u': 0.0, 'm': 1.0}, {'choose:kind': 1, 'p': 7, 'n': 0, 'u': -2, 'm': 3}, {'choose:kind': 1, 'p': 0, 'n': 0, 'u': 0, 'm': 0}]
    obs.append(Obligation('time.duration.units', units, twin=lambda cx: units(cx, True), points=pts, desc='Duration(picos=p, nanos=n, micros=u, millis=m) for symbolic reals AND symbolic integers: total_picos/nanos/micros/millis == p + 1e3 n + 1e6 u + 1e9 m (all zero/non-zero branches of _add_time_vals), copy-constructor, JSON dict pair'))

    def arith(cx, wrong=False):
        kind = cx.choose('kind', 2)
        mk = mkvar(cx, kind)
        p1, n1, p2, u2 = mk('p1', -B, B), mk('n1', -B, B), mk('p2', -B, B), mk('u2', -B, B)
        k = cx.real('k', -3.0, 3.0)
        a, b = cirq.Duration(picos=p1, nanos=n1), cirq.Duration(picos=p2, micros=u2)
        ta, tb = p1 + n1 * 1000, p2 + u2 * 10**6
        td = datetime.timedelta(microseconds=3)
        got = [(a + b).total_picos(), (a - b).total_picos(), (b - a).total_picos(), (a + td).total_picos(), (td + a).total_picos(), (td - a).total_picos(), (a - td).total_picos(), (a * k).total_picos(), (k * a).total_picos(), (0 + a).total_picos(), (a - 0).total_picos()]
        exp = [ta + tb, ta - tb, (tb + ta) if wrong else (tb - ta), ta + 3 * 10**6, ta + 3 * 10**6, 3 * 10**6 - ta, ta - 3 * 10**6, ta * k, ta * k, ta, ta]
        cx.close(got, exp, tol=TT, label='Duration + - * (Duration, timedelta, number)')
        cx.close([a.total_picos(), b.total_picos()], [ta, tb], tol=TT, label='operands unchanged')
        q = a / k  # ZeroDivisionError on the k == 0 path (declared)
        cx.close(q.total_picos() * k, ta, tol=TT, label='(a / k) * k == a')
        r = a / b  # ratio of two durations; ZeroDivisionError if b is zero
        cx.close(r * tb, ta, tol=TT, label='(a / b) * total(b) == total(a)')

    pts = [{'choose:kind': 0, 'p1': 1.5, 'n1': 2.0, 'p2': -4.0, 'u2': 0.5, 'k': 2.0}, {'choose:kind': 1, 'p1': 3, 'n1': 0, 'p2': 0, 'u2': 2, 'k': -1.5}, {'choose:kind': 0, 'p1': 0.0, 'n1': 0.0, 'p2': 5.0, 'u2': 0.0, 'k': 0.5}]
    obs.append(Obligation('time.duration.arith', arith, expected=(ZeroDivisionError,), twin=lambda cx: arith(cx, True), points=pts, opts={'weight': 3}, desc='Duration arithmetic (+, -, reflected forms with timedelta and 0, * and / by a symbolic real, ratio of durations) equals arithmetic on the picosecond totals'))

    import operator as OP

    CMPS = [('lt', OP.lt), ('le', OP.le), ('gt', OP.gt), ('ge', OP.ge), ('eq', OP.eq), ('ne', OP.ne)]

    def order(cx, wrong=False):
        kind = cx.choose('kind', 2)
        mk = mkvar(cx, kind)
        p1, n1, n2 = mk('p1', -B, B), mk('n1', -B, B), mk('n2', -B, B)
        a, b = cirq.Duration(picos=p1, nanos=n1), cirq.Duration(nanos=n2)
        ta, tb = p1 + n1 * 1000, n2 * 1000
        for nm, f in CMPS:
            oracle = OP.le if (wrong and nm == 'lt') else f
            cx.check(IFF(f(a, b), oracle(ta, tb)), label=f'Duration {nm}')
        td = datetime.timedelta(microseconds=1)
        cx.check(IFF(a == td, ta == 10**6), label='Duration == timedelta')
        cx.check(IFF(a < td, ta < 10**6), label='Duration < timedelta')
        cx.check(IFF(a == 0, ta == 0), label='Duration == 0')
        cx.check(IFF(bool(a), ta != 0), label='bool(Duration)')
        cx.check((a == 'x') is False or (a == 'x') is NotImplemented, label='Duration == str')

    pts = [{'choose:kind': 0, 'p1': 0.0, 'n1': 1.0, 'n2': 1.0}, {'choose:kind': 1, 'p1': 5, 'n1': -1, 'n2': 3}, {'choose:kind': 0, 'p1': 1e6, 'n1': 0.0, 'n2': 0.0}, {'choose:kind': 1, 'p1': 0, 'n1': 0, 'n2': 0}]
    obs.append(Obligation('time.duration.order', order, twin=lambda cx: order(cx, True), points=pts, desc='all six Duration comparisons, comparison with timedelta and 0, truthiness: equivalent to the same comparison of the picosecond totals'))

    def stamp(cx, wrong=False):
        kind = cx.choose('kind', 2)
        mk = mkvar(cx, kind)
        p1, n1, p2, dp, dn = mk('p1', -B, B), mk('n1', -B, B), mk('p2', -B, B), mk('dp', -B, B), mk('dn', -B, B)
        t1, t2 = cirq.Timestamp(picos=p1, nanos=n1), cirq.Timestamp(picos=p2)
        d = cirq.Duration(picos=dp, nanos=dn)
        r1, td_ = p1 + n1 * 1000, dp + dn * 1000
        td = datetime.timedelta(microseconds=2)
        got = [t1.raw_picos(), t2.raw_picos(), (t1 + d).raw_picos(), (d + t1).raw_picos(), (t1 - d).raw_picos(), (t1 - t2).total_picos(), (t2 - t1).total_picos(), (t1 + td).raw_picos(), (t1 - td).raw_picos(), cirq.Timestamp(nanos=n1).raw_picos()]
        exp = [r1, p2, r1 + td_, r1 + td_, (r1 + td_) if wrong else (r1 - td_), r1 - p2, p2 - r1, r1 + 2 * 10**6, r1 - 2 * 10**6, n1 * 1000]
        cx.close(got, exp, tol=TT, label='Timestamp affine arithmetic')
        for nm, f in CMPS:
            cx.check(IFF(f(t1, t2), f(r1, p2)), label=f'Timestamp {nm}')
        cx.check((t1 == d) is False or (t1 == d) is NotImplemented, label='Timestamp == Duration')

    pts = [{'choose:kind': 0, 'p1': 1.0, 'n1': 0.0, 'p2': 1.0, 'dp': 0.5, 'dn': 2.0}, {'choose:kind': 1, 'p1': 0, 'n1': 2, 'p2': 2000, 'dp': 0, 'dn': 0}, {'choose:kind': 0, 'p1': -3.0, 'n1': 1.5, 'p2': 0.0, 'dp': 7.0, 'dn': 0.0}]
    obs.append(Obligation('time.timestamp', stamp, twin=lambda cx: stamp(cx, True), points=pts, opts={'weight': 3}, desc='Timestamp(picos, nanos) raw_picos, +/- Duration and timedelta, difference of timestamps, all six comparisons vs the picosecond numbers (reals and integers)'))
    return obs


# =================================================================================================
# part B: value-equality laws on symbolic field values
# =================================================================================================
def eq_obligations(tier):
    import cirq
    import cirq_ionq

    obs = []
    EG = [cirq.XPowGate, cirq.YPowGate, cirq.ZPowGate, cirq.HPowGate, cirq.CZPowGate, cirq.CXPowGate, cirq.SwapPowGate, cirq.ISwapPowGate, cirq.XXPowGate, cirq.YYPowGate, cirq.ZZPowGate, cirq.CCZPowGate]
    SH = [0.0, -0.5, 0.5]

    def eigen(cx, wrong=False):
        G = EG[cx.choose('gate', len(EG))]
        sh = SH[cx.choose('shift', len(SH))]
        t1, t2 = cx.real('t1', -E, E), cx.real('t2', -E, E)
        a, b, a2 = G(exponent=t1, global_shift=sh), G(exponent=t2, global_shift=sh), G(exponent=t1, global_shift=sh)
        cx.check(as_bool(a == a2) and not (a != a2), label='rebuilt copy is equal')
        r1, r2 = bool(a == b), bool(b == a)
        cx.check(r1 == r2, label='== symmetric')
        cx.check(bool(a != b) == (not r1), label='!= is not ==')
        if r1:
            ua, ub = cirq.unitary(a), cirq.unitary(b)
            if wrong:
                ub = np.array(ub, dtype=object if cx.mode == 'sym' else complex)
                ub[0, 0] = ub[0, 0] + 0.01
            cx.close(ua, ub, tol=1e-7, label='equal gates have equal matrices')
            if cx.mode == 'concrete':
                cx.check(hash(a) == hash(b), label='equal gates hash equal (concrete)')
        elif wrong:
            cx.check(False, label='twin: unequal path')

    pts = []
    for gi in (0, 2, 4, 7):
        for si in range(3):
            pts += [{'choose:gate': gi, 'choose:shift': si, 't1': 0.5, 't2': 2.5}, {'choose:gate': gi, 'choose:shift': si, 't1': 0.25, 't2': 4.25}, {'choose:gate': gi, 'choose:shift': si, 't1': 1.0, 't2': -1.0}, {'choose:gate': gi, 'choose:shift': si, 't1': 0.3, 't2': 0.3}]
    obs.append(Obligation('eq.eigen_gates', eigen, twin=lambda cx: eigen(cx, True), points=pts, opts={'weight': 6}, desc=f'{len(EG)} EigenGate families x global_shift in {SH}, exponents t1, t2 symbolic: == is symmetric, != is its negation, a rebuilt copy is equal, and on every path where G(t1) == G(t2) holds (exponent canonicalisation modulo the period) the two matrices are equal'))

    FC = [
        ('AmplitudeDampingChannel', 1, lambda g: cirq.AmplitudeDampingChannel(g), (0.0, 1.0)),
        ('PhaseDampingChannel', 1, lambda g: cirq.PhaseDampingChannel(g), (0.0, 1.0)),
        ('BitFlipChannel', 1, lambda p: cirq.BitFlipChannel(p), (0.0, 1.0)),
        ('PhaseFlipChannel', 1, lambda p: cirq.PhaseFlipChannel(p), (0.0, 1.0)),
        ('DepolarizingChannel', 1, lambda p: cirq.DepolarizingChannel(p * 0.5), (0.0, 1.0)),
        ('GeneralizedAmplitudeDampingChannel', 2, lambda p, g: cirq.GeneralizedAmplitudeDampingChannel(p, g), (0.0, 1.0)),
        ('AsymmetricDepolarizingChannel', 2, lambda x, z: cirq.AsymmetricDepolarizingChannel(x * 0.25, 0.125, z * 0.25), (0.0, 1.0)),
        ('RandomGateChannel', 1, lambda p: cirq.RandomGateChannel(sub_gate=cirq.X, probability=p), (0.0, 1.0)),
        ('Linspace', 2, lambda a, b: cirq.Linspace('k', a, b, 3), (-3.0, 3.0)),
        ('Points', 2, lambda a, b: cirq.Points('k', [a, 0.5, b]), (-3.0, 3.0)),
        ('ParamResolver', 2, lambda a, b: cirq.ParamResolver({'x': a, 'y': b}), (-3.0, 3.0)),
        ('Duration', 1, lambda a: cirq.Duration(picos=a), (-1e3, 1e3)),
        ('Duration.mixed_units', 2, lambda a, b: cirq.Duration(picos=a, nanos=b), (-1e3, 1e3)),
        ('Timestamp', 1, lambda a: cirq.Timestamp(picos=a), (-1e3, 1e3)),
        ('WaitGate', 1, lambda a: cirq.WaitGate(cirq.Duration(picos=a)), (0.0, 1e3)),
        ('DiagonalGate', 2, lambda a, b: cirq.DiagonalGate([a, b]), (-3.0, 3.0)),
        ('PauliString', 1, lambda c: cirq.PauliString({cirq.LineQubit(0): cirq.X, cirq.LineQubit(1): cirq.Z}, coefficient=c), (0.5, 2.0)),
        ('DensePauliString', 1, lambda c: cirq.DensePauliString('XZ', coefficient=c), (0.5, 2.0)),
        ('VarianceStoppingCriteria', 1, lambda v: cirq.work.VarianceStoppingCriteria(v), (0.0, 1.0)),
        ('ionq.GPIGate', 1, lambda phi: cirq_ionq.GPIGate(phi=phi), (-2.0, 2.0)),
        ('ionq.MSGate', 2, lambda a, b: cirq_ionq.MSGate(phi0=a, phi1=b, theta=0.25), (-2.0, 2.0)),
    ]

    def fields(cx, wrong=False):
        nm, k, mk, (lo, hi) = FC[cx.choose('cls', len(FC))]
        ps = [cx.real(f'p{i}', lo, hi) for i in range(k)]
        qs = [cx.real(f'q{i}', lo, hi) for i in range(k)]
        if nm == 'Duration.mixed_units':  # equality is on the total, not per field
            fa, fb = [ps[0] + 1000 * ps[1]], [qs[0] + 1000 * qs[1]]
        else:
            fa, fb = ps, qs
        a, b, a2 = mk(*ps), mk(*qs), mk(*ps)
        cx.check(as_bool(a == a2) and not (a != a2), label=f'{nm}: rebuilt copy is equal')
        r1, r2 = bool(a == b), bool(b == a)
        cx.check(r1 == r2, label=f'{nm}: == symmetric')
        cx.check(bool(a != b) == (not r1), label=f'{nm}: != is not ==')
        same = AND([x == y for x, y in zip(fa, fb)])
        if wrong:
            same = (fa[0] <= fb[0]) if not isinstance(fa[0] <= fb[0], (bool, np.bool_)) else bool(fa[0] <= fb[0])
        cx.check(IFF(r1, same), label=f'{nm}: == iff the defining fields are equal')
        if cx.mode == 'concrete' and r1 and nm not in ('Duration', 'Duration.mixed_units', 'WaitGate') and getattr(type(a), '__hash__', None):
            cx.check(hash(a) == hash(b), label=f'{nm}: equal values hash equal (concrete)')

    pts = []
    for ci in range(len(FC)):
        k = FC[ci][1]
        lo, hi = FC[ci][3]
        v = [lo + (hi - lo) * f for f in (0.25, 0.5, 0.75)]
        pts.append({'choose:cls': ci, **{f'p{i}': v[i] for i in range(k)}, **{f'q{i}': v[i] for i in range(k)}})
        pts.append({'choose:cls': ci, **{f'p{i}': v[i] for i in range(k)}, **{f'q{i}': v[i + 1] for i in range(k)}})
    obs.append(Obligation('eq.fields', fields, twin=lambda cx: fields(cx, True), points=pts, opts={'weight': 4}, desc=f'{len(FC)} value classes ({", ".join(f[0] for f in FC)}): with independent symbolic fields p, q:  a(p) == a(q)  iff  p == q (field-wise; Duration: totals), symmetric, != is the negation, rebuilt copies equal'))
    return obs


# =================================================================================================
# part E: cached-hash histories -- solver-driven BOUNDED EXPLORATION (finite step menus)
# =================================================================================================
def _no_cached_hash_in_state(x):
    st = x.__getstate__() if hasattr(x, '__getstate__') else getattr(x, '__dict__', {})
    if isinstance(st, tuple):
        st = {k: v for part in st if isinstance(part, dict) for k, v in part.items()}
    return isinstance(st, dict) and not any('hash' in str(k) for k in st)


def _json_rt(cx, x):
    import cirq

    if cx.mode == 'concrete':
        return cirq.read_json(json_text=cirq.to_json(x))
    return JM.cirq_roundtrip(x)[0]


def hist_obligations(tier):
    import cirq

    LEN = 2 if tier == 'quick' else 3
    q0, q1, q2 = cirq.LineQubit.range(3)
    obs = []

    # ---- FrozenCircuit -----------------------------------------------------------------------------------
    FSTEPS = [
        ('none', lambda cx, x, tags: (x, tags)),
        ('hash', lambda cx, x, tags: (hash(x), x)[1:] + (tags,)),
        ('with_tags(a)', lambda cx, x, tags: (x.with_tags('a'), tags + ('a',))),
        ('with_tags()', lambda cx, x, tags: (x.with_tags(), tags)),
        ('untagged', lambda cx, x, tags: (x.untagged, ())),
        ('copy', lambda cx, x, tags: (copy.copy(x), tags)),
        ('deepcopy', lambda cx, x, tags: (copy.deepcopy(x), tags)),
        ('pickle', lambda cx, x, tags: (pickle.loads(pickle.dumps(x)), tags)),
        ('json', lambda cx, x, tags: (_json_rt(cx, x), tags)),
        ('unfreeze.freeze', lambda cx, x, tags: (x.unfreeze().freeze(), tags)),
        ('unfreeze.with_tags(u).freeze', lambda cx, x, tags: (x.unfreeze().with_tags('u').freeze(), tags + ('u',))),
        ('freeze', lambda cx, x, tags: (x.freeze(), tags)),
    ]

    def frozen(cx, wrong=False):
        t = cx.real('t', -E, E)
        tags = [(), ('b', 3)][cx.choose('tags0', 2)]

        def fresh(tg):
            return cirq.FrozenCircuit(cirq.Moment((cirq.X**t).on(q0), cirq.CZ(q1, q2)), cirq.Moment(), cirq.Moment(cirq.measure(q0, key='m')), tags=tg)

        x = fresh(tags)
        names = []
        for i in range(LEN):
            nm, f = FSTEPS[cx.choose(f'step{i}', len(FSTEPS))]
            names.append(nm)
            x, tags = f(cx, x, tags)
        lab = 'FrozenCircuit[' + ' > '.join(names) + ']'
        f_ = fresh(tags + (('WRONG',) if wrong else ()))
        cx.check(type(x) is cirq.FrozenCircuit, label=lab + ' type')
        cx.check(tuple(x.tags) == tuple(f_.tags), label=lab + ' tags')
        cx.check(as_bool(x == f_) and as_bool(f_ == x) and not (x != f_), label=lab + ' == fresh')
        cx.check(hash(x) == hash(f_), label=lab + ' hash == hash(fresh)')
        cx.check(len(x.moments) == 3 and x.all_qubits() == f_.all_qubits() and x.all_measurement_key_names() == {'m'}, label=lab + ' cached queries')
        cx.close([x.moments[0].operations[0].gate.exponent], [t], tol=TOL, label=lab + ' exponent')
        hash(x)
        cx.check(_no_cached_hash_in_state(x), label=lab + ' pickled state carries no cached hash')
        y = pickle.loads(pickle.dumps(x))
        cx.check(as_bool(y == f_) and hash(y) == hash(f_), label=lab + ' pickled copy == fresh, hash equal')

    obs.append(Obligation('hist.frozen_circuit', frozen, twin=lambda cx: frozen(cx, True), points=[{'t': 0.5, 'choose:step0': 1, 'choose:step1': 2}, {'t': 1.0, 'choose:tags0': 1, 'choose:step0': 7, 'choose:step1': 8}], opts={'weight': 8, 'max_paths': 60000}, kind='bounded-exploration', desc=f'BOUNDED EXPLORATION: every history of {LEN} steps from {[n for n, _ in FSTEPS]} applied to a FrozenCircuit (gate exponent symbolic, initial tags enumerated); the end state ==, hashes equal to, and has the tags of a freshly built circuit predicted by the harness model; cached queries agree; the pickled state carries no cached hash'))

    # ---- CircuitOperation -----------------------------------------------------------------------------------------
    def default_ids(n):  # documented: strings for numbers in range(repetitions) when |repetitions| > 1
        return [str(i) for i in range(abs(n))] if abs(n) != 1 else None

    def st_repeat(cx, x, m):
        m = dict(m)
        new = default_ids(2) if m['use'] else None
        if new is None:
            pass
        elif m['ids'] is None:
            m['ids'] = new
        else:
            m['ids'] = [f'{a}-{b}' for a in new for b in m['ids']]  # documented: cartesian product, outer id first
        m['reps'] = m['reps'] * 2
        return x.repeat(2), m

    def st_ids(cx, x, m):
        m = dict(m)
        m['ids'] = [f'n{i}' for i in range(abs(m['reps']))]
        m['use'] = True
        return x.with_repetition_ids(list(m['ids'])), m

    CSTEPS = [
        ('none', lambda cx, x, m: (x, m)),
        ('hash', lambda cx, x, m: (hash(x), x)[1:] + (m,)),
        ('copy', lambda cx, x, m: (copy.copy(x), m)),
        ('deepcopy', lambda cx, x, m: (copy.deepcopy(x), m)),
        ('pickle', lambda cx, x, m: (pickle.loads(pickle.dumps(x)), m)),
        ('json', lambda cx, x, m: (_json_rt(cx, x), m)),
        ('replace(parent_path)', lambda cx, x, m: (x.replace(parent_path=('p',)), dict(m, pp=('p',)))),
        ('with_key_path', lambda cx, x, m: (x.with_key_path(('k',)), dict(m, pp=('k',)))),
        ('with_key_path_prefix', lambda cx, x, m: (cirq.with_key_path_prefix(x, ('z',)), dict(m, pp=('z',) + m['pp']))),
        ('repeat(2)', st_repeat),
        ('with_repetition_ids', st_ids),
        ('with_tags.untagged', lambda cx, x, m: (x.with_tags('t').untagged, m)),
    ]

    def circop(cx, wrong=False):
        import sympy

        t = cx.real('t', -E, E)
        v = cx.real('v', -2.0, 2.0)
        fc = cirq.FrozenCircuit((cirq.X ** sympy.Symbol('a')).on(q0), (cirq.Z**t).on(q1), cirq.measure(q0, key='m'))
        r0 = [1, 2][cx.choose('reps0', 2)]
        mode = cx.choose('ids0', 3)
        kw = [dict(), dict(use_repetition_ids=True), dict(repetition_ids=[f'r{i}' for i in range(r0)])][mode]
        x = cirq.CircuitOperation(fc, repetitions=r0, param_resolver={'a': v}, **kw)
        use = mode != 0
        m = {'reps': r0, 'use': use, 'ids': ([f'r{i}' for i in range(r0)] if mode == 2 else (default_ids(r0) if use else None)), 'pp': ()}
        names = []
        for i in range(LEN):
            nm, f = CSTEPS[cx.choose(f'step{i}', len(CSTEPS))]
            names.append(nm)
            x, m = f(cx, x, m)
        lab = 'CircuitOperation[' + ' > '.join(names) + ']'
        f_ = cirq.CircuitOperation(fc, repetitions=m['reps'] + (1 if wrong else 0), repetition_ids=None if (m['ids'] is None or wrong) else list(m['ids']), use_repetition_ids=m['use'], parent_path=m['pp'], param_resolver={'a': v})
        cx.check(type(x) is cirq.CircuitOperation, label=lab + ' type')
        cx.check(x.repetitions == m['reps'] and (None if x.repetition_ids is None else list(x.repetition_ids)) == m['ids'] and x.use_repetition_ids == m['use'] and tuple(x.parent_path) == m['pp'], label=lab + ' fields follow the documented model')
        cx.check(as_bool(x == f_) and as_bool(f_ == x) and not (x != f_), label=lab + ' == fresh')
        cx.check(hash(x) == hash(f_), label=lab + ' hash == hash(fresh)')
        cx.close([x.circuit.moments[0].operations[1].gate.exponent, x.param_resolver.value_of('a')], [t, v], tol=TOL, label=lab + ' symbolic fields')
        hash(x)
        cx.check(_no_cached_hash_in_state(x), label=lab + ' pickled state carries no cached hash')
        y = pickle.loads(pickle.dumps(x))
        cx.check(as_bool(y == f_) and hash(y) == hash(f_), label=lab + ' pickled copy == fresh, hash equal')

    obs.append(Obligation('hist.circuit_operation', circop, twin=lambda cx: circop(cx, True), points=[{'t': 0.5, 'v': 0.25, 'choose:reps0': 1, 'choose:ids0': 1, 'choose:step0': 1, 'choose:step1': 9}, {'t': 1.0, 'v': 1.0, 'choose:reps0': 1, 'choose:ids0': 2, 'choose:step0': 5, 'choose:step1': 10}], opts={'weight': 9, 'max_paths': 60000}, kind='bounded-exploration', desc=f'BOUNDED EXPLORATION: every history of {LEN} steps from {[n for n, _ in CSTEPS]} applied to a CircuitOperation (repetitions 1|2 x repetition-id mode default|use_repetition_ids|explicit ids; gate exponent and resolver value symbolic), incl. JSON in every position: fields follow the documented model, end state == and hashes equal to a freshly built operation'))

    # ---- Moment / operations with cached hashes -----------------------------------------------------------------------
    MSTEPS = [
        ('none', lambda cx, x, ops_: (x, ops_)),
        ('hash', lambda cx, x, ops_: (hash(x), x)[1:] + (ops_,)),
        ('copy', lambda cx, x, ops_: (copy.copy(x), ops_)),
        ('deepcopy', lambda cx, x, ops_: (copy.deepcopy(x), ops_)),
        ('pickle', lambda cx, x, ops_: (pickle.loads(pickle.dumps(x)), ops_)),
        ('json', lambda cx, x, ops_: (_json_rt(cx, x), ops_)),
        ('with_operation', lambda cx, x, ops_: (x.with_operation(cirq.Y(q2)), ops_ + ['Y2']) if 'Y2' not in ops_ else (x, ops_)),
        ('without_operations_touching', lambda cx, x, ops_: (x.without_operations_touching([q2]), [o for o in ops_ if o != 'Y2'])),
        ('with_tags', lambda cx, x, ops_: (x.with_tags('mt'), ops_)),
    ]

    def moment(cx, wrong=False):
        t = cx.real('t', -E, E)
        table = {'Xt': lambda: (cirq.X**t).on(q0).with_tags('g'), 'H1': lambda: cirq.H(q1), 'Y2': lambda: cirq.Y(q2)}
        ops_ = ['Xt', 'H1']
        x = cirq.Moment([table[o]() for o in ops_])
        names = []
        for i in range(LEN):
            nm, f = MSTEPS[cx.choose(f'step{i}', len(MSTEPS))]
            names.append(nm)
            x, ops_ = f(cx, x, ops_)
        lab = 'Moment[' + ' > '.join(names) + ']'
        f_ = cirq.Moment([table[o]() for o in (ops_[:-1] if wrong else ops_)])
        cx.check(as_bool(x == f_) and as_bool(f_ == x) and not (x != f_), label=lab + ' == fresh')
        cx.check(hash(x) == hash(f_), label=lab + ' hash == hash(fresh)')
        cx.check(x.qubits == f_.qubits, label=lab + ' qubits')
        hash(x)
        cx.check(_no_cached_hash_in_state(x), label=lab + ' pickled state carries no cached hash')
        op = x.operation_at(q0)
        cx.close([op.gate.exponent], [t], tol=TOL, label=lab + ' exponent')
        y = pickle.loads(pickle.dumps(op))
        hash(op)
        cx.check(as_bool(y == op) and hash(y) == hash(op) and _no_cached_hash_in_state(op) and _no_cached_hash_in_state(op.gate), label=lab + ' tagged operation / gate: pickled copy equal, no cached hash in state')

    obs.append(Obligation('hist.moment', moment, twin=lambda cx: moment(cx, True), points=[{'t': 0.5, 'choose:step0': 1, 'choose:step1': 6}], opts={'weight': 5, 'max_paths': 60000}, kind='bounded-exploration', desc=f'BOUNDED EXPLORATION: histories of {LEN} steps from {[n for n, _ in MSTEPS]} on a Moment with a symbolic gate: ==/hash agree with a freshly built moment'))

    # ---- MeasurementKey (hash part that CrossHair cannot reach) -----------------------------------------------------------
    NAMES = ['m', '', 'kéy', 'a b']
    KSTEPS = [
        ('none', lambda x, n, p: (x, n, p)),
        ('hash', lambda x, n, p: (hash(x), x, n, p)[1:]),
        ('str', lambda x, n, p: (str(x), x, n, p)[1:]),
        ('replace(name)', lambda x, n, p: (x.replace(name='z'), 'z', p)),
        ('with_key_path_prefix', lambda x, n, p: (x.with_key_path_prefix('q'), n, ('q',) + p)),
        ('copy', lambda x, n, p: (copy.copy(x), n, p)),
        ('deepcopy', lambda x, n, p: (copy.deepcopy(x), n, p)),
        ('pickle', lambda x, n, p: (pickle.loads(pickle.dumps(x)), n, p)),
        ('json-text', lambda x, n, p: (cirq.read_json(json_text=cirq.to_json(x)), n, p)),
        ('parse_serialized', lambda x, n, p: (cirq.MeasurementKey.parse_serialized(str(x)), n, p)),
    ]

    def mkey(cx, wrong=False):
        n = NAMES[cx.choose('name', len(NAMES))]
        p = [(), ('r',), ('r', 's')][cx.choose('path', 3)]
        x = cirq.MeasurementKey(n, p)
        names = []
        for i in range(LEN):
            nm, f = KSTEPS[cx.choose(f'step{i}', len(KSTEPS))]
            names.append(nm)
            x, n, p = f(x, n, p)
        lab = 'MeasurementKey[' + ' > '.join(names) + ']'
        f_ = cirq.MeasurementKey(n + ('!' if wrong else ''), p)
        s_ = ':'.join(p + (n,))
        cx.check(x == f_ and f_ == x and not (x != f_) and x.name == n and x.path == p, label=lab + ' == fresh')
        cx.check(hash(x) == hash(f_) and hash(x) == hash(s_) and str(x) == s_ and x == s_, label=lab + ' hash/str == hash/str of the joined string')
        cx.check(_no_cached_hash_in_state(x), label=lab + ' pickled state carries no cached hash')
        cx.check(len({x, f_, cirq.MeasurementKey.parse_serialized(s_)}) == 1, label=lab + ' set membership')

    obs.append(Obligation('hist.measurement_key', mkey, twin=lambda cx: mkey(cx, True), points=[{'choose:name': 2, 'choose:path': 1, 'choose:step0': 1, 'choose:step1': 3}], opts={'weight': 3}, kind='bounded-exploration', desc=f'BOUNDED EXPLORATION (no symbolic quantity: names from {NAMES}, paths of length 0-2): histories of {LEN} steps from {[n for n, _ in KSTEPS]}; cached _str/_hash never stale: hash(key) == hash(str) == hash(fresh)'))
    return obs


def _ph(t):
    """exp(i pi t) for float or symbolic t"""
    if isinstance(t, SNum):
        return (t * (1j * math.pi)).exp()
    return complex(np.exp(1j * math.pi * t))


def _sqrt(x):
    return x.sqrt() if isinstance(x, SNum) else math.sqrt(x)


def _sqrt1m(x):
    return (1 - x).sqrt() if isinstance(x, SNum) else math.sqrt(1 - x)


def _sym_arr(rows):
    flat = [e for r in rows for e in r]
    if any(is_symb(e) for e in flat):
        from symx.proxy import wrap

        a = np.empty((len(rows), len(rows[0])), dtype=object)
        for i, r in enumerate(rows):
            for j, e in enumerate(r):
                a[i, j] = SNum.coerce(e)
        return wrap(a)
    return np.array(rows, dtype=float)


def _has_sym_sweep(sw):
    return any(is_symb(v) for v in _sweep_leaves(sw))


def _sweep_leaves(sw):
    import cirq

    if isinstance(sw, cirq.Linspace):
        return [sw.key, sw.start, sw.stop, sw.length]
    if isinstance(sw, cirq.Points):
        return [sw.key] + list(sw.points)
    subs = getattr(sw, 'sweeps', None) or getattr(sw, 'factors', None)
    out = [type(sw).__name__]
    for s_ in subs:
        out.append(_sweep_leaves(s_))
    return out


def obligations(tier):
    obs = []
    obs += json_obligations(tier)
    obs += lin_obligations(tier)
    obs += finding_obligations(tier)
    obs += time_obligations(tier)
    obs += eq_obligations(tier)
    obs += hist_obligations(tier)
    return obs


def worker_setup():
    """harness stubs beyond symx.proxy: the resolver entry 'complex' (builtin complex cannot hold symbolic parts)"""
    from cirq.json_resolver_cache import _class_resolver_dictionary

    d = _class_resolver_dictionary()

    def complex_factory(real=0, imag=0):
        if is_symb(real) or is_symb(imag):
            return SNum.coerce(real) + 1j * SNum.coerce(imag)
        return complex(real, imag)

    d['complex'] = complex_factory
    return ["json resolver entry 'complex' -> factory that keeps symbolic real/imag parts (builtin complex otherwise)"]


LEVEL = (
    'Bounded symbolic execution of the real serialization code (narrow claim): objects of the JSON-registered classes are built with SYMBOLIC '
    'numeric fields, sent through the real _json_dict_ / CirqEncoder.default / ObjectHook / resolver / _from_json_dict_ code around a tree model '
    'of the json module (the text step itself is outside), and z3 decides that the reconstructed object has the same observable attributes and '
    'is == the original for ALL field values in the boxes; Duration/Timestamp arithmetic and ordering against the picosecond number; '
    'value-equality laws on symbolic fields; MeasurementKey string laws by CrossHair; cached-hash histories as solver-driven bounded exploration.'
)


def main(tier, seed=0, replay=None, only=None, procs=None):
    import os
    import sys

    from harness_ch import runner as CH

    bounds = {
        'symbolic': 'every real/integer field named in the obligation (exponents in [-4,4], shifts [-1,1], radians [-7,7], probabilities [0,1], picoseconds, integer fields in their listed ranges); key.*: key name / path / prefix strings (two free strings of length <= 2 quick / <= 3 thorough, or one of length <= 3 / 4)',
        'json.lin': 'json.lin.*: every coefficient / field is a solver variable over its WHOLE box (coefficients: real, purely imaginary i*s, complex s + i*u with s, u in [-10,10]; fields: exponents [-4,4], probabilities [0,1], angles (-3,3), half-turn fields (-0.9,0.9)), so 0, exactly 1e-9 (default atol of LinearDict.clean) and all smaller magnitudes are inside; assertions are exact equalities decided by z3 (term-by-term coefficient, `in` iff non-zero, len, keys(), == both ways), twins are off by a relative 1e-6. Enumerated: 3 key menus (str / gates / qubits), 3 ways to build a PauliSum, 2 ways to build a ProjectorSum, 7 coefficient-carrying classes x 3 coefficient kinds, 11 sympy expressions x 4 classes, 3 document shapes (nesting depth <= 4), 35 (class, field) pairs; concrete validation points pin 10**-k for k = 0..15, 1e-30, 1e-300, +-1e-9 and values just above / below 1e-9',
        'enumerated': 'finite selectors per obligation (dimension, omitted-when-default switches, control values, repetition-id modes, sweep tree shapes); one representative structure per class (qubits, keys, Pauli masks are concrete); hist.*: ALL step sequences of length 2 (quick) / 3 (thorough) over the listed menus = solver-driven bounded exploration',
        'tolerance': TOL,
        'outside': [
            'JSON text encoding/decoding (C-level json, string escaping, NaN/Infinity spelling, gzip, files): replaced by the tree model oracles/json_model.py in symbolic mode; the real text path runs at the concrete validation points and in every replay, where the model is also compared with json.loads of the real text',
            'the stored corpus json_test_data/*.json, *.json_inward, *.repr (finite set of concrete documents: nothing to quantify)',
            'repr/eval round trips (proper_repr); pickling/copying of arbitrary values (only inside hist.* bounded exploration)',
            'qubit coordinates and names (hashed/interned at construction), Qid ordering, cirq_pasqal qubits (coordinates are rounded at construction)',
            'numpy/pandas payload classes (Result, BitstringAccumulator, TensoredConfusionMatrices, CliffordTableau, ...), protobuf-backed classes (Calibration, GridDevice), device / noise-property classes, Gateset/GateFamily',
            'hash VALUES of symbolic numbers and of symbolic strings: hash agreement is decided only at concrete validation points / replays (json.*, eq.*) and in hist.*; Duration.__hash__ (goes through datetime.timedelta)',
            'MeasurementKey path components containing the separator ":" (precondition of key.*)',
            'json.lin.*: cirq.LinearCombinationOfGates / LinearCombinationOfOperations (LinearDict with a validator: to_json raises ValueError by design, nothing to round-trip); symbolic quantities INSIDE sympy coefficients (sympy cannot carry solver values: expressions come from a menu); LinearDict key types other than str / gates / qubits; numeric constants below 1e-13 in the code under test (symx prunes SNum terms with such constant factors as float residue, so e.g. a cleaning threshold of 1e-14 is seen only at the concrete validation points)',
        ],
    }
    root = os.path.dirname(os.path.dirname(os.path.abspath(__file__)))
    chfile = os.path.join(root, 'harness_ch', 'c11_keys.py')
    if replay:
        data = json.load(open(replay))
        if data.get('engine') == 'crosshair':
            import importlib

            mod = importlib.import_module('harness_ch.c11_keys')
            try:
                ok = bool(eval(data['call'], dict(vars(mod))))
            except Exception as e:
                ok = False
                print('  raised', type(e).__name__, e)
            print(f'replay {data["call"]} -> {"holds" if ok else "FAILS"}')
            if not ok:
                print(f'VIOLATION property={PID} replay={replay}')
                return 1
            return 0
    want_keys = replay is None and (not only or any(('key.' in s_) or s_.startswith('law_') or s_.startswith('twin_') or s_ == 'key' for s_ in only))
    h = None
    if want_keys:
        from symx.loadscale import factor as _lf

        h = CH.start(chfile, int((30 if tier == 'quick' else 150) * _lf()), {'C11_KEY_LEN': '2' if tier == 'quick' else '3'})
    rc = run_check(PID, tier, 'checks.C11', SHIMS, LEVEL, BASE_ASSUMPTIONS + CH_ASSUMPTIONS, bounds, seed=seed, replay=replay, only=only, procs=procs)
    if h is None:
        return rc
    res = CH.finish(h, 'harness_ch.c11_keys', only=[s_.replace('key.', '') for s_ in only] if only else None)
    evp = os.path.join(root, 'evidence', f"{PID}{os.environ.get('VERIF_EVIDENCE_SUFFIX', '') or ('.partial' if only else '')}.json")
    ev = json.load(open(evp))
    cov = ev['coverage']
    n_l, n_ok = len(res['laws']), sum(1 for v in res['laws'].values() if v.startswith('confirmed'))
    cov['crosshair'] = res
    cov['obligations'] += n_l
    cov['discharged'] += n_ok
    cov['twins']['total'] += len(res['twins'])
    cov['twins']['refuted'] += sum(1 for v in res['twins'].values() if v == 'refuted')
    cov['per_obligation'].update({'key.' + k: {'engine': 'crosshair', 'verdict': v} for k, v in res['laws'].items()})
    nviol = 0
    for i_, vtxt in enumerate(res['violations']):
        m = CH.CALL.search(vtxt)
        path = os.path.join(root, 'evidence', 'replays', f'{PID}-ch-{i_}.json')
        json.dump({'property': PID, 'engine': 'crosshair', 'obligation': 'key.' + vtxt.split(':')[0], 'call': m.group('call') if m else '', 'failure': vtxt}, open(path, 'w'), indent=1)
        print(f'  violation in key.{vtxt[:300]}')
        print(f'VIOLATION property={PID} replay={path}')
        nviol += 1
    for s_ in res['inconclusive']:
        print('INCONCLUSIVE: key.' + s_[:400])
    ev['violations'] += nviol
    if nviol:
        rc = 1
    elif res['inconclusive'] and rc == 0:
        rc = 2
    json.dump(ev, open(evp, 'w'), indent=1, default=str)
    print(f'{PID} [{tier}] crosshair: laws confirmed={n_ok}/{n_l} twins refuted={sum(1 for v in res["twins"].values() if v == "refuted")}/{len(res["twins"])} wall={res["wall_s"]}s exit={rc}')
    return rc


CH_ASSUMPTIONS = [
    "json.*: the json module is replaced by the documented tree semantics (oracles/json_model.py): dict -> object with str keys in insertion order, list/tuple -> array, default(o) for everything else, object_hook on every decoded object, inner objects first; symbolic scalars are leaves standing for the float/int/bool the caller would pass; resolver entry 'complex' keeps symbolic parts",
    "json.lin.*: same tree model, except that a symbolic scalar with an imaginary part stands for a Python complex and is therefore NOT a leaf: it is handed to the real CirqEncoder.default ('complex' branch) and rebuilt by the resolver entry 'complex' (oracles/json_model_complex.py)",
    'key.*: CrossHair 0.0.110 is trusted for "Confirmed over all paths"; string lengths bounded as listed; hash() of symbolic strings is not used in the contracts',
    'hist.*: bounded exploration: step menus and history length are finite; symbolic ingredients are the gate exponent / resolver value carried through every step',
]

"""Shared helpers for check modules."""
from __future__ import annotations

import itertools
import math

import numpy as np

from symx.explore import Obligation
from symx.snum import SNum

CORE_SHIM_MODULES = [
    'cirq.ops.eigen_gate',
    'cirq.ops.common_gates',
    'cirq.ops.fsim_gate',
    'cirq.ops.phased_x_gate',
    'cirq.ops.phased_x_z_gate',
    'cirq.ops.phased_iswap_gate',
    'cirq.ops.swap_gates',
    'cirq.ops.parity_gates',
    'cirq.ops.three_qubit_gates',
    'cirq.ops.diagonal_gate',
    'cirq.ops.two_qubit_diagonal_gate',
    'cirq.ops.global_phase_op',
    'cirq.ops.pauli_interaction_gate',
    'cirq.ops.common_channels',
    'cirq.ops.phase_gradient_gate' if False else 'cirq.ops.fourier_transform',
    'cirq.ops.identity',
    'cirq.ops.matrix_gates',
    'cirq.ops.controlled_gate',
    'cirq.ops.controlled_operation',
    'cirq.ops.raw_types',
    'cirq.ops.gate_operation',
    'cirq.protocols.unitary_protocol',
    'cirq.protocols.apply_unitary_protocol',
    'cirq.protocols.kraus_protocol',
    'cirq.protocols.mixture_protocol',
    'cirq.linalg.transformations',
    'cirq.linalg.combinators',
    'cirq.value.periodic_value',
    'cirq.value.angle',
    'cirq_ionq.ionq_native_gates',
]

BASE_ASSUMPTIONS = [
    'symbolic arithmetic is exact real/complex arithmetic with complex128 coefficients; rounding of individual float operations of the real code is outside the claim and absorbed by tol=1e-7; complex64 not modelled',
    'every symbolic variable is real and ranges over its declared box (listed in bounds); all finite selectors (choose) are exhausted',
    'cos/sin/exp of symbolic angles: identities following from angle addition are syntactic; otherwise unit-circle over-approximation for proofs and pi/4, pi/6 lattices for witnesses (counterexamples are replayed on the real code before being reported)',
    'module-global np/math/cmath and float/complex/int/round in the listed Cirq modules are replaced by proxies that pass symbolic values and defer to the real library for concrete data (stubs_installed)',
    'z3 is trusted; cvc5 cross-check is run only in the thorough tier',
]


def perturb(m):
    """wrong-oracle twin: shift one entry so the twin must be refuted"""
    from symx.proxy import isobj

    m = np.array(m, dtype=object) if not (isinstance(m, np.ndarray) and not isobj(m)) else np.array(m, dtype=complex)
    idx = tuple(s - 1 for s in m.shape)
    m[idx] = m[idx] * 1.0 + 0.01
    return m


def grid_points(names, values, extra=None, limit=12):
    """validation points: diagonal sweep over the repo-test-style values"""
    pts = []
    vals = list(values)
    for i in range(min(limit, len(vals))):
        env = {n: vals[(i + 3 * j) % len(vals)] for j, n in enumerate(names)}
        if extra:
            env.update(extra)
        pts.append(env)
    return pts


TEST_VALUES = [0.0, 0.25, -0.5, 1.0, 2.0, 0.5, -0.25, 3.7, -1.3, 1.5, -2.0, 0.123]


def unitary_ob(name, params, build, doc, desc='', expected=(), opts=None, choices=None, getter=None, points_values=None):
    """obligation: cirq.unitary(build(**params)) == doc(**params) for all params in their boxes.

    params: list of (name, lo, hi).  choices: list of (name, n) finite selectors passed as ints.
    """
    import cirq

    getter = getter or cirq.unitary

    def body(cx, wrong=False):
        kw = {}
        for n, lo, hi in params:
            kw[n] = cx.real(n, lo, hi)
        for n, k in choices or []:
            kw[n] = cx.choose(n, k)
        g = build(**kw)
        u = getter(g)
        d = doc(*kw.values())
        if wrong:
            d = perturb(d)
        cx.close(u, d, label=name)

    pts = []
    vals = points_values or TEST_VALUES
    ch = list(itertools.product(*[range(k) for _, k in (choices or [])])) or [()]
    for ci, cvals in enumerate(ch[:6]):
        extra = {'choose:' + n: v for (n, _), v in zip(choices or [], cvals)}
        for env in grid_points([p[0] for p in params], [v for v in vals], extra, limit=6 if choices else 10):
            # clip into the boxes
            ok = all(lo <= env[n] <= hi for n, lo, hi in params)
            if ok:
                pts.append(env)
    return Obligation(name, body, expected=expected, opts=opts or {}, twin=lambda cx: body(cx, wrong=True), points=pts, desc=desc)

"""C18: all views of measurement results tell the same story.

(A) cirq/value/digits.py : big_endian_bits_to_int / int_to_bits / digits_to_int / int_to_digits executed on
    symbolic (mathematical, unbounded-width) integers and symbolic digits; mutual-inverse laws, documented
    ValueErrors, the bin() fast path, widths 63/64/70.
(B) cirq/study/result.py : ResultDict built from numpy OBJECT arrays of symbolic digits
    (repetitions x instances x qubits); records<->measurements, data frame integers, histogram,
    _vectorized_histogram, multi_measurement_histogram, __add__, __eq__, JSON/_pack_digits round trip, str.
(C) SimulatesSamples.run_sweep_iter / Sampler entry points carrying symbolic records (plumbing, bounded).
(D) cirq/work/sampler.py : Sampler.sample over scripted samplers returning symbolic records: the pandas frame
    (parameter columns, key columns, index) against the underlying runs, for `params` that expand to several
    sweeps listing their symbols in different orders; parameter values and repetitions symbolic
    (sweep semantics written from the documentation in oracles/sweep_shapes.py).
"""
from __future__ import annotations

import itertools

import numpy as np

from checks.common import BASE_ASSUMPTIONS
from oracles.meas_views import AND, B2I, EQ, IFF, LE, LT, NOT, OR, bits_value, counter_matches, in_range, py, radix_value, seq_eq, tuple_eq, weights
from symx.explore import Obligation
from symx.hint import hint
from symx.run import run_check

PID = 'C18'

SHIMS: list = []  # no np/math/builtin proxies are needed: real numpy runs on the object arrays

# fixed bit pattern used for the NON-symbolic positions of wide (>= 63 bit) registers
_PATTERN = int('1011001110001111010110' * 6, 2)


def pat_bit(i):
    return (_PATTERN >> i) & 1


# =============================================================================================
# pandas stub (symbolic mode only): pd.DataFrame(dict-of-symbolic-columns) -> recorder
# =============================================================================================
class FrameRecorder:
    """what pandas.DataFrame(dict, dtype=...) is documented to build, kept as plain data:
    one column per dict key (insertion order), row i = i-th entry of every column, requested dtype."""

    def __init__(self, data, dtype):
        self.columns = list(data.keys())
        self.cols = {k: list(np.asarray(v, dtype=object).reshape(-1)) for k, v in data.items()}
        self.dtype = dtype


def _has_sym(v):
    from symx.sint import SBool, SInt

    if isinstance(v, np.ndarray) and v.dtype == object:
        return any(isinstance(e, (SInt, SBool)) for e in v.reshape(-1))
    return False


def _as_object_frame(rec):
    """the real pandas frame that the recorder stands for: what pandas.DataFrame(dict-of-columns) is documented
    to build (one column per key in insertion order, RangeIndex), with OBJECT dtype so that it can hold symbolic
    integers.  Used only to hand Result.data of a symbolic result to REAL pandas.concat inside Sampler.sample."""
    import pandas as real_pd

    data = {}
    for c in rec.columns:
        col = np.empty(len(rec.cols[c]), dtype=object)
        for i, v in enumerate(rec.cols[c]):
            col[i] = v
        data[c] = col
    return real_pd.DataFrame(data, dtype=object)


def worker_setup():
    """install the pd stubs into cirq.study.result / cirq.work.sampler (worker processes only)"""
    import types

    import pandas as real_pd

    import cirq.study.result as R
    import cirq.value.digits as DG
    import cirq.work.sampler as WS
    from symx.proxy import IntShim

    # big_endian_digits_to_int accumulates with int(d): the shim passes symbolic integers through
    # (isinstance(x, int) stays true for real ints and for SInt)
    DG.__dict__['int'] = IntShim
    stubs = ['cirq.study.result.pd.DataFrame (recorder for symbolic columns; real pandas otherwise)', 'cirq.value.digits.int (IntShim: int(x) passes symbolic integers through)',
             'cirq.work.sampler.pd.concat (a recorder frame coming from Result.data is first turned into the real object-dtype DataFrame it stands for; DataFrame(rows, columns) and both concat calls are REAL pandas on object columns)']
    if isinstance(R.pd, types.ModuleType) and getattr(R.pd, '_c18_stub', False):
        return stubs

    class PdStub(types.ModuleType):
        _c18_stub = True

        def __getattr__(self, name):
            return getattr(real_pd, name)

        @staticmethod
        def DataFrame(data=None, *a, dtype=None, **k):
            if isinstance(data, dict) and any(_has_sym(v) for v in data.values()):
                return FrameRecorder(data, dtype)
            return real_pd.DataFrame(data, *a, dtype=dtype, **k)

    class SamplerPdStub(types.ModuleType):
        _c18_stub = True

        def __getattr__(self, name):
            return getattr(real_pd, name)

        @staticmethod
        def concat(objs, *a, **k):
            objs = [_as_object_frame(o) if isinstance(o, FrameRecorder) else o for o in objs]
            return real_pd.concat(objs, *a, **k)

    R.pd = PdStub('pandas')
    WS.pd = SamplerPdStub('pandas')
    return stubs


def frame_view(df):
    """(columns, {column: [values]}, {column: is_object_dtype}) of a real DataFrame or the recorder"""
    if isinstance(df, FrameRecorder):
        isobj = df.dtype is object or (df.dtype is not None and np.dtype(df.dtype) == np.dtype(object))
        return list(df.columns), df.cols, {c: isobj for c in df.columns}
    cols = list(df.columns)
    return cols, {c: [py(v) for v in df[c].tolist()] for c in cols}, {c: df.dtypes[c] == object for c in cols}


# =============================================================================================
# symbolic record arrays
# =============================================================================================
def sym_array(cx, name, shape, his, sym_pos=None, mk=hint, concrete_dtype=np.int64):
    """array of digits; entry [.., j] ranges over 0..his[j].  sym_pos: set of last-axis positions that are
    symbolic (None = all); the others carry the fixed pattern.  Returns (array, nested list of the same
    values) -- the nested list is the oracle's view of the input."""
    concrete = cx.mode == 'concrete'
    a = np.zeros(shape, dtype=concrete_dtype) if concrete else np.empty(shape, dtype=object)
    for idx in np.ndindex(*shape):
        j = idx[-1]
        if sym_pos is None or j in sym_pos:
            v = mk(cx, name + '_' + '_'.join(map(str, idx)), 0, his[j])
        else:
            v = pat_bit(j + 7 * sum(idx[:-1])) % (his[j] + 1)
        a[idx] = v
    nested = np.empty(shape, dtype=object)
    for idx in np.ndindex(*shape):
        nested[idx] = py(a[idx])
    return a, nested.tolist()


def sym_records(cx, spec, reps, prefix='', concrete_dtype=np.int64):
    """spec: list of (key, instances, [base per qubit], sym_pos or None)"""
    recs, D = {}, {}
    for ki, (key, inst, bases, sym_pos) in enumerate(spec):
        a, d = sym_array(cx, f'{prefix}{key if key.isalnum() else ki}', (reps, inst, len(bases)), [b - 1 for b in bases], sym_pos, concrete_dtype=concrete_dtype)
        recs[key], D[key] = a, d
    return recs, D


def _twin(body):
    return lambda cx: body(cx, wrong=True)


# =============================================================================================
# (A) digits.py
# =============================================================================================
def digits_obligations(tier):
    import cirq

    thorough = tier != 'quick'
    obs = []

    # ---- A1 bits -> int (the function itself forks on every symbolic bit) ----------------------
    menu = [(5, None, False), (3, None, True), (0, None, False), (1, None, False), (2, None, False), (4, None, False), (6, None, False),
            (63, {0, 1, 31, 62}, False), (64, {0, 32, 62, 63}, False), (70, {0, 1, 35, 68, 69}, False)]
    if thorough:
        menu += [(8, None, False), (9, None, False), (6, None, True), (70, {0, 5, 6, 33, 34, 63, 64, 69}, False), (65, {0, 1, 2, 64}, False)]

    def bits_to_int(cx, wrong=False):
        n, sym_pos, as_bool = menu[cx.choose('shape', len(menu))]
        bits = []
        for i in range(n):
            if sym_pos is None or i in sym_pos:
                bits.append(cx.bool(f'b{i}') if as_bool else cx.int(f'b{i}', 0, 1))
            else:
                bits.append(pat_bit(i))
        v = cirq.big_endian_bits_to_int(bits)
        ibits = [B2I(b) if as_bool else b for b in bits]
        cx.check(EQ(v, bits_value(ibits, little_endian=wrong)), 'bits_to_int(bits) == sum_i bits[i]*2^(n-1-i)')
        cx.check(seq_eq(cirq.big_endian_int_to_bits(v, bit_count=n), ibits), 'int_to_bits(bits_to_int(bits), n) == bits')
        cx.check(seq_eq(cirq.big_endian_int_to_digits(v, base=[2] * n), ibits), 'int_to_digits(bits_to_int(bits), base=[2]*n) == bits')
        if n:
            cx.check(seq_eq(cirq.big_endian_int_to_digits(v, digit_count=n, base=2), ibits), 'int_to_digits(.., digit_count=n, base=2) [bin() fast path] == bits')
        if not as_bool:
            cx.check(EQ(cirq.big_endian_digits_to_int(bits, base=2), v), 'digits_to_int(bits, base=2) == bits_to_int(bits)')

    obs.append(Obligation(
        'digits.bits_to_int', bits_to_int, twin=_twin(bits_to_int), opts={'weight': 3, 'depth_limit': 2000},
        points=[{'choose:shape': i} for i in (0, 1, 7, 9)],
        desc='big_endian_bits_to_int on n symbolic bits (n<=6 quick / <=9 thorough all symbolic; widths 63/64/70 with 4-8 symbolic positions, rest a fixed pattern; ints and bools) == sum b_i 2^(n-1-i); int_to_bits, int_to_digits (general and bin() fast path) and digits_to_int(base=2) invert / agree on the result',
    ))

    # ---- A2 int -> bits: symbolic integer of ANY sign/size given by its binary expansion ---------
    def horner(k, ds, bl):
        """pref[m] = integer denoted by (k; d_0 .. d_(m-1)) : pref[0] = k, pref[m] = pref[m-1]*b_(m-1) + d_(m-1)"""
        pref = [k]
        for d, b in zip(ds, bl):
            pref.append(pref[-1] * b + d)
        return pref

    def int_to_bits_ob(name, widths, weight):
        def int_to_bits(cx, wrong=False):
            n = widths[cx.choose('bit_count', len(widths))]
            # val = k*2^n + sum_j x_j 2^(n-1-j) : every integer in [-4*2^n, 4*2^n) has exactly one such form
            k = cx.int('k', -4, 3)
            xs = [cx.int(f'x{j}', 0, 1) for j in range(n)]  # xs[0] = bit of weight 2^(n-1)
            pref = horner(k, xs, [2] * n)
            val = pref[n]
            bits = cirq.big_endian_int_to_bits(val, bit_count=n)
            cx.check(len(bits) == n, 'len(bits) == bit_count')
            # proof hints: floor(val / 2^i) is the expansion without its last i bits (PROVED before it is used)
            for i in range(n):
                lem = EQ(val >> i, pref[n - i])
                cx.check(lem, f'lemma: val >> {i} == (k; x_0..x_(n-1-{i}))')
                cx.assume(lem)
            exp = xs[::-1] if wrong else xs  # big endian: bits[0] is the 2^(n-1) bit
            cx.check(seq_eq(bits, exp), 'int_to_bits(val, n)[i] == bit of weight 2^(n-1-i) of val mod 2^n (twos complement for val<0, high bits dropped)')

        return Obligation(
            name, int_to_bits, twin=_twin(int_to_bits), opts={'weight': weight},
            points=[{'choose:bit_count': i} for i in range(min(3, len(widths)))],
            desc=f'big_endian_int_to_bits(val, bit_count=n) for val = k*2^n + sum x_j 2^(n-1-j) with ALL n bits x_j and k in [-4,3] symbolic (covers every integer in [-4*2^n, 4*2^n): negatives = twos complement, oversize = high bits dropped), n in {widths}',
        )

    obs.append(int_to_bits_ob('digits.int_to_bits', [5, 1, 0, 2, 3, 8] + ([16, 33] if thorough else []), 2))
    for wdt in [63, 64, 70] + ([71, 96] if thorough else []):
        obs.append(int_to_bits_ob(f'digits.int_to_bits[{wdt}]', [wdt], 3))

    # ---- A2b raw symbolic integer (no harness-provided expansion), small widths ------------------
    def int_to_bits_raw(cx, wrong=False):
        n = cx.choose('bit_count', 5)
        val = cx.int('val', -40, 40)
        bits = cirq.big_endian_int_to_bits(val, bit_count=n)
        cx.check(AND([AND([LE(0, b), LE(b, 1)]) for b in bits]) if bits else True, 'bits in {0,1}')
        s = bits_value(bits, little_endian=False)
        if wrong:
            s = s + 1
        cx.check(EQ((val - s) % (2**n), 0), 'sum bits[i] 2^(n-1-i) == val (mod 2^n)')
        back = cirq.big_endian_bits_to_int(bits)  # forks on the symbolic bits
        cx.check(EQ(back, val % (2**n)), 'bits_to_int(int_to_bits(val, n)) == val mod 2^n')

    obs.append(Obligation(
        'digits.int_to_bits_raw', int_to_bits_raw, twin=_twin(int_to_bits_raw),
        points=[{'choose:bit_count': 3}, {'choose:bit_count': 4}],
        desc='int_to_bits on an unconstrained symbolic integer val in [-40,40], bit_count 0..4: bits are 0/1, sum == val mod 2^n, bits_to_int inverts modulo 2^n',
    ))

    # ---- A3 digits -> int, mixed radix, and back ---------------------------------------------------
    base_menu = [[2, 3, 4], 3, [4, 3, 2], 10, 2, [], [5], [1, 5], (2, 2, 2, 2), [3, 1, 2, 7], [7, 2, 5, 3, 2]]
    n_for_int = {2: 4, 3: 3, 10: 3}
    if thorough:
        base_menu += [[2, 3, 4, 5, 6, 7], 16, [10, 1, 10]]
        n_for_int[16] = 4
    wide_bases = [[3] * 45, [2] * 70, [2**16, 3, 2**31, 5, 2**20, 7]]  # products 3^45 ~ 2^71, 2^70, ~2^74

    def norm(base, cx=None):
        if isinstance(base, int):
            return [base] * n_for_int[base]
        return list(base)

    def digits_to_int_ob(name, menu, wide, weight):
        def digits_to_int(cx, wrong=False):
            base = menu[cx.choose('base', len(menu))]
            bl = norm(base)
            n = len(bl)
            # narrow: digits range over [-1, b] so that both out-of-range sides are reachable
            ds = [cx.int(f'd{i}', 0 if wide else -1, b - 1 if wide else b) for i, b in enumerate(bl)]
            ok = in_range(ds, bl)
            try:
                v = cirq.big_endian_digits_to_int(ds, base=base)
            except ValueError:
                cx.check(NOT(ok), 'digits_to_int raises ValueError only if a digit is outside [0, base)')
                return
            cx.check(ok, 'digits_to_int returns only if every digit is inside [0, base)')
            cx.assume(ok)
            cx.check(EQ(v, radix_value(ds, bl, little_endian=wrong)), 'digits_to_int(digits, base) == sum_i d_i prod_(j>i) b_j')
            # inverse: int_to_digits(v) == digits ; proof hints for the long division
            pref = horner(0, ds, bl)
            q = v
            for t in range(n):  # t-th step strips base bl[n-1-t]
                q = q // bl[n - 1 - t]
                lem = EQ(q, pref[n - 1 - t])
                cx.check(lem, f'lemma: quotient after {t + 1} long-division steps == value of the first {n - 1 - t} digits')
                cx.assume(lem)
            back = cirq.big_endian_int_to_digits(v, base=bl)
            cx.check(seq_eq(back, ds), 'int_to_digits(digits_to_int(digits, base), base) == digits')
            if isinstance(base, int):
                back = cirq.big_endian_int_to_digits(v, digit_count=n, base=base)  # base 2: bin() fast path forks over values
                cx.check(seq_eq(back, ds), 'int_to_digits(digits_to_int(digits, b), digit_count=n, base=b) == digits')

        return Obligation(
            name, digits_to_int, twin=_twin(digits_to_int), opts={'weight': weight, 'int_fork_limit': 300},
            points=[{'choose:base': i} for i in range(0, len(menu), 3)],
            desc='big_endian_digits_to_int with ALL digits symbolic' + (' (range [-1, b] so the documented ValueError is reachable)' if not wide else '') + f' over the base menu {_menu_str(menu)}: value == sum d_i prod_(j>i) b_j, ValueError iff a digit is out of range, int_to_digits inverts',
        )

    obs.append(digits_to_int_ob('digits.digits_to_int', base_menu, False, 2))
    for wi, wb in enumerate(wide_bases):
        obs.append(digits_to_int_ob(f'digits.digits_to_int[wide{wi}]', [wb], True, 3))

    def digits_len_mismatch(cx, wrong=False):
        nb = cx.choose('nbase', 4)
        nd = cx.choose('ndigits', 4)
        ds = [cx.int(f'd{i}', 0, 1) for i in range(nd)]
        raised = False
        try:
            cirq.big_endian_digits_to_int(ds, base=[2] * nb)
        except ValueError:
            raised = True
        cx.check(raised == ((nb != nd) != wrong), 'digits_to_int raises ValueError iff len(base list) != len(digits)')
        raised = False
        v = 0
        try:
            cirq.big_endian_int_to_digits(v, digit_count=nd, base=[2] * nb)
        except ValueError:
            raised = True
        cx.check(raised == (nb != nd), 'int_to_digits raises ValueError iff digit_count != len(base list)')
        raised = False
        try:
            cirq.big_endian_int_to_digits(v, base=3)
        except ValueError:
            raised = True
        cx.check(raised, 'int_to_digits(base=int) without digit_count raises ValueError')

    obs.append(Obligation(
        'digits.length_errors', digits_len_mismatch, twin=_twin(digits_len_mismatch),
        desc='documented ValueErrors for inconsistent lengths (digits vs per-digit bases, digit_count vs bases, missing digit_count)',
    ))

    # ---- A4 int -> digits on a symbolic integer given by its mixed-radix expansion ------------------
    def int_to_digits_ob(name, menu, weight):
        def int_to_digits(cx, wrong=False):
            base = menu[cx.choose('base', len(menu))]
            bl = norm(base)
            n = len(bl)
            with_count = cx.choose('with_digit_count', 2) == 1
            if isinstance(base, int) and not with_count:
                raise_infeasible()
            fast = isinstance(base, int) and base == 2 and with_count and n > 0
            # val = k*P + sum d_i w_i (P = prod(bases)); documented domain is 0 <= val < P  <=>  k == 0
            k = cx.int('k', 0 if fast else -2, 1 if fast else 2)
            ds = [cx.int(f'd{i}', 0, b - 1) for i, b in enumerate(bl)]
            pref = horner(k, ds, bl)
            val = pref[n]
            # proof hints (as above): the quotients of the long division
            q = val
            for t in range(n):
                q = q // bl[n - 1 - t]
                lem = EQ(q, pref[n - 1 - t])
                cx.check(lem, f'lemma: quotient after {t + 1} long-division steps == (k; first {n - 1 - t} digits)')
                cx.assume(lem)
            kw = {'digit_count': n} if with_count else {}
            try:
                out = cirq.big_endian_int_to_digits(val, base=base, **kw)
            except ValueError:
                cx.check(NOT(EQ(k, 0)), 'int_to_digits raises ValueError only if val is outside [0, prod(bases))')
                return
            cx.check(EQ(k, 0), 'int_to_digits returns only if 0 <= val < prod(bases)')
            cx.assume(EQ(k, 0))
            exp = ds[::-1] if wrong else ds
            cx.check(seq_eq(out, exp), 'int_to_digits(val)[i] == digit of weight prod_(j>i) b_j')
            cx.check(in_range(out, bl), 'every returned digit is in [0, base)')
            cx.check(EQ(cirq.big_endian_digits_to_int(out, base=base), val), 'digits_to_int(int_to_digits(val, base), base) == val')

        return Obligation(
            name, int_to_digits, twin=_twin(int_to_digits), opts={'weight': weight, 'int_fork_limit': 300},
            points=[{'choose:base': i, 'choose:with_digit_count': i % 2} for i in range(0, len(menu), 3)],
            desc=f'big_endian_int_to_digits(val) for val = k*prod(b) + sum d_i w_i with ALL digits d_i and k in [-2,2] symbolic (every integer in [-2P, 3P)), base menu {_menu_str(menu)}, with and without digit_count: digits == d_i, ValueError iff val outside [0,P) (general path); base=2 with digit_count takes the bin() fast path, explored per value for val in [0, 2P); digits_to_int inverts',
        )

    obs.append(int_to_digits_ob('digits.int_to_digits', base_menu, 2))
    for wi, wb in enumerate(wide_bases):
        obs.append(int_to_digits_ob(f'digits.int_to_digits[wide{wi}]', [wb], 4))

    # ---- A4b bin() fast path at widths 63/64/70 (few symbolic bits: bin() needs the concrete value) ---
    wide_fast = [(70, [0, 1, 35, 68, 69]), (64, [0, 31, 32, 63]), (63, [0, 1, 61, 62])] + ([(70, [0, 2, 33, 34, 62, 63, 64, 69])] if thorough else [])

    def int_to_digits_fast_wide(cx, wrong=False):
        n, pos = wide_fast[cx.choose('shape', len(wide_fast))]
        xs = {j: (cx.int(f'x{j}', 0, 1) if j in pos else pat_bit(j)) for j in range(n)}  # weight 2^j
        val = 0
        for j in range(n):
            val = val + xs[j] * 2**j
        out = cirq.big_endian_int_to_digits(val, digit_count=n, base=2)
        v = int(val)  # bin() inside the code has pinned val to ONE value on this path; read it back (no new fork)
        exp = [(v >> (n - 1 - i)) & 1 for i in range(n)]  # binary digits of that value, most significant first
        if wrong:
            exp = exp[::-1]
        cx.check(len(out) == n and all(py(a) == b for a, b in zip(out, exp)), 'int_to_digits(val, digit_count=n, base=2)[i] == bit of weight 2^(n-1-i)')
        cx.check(EQ(cirq.big_endian_bits_to_int(out), v), 'bits_to_int inverts')
        # and the value the code saw is the one the symbolic bits denote
        cx.check(EQ(val, v), 'path value consistent')

    obs.append(Obligation(
        'digits.int_to_digits_fast_wide', int_to_digits_fast_wide, twin=_twin(int_to_digits_fast_wide), opts={'int_fork_limit': 300},
        points=[{'choose:shape': 0}],
        desc='bin() fast path of int_to_digits at digit_count 63/64/70 (4-8 symbolic bit positions, others fixed pattern; bin() concretises so each value is a path)',
    ))

    def int_to_digits_raw(cx, wrong=False):
        bl = [[2, 3], [3, 2, 2], [4]][cx.choose('base', 3)]
        P = _prod(bl)
        val = cx.int('val', -3, P + 3)
        inside = AND([LE(0, val), LT(val, P)])
        try:
            out = cirq.big_endian_int_to_digits(val, base=bl)
        except ValueError:
            cx.check(NOT(inside), 'ValueError only outside [0, P)')
            return
        cx.check(inside, 'returns only inside [0, P)')
        cx.check(in_range(out, bl), 'digits in range')
        s = radix_value(out, bl)
        cx.check(EQ(s + (1 if wrong else 0), val), 'sum d_i w_i == val')

    obs.append(Obligation(
        'digits.int_to_digits_raw', int_to_digits_raw, twin=_twin(int_to_digits_raw),
        points=[{'choose:base': 0}, {'choose:base': 1}],
        desc='int_to_digits on an unconstrained symbolic integer in [-3, P+3] (no expansion supplied by the harness), bases [2,3], [3,2,2], [4]',
    ))
    return obs


# =============================================================================================
# (B) study/result.py
# =============================================================================================
def _b(n):
    return [2] * n


def result_obligations(tier):
    import cirq

    thorough = tier != 'quick'
    obs = []
    REPS = [2, 3, 1, 0] + ([4] if thorough else [])

    # ---- B1 records <-> measurements, repetitions -----------------------------------------------
    specs1 = [[('a', 1, _b(3), None)], [('b', 1, _b(2), None), ('a', 1, [3, 2, 4], None), ('c', 1, _b(0), None)], [('a', 2, _b(2), None)], [('x', 1, _b(4), None), ('y', 2, [3], None)], []]
    for inst in (1, 2):
        for q in range(5):
            if (inst, q) not in ((1, 3), (2, 2)):
                specs1.append([('k', inst, _b(q), None)])
    if thorough:
        specs1 += [[('k', 3, _b(2), None)], [('k', 1, _b(5), None), ('l', 1, _b(5), None), ('m', 1, [5, 5], None)]]

    def views(cx, wrong=False):
        spec = specs1[cx.choose('spec', len(specs1))]
        reps = REPS[cx.choose('reps', len(REPS))]
        recs, D = sym_records(cx, spec, reps)
        res = cirq.ResultDict(records=recs)
        cx.check(res.repetitions == (reps if spec else 0), 'repetitions == first axis of the records')
        conds = [list(res.records.keys()) == [k for k, *_ in spec]]
        for key, inst, bases, _ in spec:
            a = res.records[key]
            conds.append(a.shape == (reps, inst, len(bases)))
            conds.append(tuple_eq(a.tolist(), D[key]))
        cx.check(AND(conds), 'records view returns the arrays given')
        flat_ok = all(inst == 1 for _, inst, _, _ in spec)
        if not flat_ok:
            raised = False
            try:
                res.measurements
            except ValueError:
                raised = True
            cx.check(raised != wrong, '.measurements raises ValueError when a key is measured more than once per repetition')
            return
        m = res.measurements
        conds = [list(m.keys()) == [k for k, *_ in spec]]
        for key, inst, bases, _ in spec:
            q = len(bases)
            conds.append(m[key].shape == (reps, q))
            for r in range(reps):
                for j in range(q):
                    conds.append(EQ(m[key][r, j], D[key][r][0][q - 1 - j if wrong else j]))
        cx.check(AND(conds), 'measurements[key][r][q] == records[key][r][0][q]')
        # other direction: constructed from 2-D measurements
        meas = {}
        for key, inst, bases, _ in spec:
            a2 = np.empty((reps, len(bases)), dtype=recs[key].dtype)
            for r in range(reps):
                for j in range(len(bases)):
                    a2[r, j] = D[key][r][0][j]
            meas[key] = a2
        res2 = cirq.ResultDict(measurements=meas)
        conds = [res2.repetitions == (reps if spec else 0), list(res2.records.keys()) == [k for k, *_ in spec]]
        for key, inst, bases, _ in spec:
            conds.append(res2.records[key].shape == (reps, 1, len(bases)))
            conds.append(tuple_eq(res2.records[key].tolist(), D[key]))
        cx.check(AND(conds), 'records[key][r][0][q] == measurements[key][r][q] for a result built from measurements')

    obs.append(Obligation(
        'result.records_measurements', views, twin=_twin(views),
        points=[{'choose:spec': i, 'choose:reps': j} for i, j in ((0, 0), (1, 1), (2, 0), (3, 2))],
        desc='ResultDict(records=symbolic object arrays reps x instances x qubits): .records, .measurements (reshape), .repetitions, ValueError for repeated keys, and ResultDict(measurements=...).records; every instances in {1,2} x qubits 0..4 single-key shape, multi-key/qudit shapes, reps 0..3',
    ))

    # ---- B2 data frame of big-endian integers -----------------------------------------------------
    specs2 = [[('a', 1, _b(4), None)], [('b', 1, _b(3), None), ('a', 1, _b(1), None)], [('b', 1, _b(2), None), ('a', 1, _b(0), None), ('c', 1, _b(4), None)],
              [('w', 1, _b(63), None)], [('w', 1, _b(64), None), ('a', 1, _b(2), None)], [('a', 1, _b(3), None), ('w', 1, _b(70), None)], []]
    if thorough:
        specs2 += [[('w', 1, _b(65), None), ('v', 1, _b(62), None)], [('a', 1, _b(6), None), ('b', 1, _b(5), None)], [('w', 1, _b(100), None)]]

    def data(cx, wrong=False):
        spec = specs2[cx.choose('spec', len(specs2))]
        reps = REPS[cx.choose('reps', len(REPS))]
        recs, D = sym_records(cx, spec, reps)
        res = cirq.ResultDict(records=recs)
        cols, vals, isobj = frame_view(res.data)
        cx.check(cols == [k for k, *_ in spec], 'data frame has one column per key, in key order')
        want_obj = any(len(b) > 63 for _, _, b, _ in spec)
        conds = []
        for key, _, bases, _ in spec:
            conds.append(len(vals[key]) == reps)
            conds.append(bool(isobj[key]) == want_obj)
            for r in range(min(reps, len(vals[key]))):
                conds.append(EQ(vals[key][r], bits_value(D[key][r][0], little_endian=wrong)))
        cx.check(AND(conds), 'data[key][r] == big-endian integer of measurements[key][r] (exact, also beyond 64 bits)')
        cols2, vals2, _ = frame_view(cirq.Result.dataframe_from_measurements(res.measurements))
        cx.check(cols2 == cols and tuple_eq([vals2[c] for c in cols2], [vals[c] for c in cols]), 'dataframe_from_measurements(measurements) == data')

    obs.append(Obligation(
        'result.data', data, twin=_twin(data), opts={'weight': 2},
        points=[{'choose:spec': i, 'choose:reps': j} for i, j in ((0, 0), (1, 1), (3, 0), (4, 1), (5, 0), (2, 3))],
        desc='Result.data / dataframe_from_measurements on symbolic bits (ALL bits symbolic, widths 0..4 and 63/64/70): every entry equals sum_i bit_i 2^(n-1-i) as a mathematical integer, columns in key order, object dtype iff some key has more than 63 bits (pandas constructor replaced by a recorder for symbolic columns)',
    ))

    # ---- B3 histogram --------------------------------------------------------------------------------
    q0, q1 = cirq.LineQubit.range(2)
    fold_lin = lambda row: 3 * row[0] + row[-1]
    fold_tup = lambda row: tuple(row)
    BIG = 2**32
    # (label, key string, bases per qubit, sym positions, kwargs, oracle bases or callable, eq)
    hmodes = [
        ('default', 'a', _b(4), None, {}, 'radix', EQ),
        ('fold_base=3', 'a', [3, 3, 3], None, {'fold_base': 3}, 'radix', EQ),
        ('fold_base=[2,3,4]', 'a', [2, 3, 4], None, {'fold_base': [2, 3, 4]}, 'radix', EQ),
        ('fold_base=(4,1,3)', 'a', [4, 1, 3], None, {'fold_base': (4, 1, 3)}, 'radix', EQ),
        ('default,q=0', 'a', [], None, {}, 'radix', EQ),
        ('default,q=1', 'a', _b(1), None, {}, 'radix', EQ),
        ('fold_base=2^32 (beyond int64: falls back to digits_to_int)', 'a', [BIG, BIG], None, {'fold_base': BIG}, 'radix', EQ),
        ('default,64 bits (fallback bits_to_int)', 'w', _b(64), {0, 63}, {}, 'radix', EQ),
        ('default,63 bits (vectorized)', 'w', _b(63), {0, 1, 62}, {}, 'radix', EQ),
        ('default,70 bits', 'w', _b(70), {0, 69}, {}, 'radix', EQ),
        ('fold_func linear', 'a', [3, 3, 3], None, {'fold_func': fold_lin}, fold_lin, EQ),
        ('fold_func tuple', 'a', _b(3), None, {'fold_func': fold_tup}, fold_tup, tuple_eq),
        ('key given as qubits', 'q(0),q(1)', _b(2), None, {}, 'radix', EQ),
        ('fold_base=[5,2^62,3] (beyond int64)', 'a', [5, 2**62, 3], None, {'fold_base': [5, 2**62, 3]}, 'radix', EQ),
        ('_vectorized_histogram(batch_size=2): batches are merged', 'a', _b(3), None, {'batch_size': 2}, 'radix', EQ),
    ]

    def histogram(cx, wrong=False):
        label, key, bases, sym_pos, kw, oracle, eq = hmodes[cx.choose('mode', len(hmodes))]
        reps = REPS[cx.choose('reps', len(REPS))]
        # digits beyond 2^31 / folds beyond int64: the caller holds Python integers (object array) in concrete mode
        recs, D = sym_records(cx, [(key, 1, bases, sym_pos)], reps, prefix='h', concrete_dtype=object if max(bases + [2]) > 2**31 else np.int64)
        res = cirq.ResultDict(records=recs)
        if 'batch_size' in kw:
            h = res._vectorized_histogram(key, **kw)
        else:
            h = res.histogram(key=[q0, q1] if key.startswith('q(') else key, **kw)
        if oracle == 'radix':
            V = [radix_value(D[key][r][0], bases, little_endian=wrong) for r in range(reps)]
        else:
            V = [oracle(D[key][r][0][::-1] if wrong else D[key][r][0]) for r in range(reps)]
        cx.check(counter_matches(h, V, eq), f'histogram[{label}] counts the repetitions per folded value')

    obs.append(Obligation(
        'result.histogram', histogram, twin=_twin(histogram), opts={'weight': 5, 'depth_limit': 3000},
        points=[{'choose:mode': i, 'choose:reps': j} for i, j in ((0, 0), (1, 1), (2, 0), (6, 0), (7, 1), (8, 0), (10, 1), (11, 0), (12, 0), (13, 1), (14, 1))],
        desc='Result.histogram / _vectorized_histogram (np.unique on symbolic integers: paths = orderings of the repetitions) and the non-vectorized fallback (beyond int64, custom fold_func): default bits, fold_base int / list / tuple (mixed radix incl. base 1), 0 and 1 qubit, 63 vs 64 vs 70 bits, fold_func, key spelled as qubits; reps 0..3; Counter compared with the definition by a symbolic multiset formula',
    ))

    def histogram_errors(cx, wrong=False):
        reps = 2
        recs, D = sym_records(cx, [('a', 1, _b(2), None)], reps, prefix='h')
        res = cirq.ResultDict(records=recs)
        raised = False
        try:
            res.histogram(key='a', fold_func=fold_tup, fold_base=2)
        except ValueError:
            raised = True
        cx.check(raised != wrong, 'fold_func together with fold_base raises ValueError')
        raised = False
        try:
            res.histogram(key='a', fold_base=[2, 2, 2])
        except ValueError:
            raised = True
        cx.check(raised, 'fold_base list of the wrong length raises ValueError')
        recs2, _ = sym_records(cx, [('a', 2, _b(2), None)], reps, prefix='g')
        raised = False
        try:
            cirq.ResultDict(records=recs2).histogram(key='a')
        except ValueError:
            raised = True
        cx.check(raised, 'histogram of a repeated key raises ValueError (flattened views need one instance)')

    obs.append(Obligation('result.histogram_errors', histogram_errors, twin=_twin(histogram_errors), points=[{}],
                          desc='documented ValueErrors of histogram (fold_func+fold_base, wrong fold_base length, repeated key)'))

    # ---- B4 multi_measurement_histogram ---------------------------------------------------------------
    mspec = [('a', 1, _b(2), None), ('b', 1, _b(1), None), ('c', 1, _b(1), None)]
    sels = [()] + [s for n in (1, 2) for s in itertools.permutations('abc', n)] + ([s for s in itertools.permutations('abc', 3)] if thorough else [('a', 'b', 'c'), ('c', 'a', 'b')])
    sels.sort(key=lambda s: -len(s))
    fold_nested = lambda t: tuple(tuple(x) for x in t)

    def multi_ob(name, custom, weight):
        def multi(cx, wrong=False):
            sel = sels[cx.choose('keys', len(sels))]
            if custom:
                reps_menu = [2, 3, 1, 0]
            elif thorough:
                reps_menu = [2, 3, 1, 0] if len(sel) <= 2 else [2, 1, 0]
            else:
                reps_menu = [2, 1, 0]
            reps = reps_menu[cx.choose('reps', len(reps_menu))]
            recs, D = sym_records(cx, mspec, reps, prefix='m')
            res = cirq.ResultDict(records=recs)
            if custom:
                h = res.multi_measurement_histogram(keys=list(sel), fold_func=fold_nested)
                V = [tuple(tuple(D[k][r][0][::-1] if wrong else D[k][r][0]) for k in sel) for r in range(reps)]
            else:
                h = res.multi_measurement_histogram(keys=list(sel))
                V = [tuple(bits_value(D[k][r][0], little_endian=wrong) for k in sel) for r in range(reps)]
            cx.check(counter_matches(h, V, tuple_eq), 'multi_measurement_histogram counts the repetitions per tuple of folded values, keys in the requested order')

        return Obligation(
            name, multi, twin=_twin(multi), opts={'weight': weight, 'depth_limit': 3000, 'max_paths': 60000},
            points=[{'choose:keys': i, 'choose:reps': j} for i, j in ((0, 0), (0, 1), (3, 1), (5, 0), (len(sels) - 1, 0))],
            desc='multi_measurement_histogram on keys a (2 bits), b, c (1 bit) over every ordered selection of <=2 of the 3 keys + two 3-key orders (all 16 selections in thorough), '
            + ('custom structural fold_func (symbolic tuple keys; paths = partitions of the repetitions), reps 0..3' if custom else 'default fold (tuple of big-endian ints; big_endian_bits_to_int branches on every bit), reps 0..2 (thorough: 0..3 for <=2 keys)'),
        )

    obs.append(multi_ob('result.multi_histogram', False, 8))
    obs.append(multi_ob('result.multi_histogram_custom_fold', True, 3))

    # ---- B5 __add__ -------------------------------------------------------------------------------------
    aspecs = [[('a', 1, _b(3), None), ('b', 2, [3], None)], [('a', 1, _b(2), None)], [('a', 2, _b(2), None)], []]
    cases = ['ok', 'qubits differ', 'instances differ', 'keys differ', 'params differ', 'not a result']

    def add(cx, wrong=False):
        case = cases[cx.choose('case', len(cases))]
        spec = aspecs[cx.choose('spec', len(aspecs))]
        r1 = [1, 2, 0][cx.choose('reps1', 3)]
        r2 = [2, 1, 0][cx.choose('reps2', 3)]
        spec2 = list(spec)
        if case != 'ok' and (r1, r2) != (1, 2):
            raise_infeasible()
        if case in ('qubits differ', 'instances differ'):
            if not spec:
                raise_infeasible()
            k, inst, bases, sp = spec[0]
            spec2[0] = (k, inst, bases + [2], sp) if case == 'qubits differ' else (k, inst + 1, bases, sp)
        if case == 'keys differ':
            spec2 = spec2 + [('z', 1, _b(1), None)]
        recs1, D1 = sym_records(cx, spec, r1, prefix='A')
        recs2, D2 = sym_records(cx, spec2[::-1], r2, prefix='B')  # same keys, other dict order
        p1 = cirq.ParamResolver({'t': 0.5})
        p2 = cirq.ParamResolver({'t': 0.25}) if case == 'params differ' else cirq.ParamResolver({'t': 0.5})
        x = cirq.ResultDict(params=p1, records=recs1)
        y = cirq.ResultDict(params=p2, records=recs2)
        if case == 'not a result':
            raised = False
            try:
                x + 3
            except TypeError:
                raised = True
            cx.check(raised != wrong, 'result + non-result is a TypeError')
            return
        if case != 'ok':
            raised = False
            try:
                x + y
            except ValueError:
                raised = True
            cx.check(raised != wrong, f'adding results whose {case} raises ValueError')
            return
        z = x + y
        conds = [z.repetitions == ((r1 + r2) if spec else 0), z.params == p1, set(z.records.keys()) == {k for k, *_ in spec}]
        for key, inst, bases, _ in spec:
            exp = (D2[key] + D1[key]) if wrong else (D1[key] + D2[key])
            conds.append(z.records[key].shape == (r1 + r2, inst, len(bases)))
            conds.append(tuple_eq(z.records[key].tolist(), exp))
        cx.check(AND(conds), '(x + y).records[key] == x.records[key] followed by y.records[key] along repetitions')
        if all(inst == 1 for _, inst, _, _ in spec):
            conds = []
            for key, inst, bases, _ in spec:
                conds.append(tuple_eq(z.measurements[key].tolist(), [row[0] for row in D1[key] + D2[key]]))
            cx.check(AND(conds), '(x + y).measurements is the concatenation as well')

    obs.append(Obligation(
        'result.add', add, twin=_twin(add),
        points=[{'choose:case': c, 'choose:spec': s} for c, s in ((0, 0), (0, 1), (1, 0), (3, 1), (4, 0))],
        desc='Result.__add__ on symbolic records: concatenation along repetitions per key (reps 0..2 + 0..2, keys in different dict order, repeated keys, qudits), ValueError for different shapes / keys / params, TypeError for non-results',
    ))

    # ---- B6 __eq__ -----------------------------------------------------------------------------------------
    especs = [[('a', 1, _b(2), None)], [('a', 2, [3], None), ('b', 1, _b(1), None)]]

    def eq(cx, wrong=False):
        spec = especs[cx.choose('spec', len(especs))]
        reps = [2, 1][cx.choose('reps', 2)]
        variant = ['same shape', 'other reps', 'other key', 'other params'][cx.choose('variant', 4)]
        recs1, D1 = sym_records(cx, spec, reps, prefix='A')
        spec2 = spec if variant != 'other key' else [('zz',) + spec[0][1:]] + spec[1:]
        recs2, D2 = sym_records(cx, spec2, reps + (1 if variant == 'other reps' else 0), prefix='B')
        x = cirq.ResultDict(records=recs1)
        y = cirq.ResultDict(records=recs2, params=cirq.ParamResolver({'s': 1} if variant == 'other params' else {}))
        got = x == y
        cx.check(isinstance(got, (bool, np.bool_)), '== returns a truth value')
        if variant == 'same shape':
            exp = AND([tuple_eq(D1[k], D2[k]) for k, *_ in spec])
        else:
            exp = False
        cx.check(IFF(exp, bool(got) != wrong), 'results are equal iff same keys, same params and all record digits equal')

    obs.append(Obligation(
        'result.eq', eq, twin=_twin(eq), points=[{'choose:spec': 0}, {'choose:spec': 1, 'choose:variant': 1}],
        desc='Result.__eq__ on two symbolic results (np.array_equal forks on every digit comparison): True exactly when all digits coincide; differing reps / keys / params give False',
    ))

    # ---- B7 JSON / packed storage -------------------------------------------------------------------------
    jspecs = [[('a', 1, _b(3), None)], [('a', 2, _b(1), None), ('b', 1, _b(2), None)], [('a', 1, _b(0), None)], [('a', 1, _b(5), None)], []]
    if thorough:
        jspecs += [[('a', 2, _b(3), None)], [('a', 1, _b(9), None)]]

    def hex_bits(hexstr, count):
        """documented layout of np.packbits: row-major bits, 8 per byte, first bit = most significant, zero padded"""
        out = []
        for i in range(0, len(hexstr), 2):
            byte = int(hexstr[i : i + 2], 16)
            out += [(byte >> (7 - t)) & 1 for t in range(8)]
        return out[:count], out[count:]

    def json_rt(cx, wrong=False):
        spec = jspecs[cx.choose('spec', len(jspecs))]
        reps = [2, 1, 0][cx.choose('reps', 3)]
        if sum(reps * inst * len(b) for _, inst, b, _ in spec) > (10 if thorough else 8):
            raise_infeasible()
        recs, D = sym_records(cx, spec, reps, prefix='j')
        res = cirq.ResultDict(records=recs, params=cirq.ParamResolver({'t': 0.5}))
        jd = res._json_dict_()
        conds = [list(jd['records'].keys()) == [k for k, *_ in spec]]
        for key, inst, bases, _ in spec:
            e = jd['records'][key]
            flat = [d for row in D[key] for ins in row for d in ins]
            if wrong:
                flat = flat[::-1]
            bits, pad = hex_bits(e['packed_digits'], len(flat))
            conds += [e['binary'] is True, tuple(e['shape']) == (reps, inst, len(bases)), len(e['packed_digits']) == 2 * ((len(flat) + 7) // 8), all(p == 0 for p in pad)]
            conds.append(seq_eq(bits, flat))
        cx.check(AND(conds), 'packed_digits holds the record bits row-major, 8 per byte, most significant first, zero padded')
        back = cirq.read_json(json_text=cirq.to_json(res))
        conds = [back.params == res.params, list(back.records.keys()) == [k for k, *_ in spec]]
        for key, inst, bases, _ in spec:
            conds.append(back.records[key].shape == (reps, inst, len(bases)))
            conds.append(tuple_eq(back.records[key].tolist(), D[key]))
            if cx.mode == 'concrete':
                conds.append(back.records[key].dtype == recs[key].dtype)
        cx.check(AND(conds), 'read_json(to_json(result)).records == result.records')
        cx.check(back == res, 'the deserialised result compares equal')

    obs.append(Obligation(
        'result.json_bits', json_rt, twin=_twin(json_rt), opts={'weight': 4},
        points=[{'choose:spec': i, 'choose:reps': j} for i, j in ((0, 0), (1, 1), (3, 1))],
        desc='_json_dict_/_pack_digits/_unpack_digits/to_json/read_json on symbolic bits (the code concretises each bit via astype(bool): one path per bit pattern, <=8 bits quick / <=10 thorough): packed hex string decoded by the documented packbits layout equals the record bits; round trip returns the same records',
    ))

    def json_qudit(cx, wrong=False):
        shape = [(2, 1, 2), (1, 2, 1), (1, 1, 3)][cx.choose('shape', 3)]
        vals = np.zeros(shape, dtype=np.int64)
        for idx in np.ndindex(*shape):
            vals[idx] = int(cx.int('d' + '_'.join(map(str, idx)), 0, 2))  # harness-side concretisation: np.save is a C boundary
        for dt in (np.int64, np.uint8):
            a = vals.astype(dt)
            packed, binary = cirq.study.result._pack_digits(a)
            cx.check(binary == bool(np.all(vals <= 1)), 'binary packing is chosen exactly for 0/1 data')
            out = cirq.study.result._unpack_digits(packed, binary, a.dtype.name, a.shape)
            exp = vals[..., ::-1] if wrong else vals
            cx.check(out.shape == a.shape and out.dtype == a.dtype and bool(np.all(out == exp)), '_unpack_digits(_pack_digits(digits)) == digits')
        res = cirq.ResultDict(records={'k': vals})
        back = cirq.read_json(json_text=cirq.to_json(res))
        cx.check(bool(np.all(back.records['k'] == vals)) and back.records['k'].dtype == vals.dtype and back == res, 'JSON round trip of qudit records')

    obs.append(Obligation(
        'result.json_qudit', json_qudit, twin=_twin(json_qudit), opts={'weight': 2}, points=[{'choose:shape': 0}], kind='bounded-exploration',
        desc='SOLVER-DRIVEN BOUNDED EXPLORATION (digits concretised by the harness, because np.save/np.load are C boundaries): _pack_digits/_unpack_digits and JSON round trip for every array of digits 0..2 of shapes (2,1,2), (1,2,1), (1,1,3), dtypes int64/uint8',
    ))

    # ---- B8 str ---------------------------------------------------------------------------------------------
    sspecs = [([('b', 1, _b(2), None), ('a', 2, [3], None)], 1), ([('a', 1, _b(2), None)], 2), ([('a', 1, [11, 2], None)], 1), ([('a', 1, _b(1), None)], 3), ([('a', 1, _b(2), None)], 0)]

    def digit_str(vals):
        strs = [str(v) for v in vals]
        return ('' if all(len(s) == 1 for s in strs) else ' ').join(strs)

    def to_str(cx, wrong=False):
        spec, reps = sspecs[cx.choose('spec', len(sspecs))]
        from_meas = cx.choose('built_from_measurements', 2) == 1
        if from_meas and any(inst != 1 for _, inst, _, _ in spec):
            raise_infeasible()
        recs, D = sym_records(cx, spec, reps, prefix='s')
        if from_meas:
            res = cirq.ResultDict(measurements={k: v.reshape((reps, v.shape[2])) for k, v in recs.items()})
        else:
            res = cirq.ResultDict(records=recs)
        got = str(res)
        lines = []
        for key, inst, bases, _ in sorted(spec):
            for i in range(inst):
                if wrong:  # one string per repetition (the transposed, wrong reading)
                    parts = [digit_str([int(D[key][r][i][j]) for j in range(len(bases))]) for r in range(reps)]
                else:  # one string per qubit, running over the repetitions
                    parts = [digit_str([int(D[key][r][i][j]) for r in range(reps)]) for j in range(len(bases))]
                if reps == 0 and from_meas:
                    parts = []
                lines.append(f'{key}=' + ', '.join(parts))
        cx.check(got == '\n'.join(lines), 'str(result): per key (sorted) and instance one line key=..., one comma separated string per qubit listing its digit in every repetition')

    obs.append(Obligation(
        'result.str', to_str, twin=_twin(to_str), opts={'weight': 2, 'int_fork_limit': 64}, points=[{'choose:spec': 0}, {'choose:spec': 1, 'choose:built_from_measurements': 1}], kind='bounded-exploration',
        desc='str(ResultDict) on symbolic digits (str(int(v)) concretises every digit: one path per digit assignment; <=6 digits, incl. a two-character digit): line per sorted key/instance, per-qubit strings over repetitions',
    ))

    # ---- B9 vis.get_state_histogram ---------------------------------------------------------------------------
    vspecs = [[('a', 1, _b(2), None), ('b', 1, _b(1), None)], [('a', 1, _b(2), None)], [('b', 1, _b(1), None), ('a', 1, _b(0), None), ('c', 1, _b(1), None)]]

    def state_hist(cx, wrong=False):
        from cirq.vis.state_histogram import get_state_histogram

        spec = vspecs[cx.choose('spec', len(vspecs))]
        reps = [2, 1, 3][cx.choose('reps', 3 if thorough else 2)]
        recs, D = sym_records(cx, spec, reps, prefix='v')
        res = cirq.ResultDict(records=recs)
        vals = get_state_histogram(res)
        n = sum(len(b) for _, _, b, _ in spec)
        V = [bits_value([d for key, *_ in spec for d in D[key][r][0]], little_endian=wrong) for r in range(reps)]
        conds = [vals.shape == (2**n,)]
        for s in range(2**n):
            cnt = 0
            for v in V:
                cnt = cnt + B2I(EQ(v, s))
            conds.append(EQ(int(vals[s]), cnt))
        cx.check(AND(conds), 'get_state_histogram(result)[s] == number of repetitions whose concatenated bits (keys in order) read s big-endian')

    obs.append(Obligation(
        'vis.state_histogram', state_hist, twin=_twin(state_hist), opts={'weight': 2}, points=[{'choose:spec': 0}],
        desc='cirq.vis.get_state_histogram on symbolic bits (the code concretises each bit): counts per big-endian state over the concatenation of all keys',
    ))
    return obs


# =============================================================================================
# (C) sampler plumbing: symbolic records / repetition counts carried through the entry points
# =============================================================================================
def sampler_obligations(tier):
    import sympy

    import cirq

    thorough = tier != 'quick'
    obs = []
    q0, q1 = cirq.LineQubit.range(2)
    t = sympy.Symbol('t')
    prog_a = cirq.Circuit(cirq.X(q0) ** t, cirq.measure(q0, q1, key='m'), cirq.measure(q1, key='n'))
    prog_b = cirq.Circuit(cirq.X(q1) ** t, cirq.measure(q1, key='z'), cirq.measure(q1, key='z'))  # repeated key: 2 instances
    SPEC = {id(prog_a): [('m', 1, _b(2), None), ('n', 1, _b(1), None)], id(prog_b): [('z', 2, _b(1), None)]}
    NAME = {id(prog_a): 'a', id(prog_b): 'b'}

    def scripted(cx, base, async_only):
        """a sampler whose ONLY primitive returns fresh symbolic records and logs what it was asked"""
        log = []

        def produce(program, params, repetitions):
            out = []
            reps = int(repetitions)  # a symbolic repetition count is concretised here (bounded)
            for j, pr in enumerate(cirq.to_resolvers(params)):
                recs, D = sym_records(cx, SPEC[id(program)], reps, prefix=f'c{len(log)}{NAME[id(program)]}')
                log.append({'program': program, 'params': pr, 'repetitions': repetitions, 'D': D})
                out.append(cirq.ResultDict(params=pr, records=recs))
            return out

        if async_only:
            class S(base):
                async def run_sweep_async(self, program, params, repetitions=1):
                    return produce(program, params, repetitions)
        else:
            class S(base):
                def run_sweep(self, program, params, repetitions=1):
                    return produce(program, params, repetitions)
        return S(), log

    def same_run(cx, res, program, resolver, reps_sym, log, used):
        """condition: `res` is the result of exactly one logged primitive run for (program, resolver, reps)"""
        for i, e in enumerate(log):
            if i in used or e['program'] is not program or e['params'] != resolver:
                continue
            spec = SPEC[id(program)]
            if list(res.records.keys()) != [k for k, *_ in spec]:
                continue
            c = AND([EQ(e['repetitions'], reps_sym), res.params == resolver] + [tuple_eq(res.records[k].tolist(), e['D'][k]) for k, *_ in spec])
            if c is not False:
                used.add(i)
                return c
        return False

    entry = ['run', 'run_async', 'run_sweep', 'run_sweep_async', 'run_batch', 'run_batch_async', 'run_batch int reps', 'run_batch length errors']

    def entry_points(cx, wrong=False):
        import duet

        which = entry[cx.choose('entry', len(entry))]
        s, log = scripted(cx, cirq.Sampler, cx.choose('primitive_is_async', 2) == 1)
        r0 = cx.int('reps0', 0, 2)
        r1 = cx.int('reps1', 0, 2)
        sweep = cirq.Linspace('t', 0, 1, 3) if thorough else cirq.Points('t', [0.0, 1.0])
        resolvers = list(cirq.to_resolvers(sweep))
        used = set()
        if which in ('run', 'run_async'):
            pr = cirq.ParamResolver({'t': 0.5})
            res = s.run(prog_a, pr, r0) if which == 'run' else duet.run(s.run_async, prog_a, pr, r0)
            cx.check(same_run(cx, res, prog_a, pr, r1 if wrong else r0, log, used), f'{which} returns the result of the single underlying run')
        elif which in ('run_sweep', 'run_sweep_async'):
            out = s.run_sweep(prog_b, sweep, r0) if which == 'run_sweep' else duet.run(s.run_sweep_async, prog_b, sweep, r0)
            exp = resolvers[::-1] if wrong else resolvers
            cx.check(len(out) == len(resolvers) and AND([same_run(cx, o, prog_b, pr, r0, log, used) for o, pr in zip(out, exp)]), f'{which} returns one result per resolver, in sweep order')
        elif which in ('run_batch', 'run_batch_async', 'run_batch int reps'):
            programs = [prog_a, prog_b, prog_a]
            plist = [sweep, None, cirq.ParamResolver({'t': 0.25})]
            if which == 'run_batch int reps':
                reps_arg, reps_exp = 2, [2, 2, 2]
            else:
                reps_arg, reps_exp = [r0, r1, r0 + r1], [r0, r1, r0 + r1]
            out = s.run_batch(programs, plist, reps_arg) if which != 'run_batch_async' else duet.run(s.run_batch_async, programs, plist, reps_arg)
            exp_res = [resolvers, [cirq.ParamResolver({})], [cirq.ParamResolver({'t': 0.25})]]
            if wrong:
                reps_exp = reps_exp[::-1]
            conds = [len(out) == 3]
            for o, prog, prs, rr in zip(out, programs, exp_res, reps_exp):
                conds.append(len(o) == len(prs))
                conds += [same_run(cx, x, prog, pr, rr, log, used) for x, pr in zip(o, prs)]
            cx.check(AND(conds), f'{which}: outer list follows the programs, inner lists the sweeps, each with its own repetitions')
            cx.check(len(log) == sum(len(p) for p in exp_res), 'no extra underlying runs')
        else:
            for bad in ([[sweep], [1, 1]], [[sweep, None], [1]]):
                raised = False
                try:
                    s.run_batch([prog_a, prog_b], bad[0], bad[1])
                except ValueError:
                    raised = True
                cx.check(raised != wrong, 'run_batch raises ValueError when params_list / repetitions lengths differ from programs')

    obs.append(Obligation(
        'sampler.entry_points', entry_points, twin=_twin(entry_points), opts={'weight': 3}, kind='bounded-exploration',
        points=[{'choose:entry': i, 'choose:primitive_is_async': j} for i, j in ((0, 0), (3, 1), (4, 0), (5, 1), (6, 0))],
        desc='SOLVER-DRIVEN BOUNDED EXPLORATION of Sampler.run/run_async/run_sweep/run_sweep_async/run_batch/run_batch_async/_normalize_batch_args over a scripted sampler (only run_sweep, or only run_sweep_async, implemented) that returns fresh SYMBOLIC records; repetition counts are symbolic integers in [0,2] (per-program list r0, r1, r0+r1): every returned result is the result of the matching underlying run (program, resolver, repetitions), in documented order',
    ))

    # ---- Sampler.sample: the data frame tells the same story as the underlying run_sweep calls ------------
    from oracles.sweep_shapes import expand as expand_shape

    prog_c = cirq.Circuit(cirq.X(q0) ** t, cirq.measure(q1, key='z'), cirq.measure(q0, q1, key='k'))  # keys NOT in sorted order
    SPEC[id(prog_c)] = [('z', 1, _b(1), None), ('k', 1, _b(2), None)]
    NAME[id(prog_c)] = 'c'

    def build_sweepable(shape, pool):
        """the real cirq / Python objects a shape of oracles/sweep_shapes.py describes"""
        if shape is None:
            return None
        if isinstance(shape, list):
            return [build_sweepable(s, pool) for s in shape]
        kind = shape[0]
        if kind == 'points':
            return cirq.Points(shape[1], [pool[i] for i in shape[2]])
        if kind in ('zip', 'ziplongest', 'product', 'concat'):
            return {'zip': cirq.Zip, 'ziplongest': cirq.ZipLongest, 'product': cirq.Product, 'concat': cirq.Concat}[kind](*[build_sweepable(f, pool) for f in shape[1]])
        if kind == 'listsweep':
            return cirq.ListSweep([cirq.ParamResolver({name: pool[i] for name, i in kv}) if j % 2 else {name: pool[i] for name, i in kv} for j, kv in enumerate(shape[1])])
        mk = sympy.Symbol if kind.endswith(':sym') else str
        d = {mk(name): ([pool[j] for j in i] if isinstance(i, tuple) else pool[i]) for name, i in shape[1]}  # insertion order = listed order
        return cirq.ParamResolver(d) if kind.startswith('resolver') else d

    D_ = lambda *kv: ('dict', kv)
    R_ = lambda *kv: ('resolver', kv)
    P_ = lambda name, *idx: ('points', name, idx)
    Z_ = lambda *f: ('zip', f)
    ZL_ = lambda *f: ('ziplongest', f)
    X_ = lambda *f: ('product', f)
    C_ = lambda *f: ('concat', f)
    L_ = lambda *kvs: ('listsweep', kvs)
    OMIT = ('omit',)
    sample_shapes = [
        ('list of dicts whose keys are listed in different orders', [D_(('a', 0), ('b', 1)), D_(('b', 2), ('a', 3))]),
        ('list of Zip sweeps over the same symbols in different orders', [Z_(P_('a', 0, 1), P_('b', 2, 3)), Z_(P_('b', 4, 5), P_('a', 1, 2))]),
        ('list of Product sweeps over the same symbols in different orders', [X_(P_('a', 0, 1), P_('b', 2)), X_(P_('b', 3, 4), P_('a', 5, 0))]),
        ('mixed ParamResolver / dict / Zip / Product', [R_(('b', 0), ('a', 1)), D_(('a', 2), ('b', 3)), Z_(P_('b', 4), P_('a', 5)), X_(P_('a', 0), P_('b', 2))]),
        ('three symbols, the first sweep lists them unsorted', [D_(('c', 0), ('a', 1), ('b', 2)), Z_(P_('b', 3, 4), P_('c', 5, 0), P_('a', 1, 2)), R_(('b', 4), ('c', 3), ('a', 5))]),
        ('one Zip sweep (not a list), keys unsorted', Z_(P_('b', 0, 1), P_('a', 2, 3))),
        ('one 2x2 Product sweep, keys unsorted', X_(P_('b', 0, 1), P_('a', 2, 3))),
        ('params and repetitions omitted (defaults)', OMIT),
        ('params=None', None),
        ('single ParamResolver, keys unsorted', R_(('b', 0), ('a', 1))),
        ('single dict, one symbol', D_(('b', 0))),
        ('nested lists, ZipLongest (shorter factor repeats its last value)', [[D_(('b', 0), ('a', 1))], [ZL_(P_('a', 2), P_('b', 3, 4, 5)), [R_(('a', 0), ('b', 5))]]]),
        ('Product of a Zip and Points, then a dict in yet another order', [X_(Z_(P_('c', 0, 1), P_('a', 2, 3)), P_('b', 4, 5)), D_(('a', 1), ('b', 0), ('c', 3))]),
        ('dict with sequence values (implicit Cartesian product, one sweep per assignment)', D_(('b', (0, 1)), ('a', (2, 3)))),
        ('Concat of Zips, then a ListSweep of resolvers / dicts in different key orders', [C_(Z_(P_('b', 0), P_('a', 1)), Z_(P_('b', 2, 3), P_('a', 4, 5))), L_((('a', 0), ('b', 1)), (('b', 2), ('a', 3)), (('b', 4), ('a', 5)))]),
        ('dict and ParamResolver keyed by sympy.Symbol next to ones keyed by name', [('dict:sym', (('b', 0), ('a', 1))), R_(('a', 2), ('b', 3)), ('resolver:sym', (('b', 4), ('a', 5)))]),
    ]
    if thorough:
        sample_shapes += [
            ('list of 3-symbol Products in all different orders', [X_(P_('a', 0, 1), P_('b', 2), P_('c', 3, 4)), X_(P_('c', 5), P_('a', 0, 2), P_('b', 1, 3)), X_(P_('b', 4), P_('c', 5), P_('a', 1))]),
            ('Zip of Products', [Z_(X_(P_('b', 0, 1), P_('a', 2, 3)), P_('c', 4, 5, 0, 1)), Z_(P_('c', 2, 3), X_(P_('a', 4, 5), P_('b', 0)))]),
        ]
    bad_shapes = [
        ('disjoint symbols', [D_(('a', 0)), D_(('b', 1))]),
        ('second sweep lacks a symbol', [Z_(P_('a', 0, 1), P_('b', 2, 3)), D_(('a', 4))]),
        ('second sweep has an extra symbol', [R_(('a', 0)), X_(P_('b', 1), P_('a', 2))]),
        ('empty mapping next to a non-empty one', [None, D_(('a', 0))]),
        ('third sweep differs', [D_(('a', 0), ('b', 1)), D_(('b', 2), ('a', 3)), Z_(P_('a', 4), P_('c', 5))]),
    ]
    MAXREPS = 4 if thorough else 3

    PRIMS = ['run_sweep', 'run_sweep_async', 'SimulatesSamples._run']

    def scripted_sim(cx):
        """a SimulatesSamples whose _run returns fresh symbolic records: Sampler.sample -> the REAL SimulatesSamples.run_sweep(_iter) -> _run"""
        log = []

        class Sim(cirq.SimulatesSamples):
            def _run(self, circuit, param_resolver, repetitions):
                recs, D = sym_records(cx, SPEC[id(circuit)], int(repetitions), prefix=f'c{len(log)}{NAME[id(circuit)]}')
                log.append({'program': circuit, 'params': param_resolver, 'repetitions': repetitions, 'D': D})
                return recs

        return Sim(), log

    def param_pool(cx):
        """solver-chosen parameter values: integers and reals mixed (they may coincide)"""
        return [cx.int(f'v{i}', -3, 3) if i % 2 == 0 else cx.real(f'v{i}', -2, 2) for i in range(6)]

    def frame_rows(df):
        """(column labels, index labels, {column: values}) of a real pandas frame (object columns in symbolic mode)"""
        cols = list(df.columns)
        if len(set(cols)) != len(cols):
            return cols, None, None
        return cols, [py(i) for i in df.index.tolist()], {c: [py(x) for x in df[c].tolist()] for c in cols}

    def call_sample(s, prog, shape, pool, reps):
        import warnings

        if shape is OMIT:
            return s.sample(prog)
        with warnings.catch_warnings():
            warnings.simplefilter('ignore', DeprecationWarning)  # implicit product of a dict with sequence values
            return s.sample(prog, repetitions=reps, params=build_sweepable(shape, pool))

    def sample_frame(cx, wrong=False):
        label, shape = sample_shapes[cx.choose('params', len(sample_shapes))]
        prog = [prog_c, prog_a][cx.choose('program', 2)]
        prim = PRIMS[cx.choose('primitive', len(PRIMS))]
        s, log = scripted_sim(cx) if prim == 'SimulatesSamples._run' else scripted(cx, cirq.Sampler, prim == 'run_sweep_async')
        pool = param_pool(cx)
        reps = cx.int('reps', 0, MAXREPS)
        df = call_sample(s, prog, shape, pool, reps)
        if shape is OMIT:
            reps = 1
        # ---- oracle: the parameter assignments in documented order ------------------------------------------
        blocks = [a for sweep in expand_shape(None if shape is OMIT else shape, pool) for a in sweep]
        names = sorted(blocks[0])
        keys = [k for k, *_ in SPEC[id(prog)]]
        n = int(reps)  # already pinned by the run (the scripted primitive needs a concrete number of rows / the simulator base class tests == 0)
        # (1) the underlying runs: one per assignment, in order, with exactly that assignment and `repetitions`
        if prim == 'SimulatesSamples._run' and n == 0:
            cx.check(len(log) == 0, 'zero repetitions: SimulatesSamples does not call _run')
            runs = [None] * len(blocks)  # there are no rows whose origin could be compared below
        else:
            runs = log
            conds = [len(log) == len(blocks)]
            for e, b in zip(log, blocks):
                pd_ = {str(k): v for k, v in e['params'].param_dict.items()}
                conds += [e['program'] is prog, EQ(e['repetitions'], reps), sorted(pd_.keys()) == sorted(b.keys())]
                conds += [EQ(pd_[nm], b[nm]) for nm in b if nm in pd_]
            cx.check(AND(conds), 'run_sweep is asked for every parameter assignment of every sweep exactly once, in order, with the given repetitions')
        # (2) shape conventions of the frame
        cols, index, vals = frame_rows(df)
        cx.check(cols == names + keys, 'columns: one per symbol, sorted by name, followed by one per measurement key in the order of the result')
        cx.check(index == [r for _ in blocks for r in range(n)], 'index: the repetition number 0..repetitions-1, restarting for each parameter assignment')
        rows_ok = all(len(vals[c]) == n * len(blocks) for c in cols)
        cx.check(rows_ok, 'one row per sample')
        if not rows_ok:
            return
        # (3) every row: parameter columns = the resolver that produced the row's records; key columns = those records
        conds = []
        for i, (e, b) in enumerate(zip(runs, blocks)):
            told = dict(b)
            if wrong and len(names) >= 2:  # twin: values filed under the wrong symbol
                told[names[0]], told[names[1]] = b[names[1]], b[names[0]]
            for r in range(n):
                row = i * n + r
                conds += [EQ(vals[nm][row], told[nm]) for nm in names]
                conds += [EQ(vals[k][row], bits_value(e['D'][k][r][0], little_endian=wrong and len(names) < 2)) for k in keys]
        cx.check(AND(conds), f'sample[{label}]: row r of assignment i holds, under each symbol name, the value the resolver of run i gives it, and under each key the big-endian integer of run i, repetition r')

    obs.append(Obligation(
        'sampler.sample_frame', sample_frame, twin=_twin(sample_frame), opts={'weight': 3},
        points=[{'choose:params': i, 'choose:program': i % 2, 'choose:primitive': p, 'reps': r} for i, r, p in ((0, 2, 0), (1, 3, 2), (2, 1, 1), (3, 2, 2), (4, 2, 0), (7, 0, 1), (11, 2, 2), (12, 1, 0), (13, 2, 1), (6, 0, 2), (5, 0, 0), (14, 2, 0), (15, 1, 2))],
        desc='Sampler.sample over a scripted sampler (only run_sweep, or only run_sweep_async, or a SimulatesSamples whose _run is scripted so that the real SimulatesSamples.run_sweep sits in between) that returns fresh SYMBOLIC records and logs every underlying run: `params` drawn from a menu of '
        + f'{len(sample_shapes)} Sweepable shapes that expand to several sweeps whose symbols are listed in DIFFERENT orders (list of dicts, lists of Zip / Product / ZipLongest sweeps, mixed ParamResolvers, nested lists, '
        'dict with sequence values, 2-3 symbols, single sweep, None, defaults), ALL parameter values solver variables (6-value pool, integers in [-3,3] and reals in [-2,2] mixed, coincidences allowed), '
        f'repetitions symbolic in [0,{MAXREPS}], 2 programs (keys listed unsorted / sorted, 1-2 bits, all bits symbolic): the runs requested are the documented expansion in order; the frame has the symbol columns sorted by name then the key columns, '
        'index = repetition number restarting per assignment, and every row holds the values of the resolver that produced its records under the right names and the big-endian integers of those records. '
        'Real pandas builds and concatenates the frames (object columns in symbolic mode); only Result.data of a symbolic result goes through the recorder',
    ))

    def sample_inconsistent(cx, wrong=False):
        label, shape = bad_shapes[cx.choose('params', len(bad_shapes))]
        s, log = scripted(cx, cirq.Sampler, False)
        pool = param_pool(cx)
        reps = cx.int('reps', 0, MAXREPS)
        raised = False
        try:
            call_sample(s, prog_c, shape, pool, reps)
        except ValueError:
            raised = True
        cx.check(raised != wrong, f'sample[{label}] raises ValueError: the sweeps do not assign the same symbols')

    obs.append(Obligation(
        'sampler.sample_inconsistent_keys', sample_inconsistent, twin=_twin(sample_inconsistent), kind='bounded-exploration',
        points=[{'choose:params': i} for i in range(len(bad_shapes))],
        desc='SOLVER-DRIVEN BOUNDED EXPLORATION: Sampler.sample raises the documented ValueError when the sweeps of `params` assign different symbol sets (5 shapes; values and repetitions symbolic but irrelevant)',
    ))

    def run_sweep_iter(cx, wrong=False):
        log = []

        class Sim(cirq.SimulatesSamples):
            def _run(self, circuit, param_resolver, repetitions):
                recs, D = sym_records(cx, SPEC[id(circuit)], int(repetitions), prefix=f'c{len(log)}')
                log.append({'params': param_resolver, 'repetitions': repetitions, 'D': D})
                return recs

        prog = [prog_a, prog_b][cx.choose('program', 2)]
        reps = cx.int('reps', 0, 3)
        sweep = cirq.Points('t', [0.0, 0.5, 1.0])
        out = Sim().run_sweep(prog, sweep, reps)
        resolvers = list(cirq.to_resolvers(sweep))
        spec = SPEC[id(prog)]
        conds = [len(out) == 3]
        if int(reps) == 0:  # pinned by the code's own `repetitions == 0` branch or by _run
            cx.check(len(log) == 0, 'zero repetitions: the simulator is not run')
            for o, pr in zip(out, resolvers):
                conds += [o.params == pr, o.repetitions == 0, set(o.records.keys()) == {k for k, *_ in spec}]
        else:
            order = resolvers[::-1] if wrong else resolvers
            for i, (o, pr) in enumerate(zip(out, order)):
                conds += [o.params == pr, log[i]['params'] == resolvers[i], EQ(log[i]['repetitions'], reps), EQ(o.repetitions, reps)]
                conds += [tuple_eq(o.records[k].tolist(), log[i]['D'][k]) for k, *_ in spec]
        cx.check(AND(conds) if not (wrong and int(reps) == 0) else False, 'SimulatesSamples.run_sweep: result i carries resolver i and exactly the records _run produced for it')
        if all(inst == 1 for _, inst, _, _ in spec) and int(reps) > 0:
            h = out[0].histogram(key='m')
            cx.check(counter_matches(h, [bits_value(log[0]['D']['m'][r][0]) for r in range(int(reps))]), 'histogram of a simulator result counts the produced records')

    obs.append(Obligation(
        'sim.run_sweep_iter', run_sweep_iter, twin=_twin(run_sweep_iter), opts={'weight': 2}, kind='bounded-exploration',
        points=[{'choose:program': 0}, {'choose:program': 1}],
        desc='SimulatesSamples.run_sweep_iter/run_sweep with a scripted _run returning symbolic records, symbolic repetition count in [0,3] (the code branches on repetitions == 0): record shaping / resolver pairing / order',
    ))
    return obs


def _menu_str(menu):
    out = []
    for b in menu:
        if isinstance(b, int):
            out.append(str(b))
        elif len(b) > 8:
            out.append(f'[{b[0]}]*{len(b)}' if len(set(b)) == 1 else f'{len(b)} bases')
        else:
            out.append(str([x if x < 2**15 else f'2^{x.bit_length() - 1}' for x in b]).replace("'", ''))
    return ', '.join(out)


def _prod(xs):
    p = 1
    for x in xs:
        p *= int(x)
    return p


def raise_infeasible():
    from symx.ctx import Infeasible

    raise Infeasible()


def finding_obligations(tier):
    """Genuine finding on the unchanged tree (reported; see the module docstring of the report):
    beyond int64 Result.histogram(fold_base=...) falls back to big_endian_digits_to_int, which accumulates in
    the numpy scalar type of the record digits and wraps silently.  The symbolic run treats digits as
    mathematical integers and cannot see fixed-width overflow; the CONCRETE validation point (uint8 records
    of 45 qutrits) shows it.  Repaired by the /repo commit 'fix: big_endian_digits_to_int ...' (known_findings.json: fixed); this obligation keeps watching for its return."""
    import cirq

    def body(cx, wrong=False):
        # CONCRETE regression point (no symbolic content: the symbolic model uses mathematical integers and
        # cannot represent fixed-width numpy overflow): uint8 records of 45 qutrits, all digits 2.
        n = 45
        recs = {'a': np.full((1, 1, n), 2, dtype=np.uint8)}
        h = cirq.ResultDict(records=recs).histogram(key='a', fold_base=3)
        expected = (3**n - 1) if not wrong else (3**n - 2)
        items = [(int(k), int(c)) for k, c in h.items()]
        cx.check(items == [(expected, 1)], 'histogram-numpy-overflow')

    pt = {}
    return [Obligation('result.histogram_numpy_overflow', body, twin=_twin(body), points=[pt],
                       desc='CONCRETE regression point for the repaired defect: 45 qutrits as uint8 records, fold_base=3 (3^45 > 2^63) must give key 3^45-1')]


def obligations(tier):
    import os

    obs = digits_obligations(tier) + result_obligations(tier) + sampler_obligations(tier)
    # regression obligation for the defect repaired by /repo commit 1466020 (see known_findings.json)
    obs += finding_obligations(tier)
    return obs


LEVEL = (
    'Bounded symbolic execution of the real conversion / result-view code, SMT-decided (z3, linear integer arithmetic over mathematical integers): '
    'record digits are symbolic integers held in numpy OBJECT arrays of shape repetitions x instances x qubits, so real numpy (reshape, newaxis, append, '
    'matmul, sum, unique, array_equal, packbits) and the real Cirq code move and combine them; integers handed to the digit functions are symbolic of any '
    'sign and width (given by a complete binary / mixed-radix expansion whose every digit is a solver variable). Every branch the code takes on a symbolic '
    'value (a bit test, an ordering inside np.unique, a dict-key equality, a range check) is a solver-decided fork, and every feasible path ends in VCs that '
    'compare the view with its definition (big-endian place values, multiset of folded values, concatenation). Shapes, key sets, base menus and entry points '
    'are finite selectors explored exhaustively; obligations marked bounded-exploration (str, qudit JSON, sampler plumbing) have no arithmetic content beyond that. '
    'Sampler.sample: parameter values (integers and reals), record bits and the repetition count are solver variables carried by the real sweep / resolver / sampler / pandas code into the returned frame, '
    'whose entries are compared term by term with the resolver and records of the underlying run that the row belongs to; the shape of `params` is an enumerated selector.'
)


def main(tier, seed=0, replay=None, only=None, procs=None):
    bounds = {
        'digits': {
            'bits_to_int': 'n in 0..6 (quick) / 0..9 (thorough) all bits symbolic (ints and bools); n = 63, 64, 70 (and 65 thorough) with 4-8 symbolic positions, other positions a fixed pattern',
            'int_to_bits': 'val = k*2^n + sum x_j 2^j, all x_j in {0,1} and k in [-4,3] symbolic; n in {0,1,2,3,5,8,63,64,70} (+16,33,71,96 thorough); plus unconstrained val in [-40,40], n<=4',
            'digits_to_int / int_to_digits': 'all digits symbolic (digits_to_int: range [-1,b] to reach the ValueError), k in [-2,2] multiples of prod(bases) for out-of-range values; BASES ARE ENUMERATED from the menu 2,3,10,[2,3,4],[4,3,2],[],[5],[1,5],(2,2,2,2),[3,1,2,7],[7,2,5,3,2],[3]*45,[2]*70,[2^16,3,2^31,5,2^20,7] (+3 more thorough); symbolic bases are not supported (SInt % symbolic)',
            'bin() fast path': 'explored per concrete value (bin() needs one): val in [0, 2*2^4) for digit_count 4, and 4-8 symbolic bits at digit_count 63/64/70; NEGATIVE val on the fast path is outside the documented domain and excluded (see report)',
            'proof hints': 'closed forms of floor(val / 2^i) and of the long-division quotients are proved as lemmas (cx.check) before being assumed; they restrict nothing',
        },
        'result': {
            'shapes': 'repetitions 0..3 (0..4 thorough), instances 1..2 (3 thorough), qubits 0..4 all digits symbolic; wide keys 63/64/70 bits (data frame: ALL bits symbolic; histogram: 2-3 symbolic positions per repetition); up to 3 keys; qudit digits up to base 7; shapes enumerated from listed menus',
            'data': 'pandas.DataFrame constructor replaced by a recorder when columns are symbolic (stub); integer computation, column order and dtype choice are checked; pandas internals are outside',
            'histogram': 'default, fold_base int/list/tuple, beyond-int64 folds (2^32 digits, [5,2^62,3]) with digits as Python/mathematical integers, fold_func (linear, tuple), key as qubits; multi_measurement_histogram: ordered selections of <=2 of 3 keys + two 3-key orders (quick), all 16 (thorough)',
            'json': 'bit records with <=8 (quick) / <=10 (thorough) bits in total (the code concretises every bit); qudit records: harness-concretised digits 0..2 on 3 shapes (bounded exploration)',
            'eq/add': '__eq__ with <=4 digits per side; __add__ reps 0..2 + 0..2',
        },
        'sampler': 'scripted samplers (only run_sweep or only run_sweep_async implemented) returning symbolic records; repetition counts symbolic in [0,2] / [0,3]; 3 programs, sweeps of 2 (3 thorough) points',
        'sampler.sample': {
            'symbolic': 'all parameter values (pool of 6: v0,v2,v4 integers in [-3,3], v1,v3,v5 reals in [-2,2], coincidences allowed), all record bits, repetitions in [0,3] (quick) / [0,4] (thorough; the scripted primitive concretises it: one path per value)',
            'enumerated': '16 (quick) / 18 (thorough) shapes of `params` (list of dicts in different key orders; lists of Zip / Product / ZipLongest / Concat / ListSweep sweeps over the same 2-3 symbols in different orders; mixed ParamResolver / dict / sweep lists, nested lists, dict with sequence values, sympy.Symbol keys, single sweep, single resolver / dict, None, all defaults) with <= 8 parameter assignments; 3 primitives (run_sweep, run_sweep_async, SimulatesSamples._run under the real SimulatesSamples.run_sweep); 2 programs with 2 keys of 1-2 bits (keys listed sorted / unsorted); 5 inconsistent shapes for the documented ValueError',
            'pandas': 'REAL pandas builds the parameter table and performs both concat calls (object columns holding the symbolic values in symbolic mode; ordinary int64/float64 columns at the concrete validation points and replays); the only stand-in is that the recorder returned by Result.data for symbolic bits is converted into the object-dtype frame it stands for when it reaches pd.concat in cirq.work.sampler. Column dtypes are therefore seen only at the concrete points',
            'conventions checked': 'symbol columns sorted by name, then key columns in the order of the result keys; index = repetition number restarting at 0 for each parameter assignment; one row per sample; assignments in the documented sweep order (Product: leftmost factor outermost; Zip: shortest; ZipLongest: last value repeated)',
        },
        'outside': [
            'numpy fixed-width scalar arithmetic of concrete records (symbolic digits are mathematical integers): see the reported finding about histogram(fold_base) beyond int64',
            'pandas internals, json text encoding of non-record fields',
            'Sampler.sample: Linspace / formula-valued resolvers (sweep arithmetic belongs to C10), empty sweeps / an empty list of sweeps, a measurement key that coincides with a symbol name, keys measured more than once per repetition or wider than 63 bits (Result.data obligations cover the widths), sample_expectation_values',
            'np.save/np.load of non-binary digits on symbolic data (C boundary; covered only by harness-concretised exploration)',
            'cirq_google engine_result / processor_sampler / validating_sampler, ZerosSampler (no symbolic content: constant zeros), plot_state_histogram',
            'symbolic bases; more than 3 repetitions / 4 symbolic qubits per key in histogram obligations; int_to_digits bin() fast path for negative val (documented precondition val >= 0)',
        ],
    }
    assumptions = [a for a in BASE_ASSUMPTIONS if 'cos/sin' not in a and 'tol=1e-7' not in a] + [
        'symbolic integers are mathematical (unbounded) integers; records in symbolic mode are numpy object arrays, so dtype-specific behaviour of fixed-width numpy integers is not modelled (concrete replays use int64 arrays, or object arrays of Python ints where digits exceed 2^31)',
        'HInt (symx/hint.py): symbolic integers with a CONSTANT hash, so dict/Counter/np.unique decisions are forks on == / < between symbolic values instead of enumerations of values',
        'pd.DataFrame in cirq.study.result is a recorder for symbolic columns (worker processes only)',
        'pd.concat in cirq.work.sampler converts such a recorder into a real pandas DataFrame of object dtype (same columns, RangeIndex) and then calls real pandas; pandas is trusted to move Python objects in object columns unchanged',
    ]
    return run_check(PID, tier, 'checks.C18', SHIMS, LEVEL, assumptions, bounds, seed=seed, replay=replay, only=only, procs=procs)

"""C05: circuits stay well-formed and order-preserving under any edit history.

Solver-driven bounded exploration of the real `cirq.Circuit` code: the operations, strategies and
calls of an edit history are finite selectors (every value is explored), every INTEGER argument
(insert index, range start/end, batch indices, slice bounds, repetition count, frontier values, query
indices) is a z3 integer that the comparisons / clamps of the real code partition.  After every call
the real circuit is compared with a list-of-lists reference model written from the documentation
(oracles/circuit_model.py), property-level invariants are evaluated independently of the model, and every
cached query is compared with the same query on a freshly rebuilt circuit and with the model.

keys2.* obligations: the same for operations that carry BOTH a measurement key and a control key (CircuitOperations
whose body measures one key and holds an operation controlled by another), inserted with every strategy at a symbolic
position into circuits built from explicit moments / into the middle of circuits (i.e. away from the append fast
path: Circuit._can_add_op_at, earliest_available_moment, _latest_available_moment, _group_into_moment_compatible),
next to moments that measure or read the keys involved.
"""
from __future__ import annotations

import collections
import itertools

import numpy as np

from oracles import circuit_model as CM
from oracles.circuit_model import EARLIEST, INLINE, LATEST, NEW, NEW_THEN_INLINE, CircuitModel, MomentItem
from symx.ctx import Escape
from symx.explore import Obligation
from symx.run import run_check

PID = 'C05'
SHIMS: list = []  # only the module-global `int` of cirq.circuits.circuit is replaced (worker_setup)

ASSUMPTIONS = [
    'symbolic integers are mathematical (z3 Int) integers = Python ints; every finite selector (choose) is exhausted: that part is bounded exhaustive exploration, not a statement about all circuits',
    'only the module-global name `int` of cirq.circuits.circuit is replaced by a shim type (isinstance(x, int) / int(x) accept a symbolic integer); no numpy proxy, no other stub',
    'a symbolic integer that reaches C code (list index / slice / range() / list * n) is concretised by forking over ALL its feasible values under the path condition; this needs a finite range, hence the stated windows for integers the real code does not compare or clamp first',
    'the reference model (oracles/circuit_model.py) and the conflict relation (shared qubit, same measurement key, measurement key vs control key) are my transcription of the documentation; for several operations inserted at once the model follows the documented grouping into runs of moment-compatible operations',
    'operations are tagged to make every occurrence distinguishable; tags do not influence qubits or keys',
    'z3 is trusted; counterexamples are replayed in concrete mode (plain ints, no shim) before being reported',
]



def worker_setup():
    """`isinstance(x, int)` / `int(x)` in circuit.py must accept a symbolic integer"""
    import cirq.circuits.circuit as cc
    from symx.proxy import IntShim

    cc.__dict__['int'] = IntShim
    return ['cirq.circuits.circuit.int']


# ------------------------------------------------------------------------------------------------
# menus
# ------------------------------------------------------------------------------------------------
_MENU = {}


def env():
    if _MENU:
        return _MENU
    import cirq
    import sympy

    q = cirq.LineQubit.range(3)
    t = sympy.Symbol('t')
    _MENU['q'] = q
    _MENU['cirq'] = cirq
    _MENU['ops'] = [
        cirq.X(q[0]),
        cirq.Z(q[2]) ** t,
        cirq.CZ(q[0], q[1]),
        cirq.CNOT(q[1], q[2]),
        cirq.measure(q[0], key='m'),
        cirq.measure(q[2], key='m'),
        cirq.X(q[1]).with_classical_controls('m'),
        cirq.Z(q[2]).with_classical_controls('m'),
    ]
    # ---- operations 8..14: used by the keys2.* obligations only (the trees / selectors of the other
    # obligations address operations 0..7 explicitly).  8..11 carry BOTH a measurement key and a control key
    # (cirq.CircuitOperation whose body measures one key and holds an operation controlled by another one).
    FC = cirq.FrozenCircuit
    _MENU['ops'] += [
        cirq.CircuitOperation(FC(cirq.measure(q[1], key='a'), cirq.X(q[1]).with_classical_controls('m'))),  # 8: q1, measures a, reads m
        cirq.CircuitOperation(FC(cirq.measure(q[2], key='x'), cirq.Z(q[2]).with_classical_controls('y')), measurement_key_map={'x': 'a', 'y': 'm'}),  # 9: q2, measures a, reads m (through a key map)
        cirq.CircuitOperation(FC(cirq.Z(q[0]).with_classical_controls('a'), cirq.measure(q[0], key='m'))),  # 10: q0, measures m, reads a
        cirq.CircuitOperation(FC(cirq.X(q[1]).with_classical_controls('a'), cirq.measure(q[1], key='a'))),  # 11: q1, reads a, then measures a
        cirq.measure(q[0], key='a'),  # 12
        cirq.Z(q[2]).with_classical_controls('a'),  # 13
        cirq.CircuitOperation(FC(cirq.measure(q[1], key='a'), cirq.X(q[2]).with_classical_controls('a'))),  # 14: q1,q2, measures a; the read of a is internal -> no control key
    ]
    # keys of every menu operation as DECLARED here (measured, read); the keys2 bodies check that the per-operation
    # accessors used by the reference model (cirq.measurement_key_objs / cirq.control_keys) report exactly these
    _MENU['keys'] = {
        0: ('', ''), 1: ('', ''), 2: ('', ''), 3: ('', ''), 4: ('m', ''), 5: ('m', ''), 6: ('', 'm'), 7: ('', 'm'),
        8: ('a', 'm'), 9: ('a', 'm'), 10: ('m', 'a'), 11: ('a', 'a'), 12: ('a', ''), 13: ('', 'a'), 14: ('a', ''),
    }
    _MENU['strategy'] = {
        EARLIEST: cirq.InsertStrategy.EARLIEST,
        NEW: cirq.InsertStrategy.NEW,
        INLINE: cirq.InsertStrategy.INLINE,
        NEW_THEN_INLINE: cirq.InsertStrategy.NEW_THEN_INLINE,
        LATEST: cirq.InsertStrategy.LATEST,
    }
    return _MENU


# operation trees: lists of menu indices; a tuple is a whole Moment
SINGLES = [[i] for i in range(8)]
PAIRS_SMALL = [[0, 1], [0, 0], [0, 2], [2, 3], [4, 5], [4, 6], [6, 4], [3, 0], [1, 5], [2, 6], [6, 7]]
PAIRS_ALL = [[a, b] for a in range(8) for b in range(8)]
TRIPLES = [[0, 1, 0], [2, 0, 3], [0, 4, 5], [3, 2, 0], [6, 4, 6], [0, 3, 2], [5, 0, 4], [1, 1, 3]]
WITH_MOMENT = [[(0, 1)], [0, (3,), 0], [(4, 5)], [(), 2], [2, (0,)], [(3,), 6, 4]]
QUADS = [[2, 6, 7, 5], [3, 7, 6, 4]]  # two operations controlled by one key at different depths, then a measurement of it

TREES_QUICK = SINGLES + PAIRS_SMALL + TRIPLES[:3] + QUADS[:1] + WITH_MOMENT[:4]
TREES_FULL = SINGLES + PAIRS_ALL + TRIPLES + QUADS + WITH_MOMENT
TREES_HIST = [[0], [3], [4], [6], [0, 2], [4, 5], [2, 0, 3], [(0, 1), 6]]
OPS_ONLY = lambda trees: [t for t in trees if not any(isinstance(x, tuple) for x in t)]

# base circuits: (mode, content).  'ops' = Circuit(*ops) (EARLIEST constructor, placement cache alive),
# 'moments' = Circuit(moments) (no cache), 'new' = Circuit(ops, strategy=NEW)
BASES = [
    ('ops', []),
    ('ops', [0, 2, 1]),
    ('moments', [(0,), (), (3,), (4,)]),
    ('ops', [2, 0, 5, 6, 1]),
    ('moments', [(0, 3), (2,), (0, 1)]),
    ('new', [4, 6]),
]


class State:
    """the circuit under test with its model; `others` = circuits that must not change any more"""

    def __init__(self):
        self.c = None
        self.m = None
        self.others = []
        self.n = 0

    def fresh(self, i):
        """a fresh occurrence of menu operation i (unique tag -> every occurrence is distinguishable)"""
        self.n += 1
        return env()['ops'][i].with_tags(f'#{self.n}')

    def tree(self, spec):
        items = []
        for x in spec:
            if isinstance(x, tuple):
                items.append(MomentItem([self.fresh(i) for i in x]))
            else:
                items.append(self.fresh(x))
        return items


def real_tree(items):
    import cirq

    return [cirq.Moment(it.ops) if isinstance(it, MomentItem) else it for it in items]


def flat_ops(items):
    out, grp = [], []
    for g, it in enumerate(items):
        for o in it.ops if isinstance(it, MomentItem) else [it]:
            out.append(o)
            grp.append(g)
    return out, grp


def build_base(st, b):
    import cirq

    mode, content = BASES[b] if isinstance(b, int) else b  # a (mode, content) pair may be given directly
    if mode == 'moments':
        items = st.tree(content)
        st.c = cirq.Circuit(real_tree(items))
        st.m = CircuitModel([it.ops for it in items])
    else:
        items = st.tree(content)
        if mode == 'ops':
            st.c = cirq.Circuit(*items)
            st.m = CircuitModel()
            st.m.append(items, EARLIEST)
        else:
            st.c = cirq.Circuit(items, strategy=cirq.InsertStrategy.NEW)
            st.m = CircuitModel()
            st.m.append(items, NEW)


# ------------------------------------------------------------------------------------------------
# verification after every call
# ------------------------------------------------------------------------------------------------
def same_moments(c, m) -> bool:
    mos = c.moments
    if len(mos) != len(m.m):
        return False
    for a, b in zip(mos, m.m):
        if collections.Counter(a.operations) != collections.Counter(b):
            return False
    return True


def queries(c):
    import cirq

    qs = env()['q']
    out = {}
    out['all_qubits'] = c.all_qubits()
    out['measurement_keys'] = c.all_measurement_key_objs()
    out['measurement_key_names'] = c.all_measurement_key_names()
    out['control_keys'] = cirq.control_keys(c)
    out['is_parameterized'] = cirq.is_parameterized(c)
    out['parameter_names'] = frozenset(cirq.parameter_names(c))
    out['is_measurement'] = cirq.is_measurement(c)
    out['has_measurements'] = c.has_measurements()
    out['terminal'] = c.are_all_measurements_terminal()
    out['len'] = len(c)
    out['bool'] = bool(c)
    out['all_operations'] = tuple(c.all_operations())
    out['findall'] = tuple(c.findall_operations(lambda op: True))
    for q in qs:
        out['next', q] = c.next_moment_operating_on([q])
        out['prev', q] = c.prev_moment_operating_on([q])
        out['next1', q] = c.next_moment_operating_on([q], 1)
        out['prev1', q] = c.prev_moment_operating_on([q], len(c) - 1)
    out['next_all'] = c.next_moment_operating_on(qs)
    out['reach'] = tuple(sorted(c.reachable_frontier_from({q: 0 for q in qs}).items()))
    out['between'] = tuple(c.findall_operations_between({q: 0 for q in qs}, {q: len(c) for q in qs}))
    fz = c.freeze()
    out['frozen_moments'] = tuple(fz.moments)
    out['frozen_qubits'] = fz.all_qubits()
    out['frozen_keys'] = fz.all_measurement_key_objs()
    out['frozen_param'] = cirq.is_parameterized(fz)
    out['frozen_eq'] = fz == c and c == fz
    out['unfrozen'] = tuple(fz.unfreeze().moments)
    if cirq.has_unitary(c):
        out['unitary'] = c.unitary(qubit_order=qs)
    else:
        out['unitary'] = None
    return out


def cached_queries(c):
    """the queries answered from per-circuit caches"""
    import cirq

    out = {}
    out['all_qubits'] = c.all_qubits()
    out['is_parameterized'] = cirq.is_parameterized(c)
    out['parameter_names'] = frozenset(cirq.parameter_names(c))
    out['is_measurement'] = cirq.is_measurement(c)
    out['frozen_moments'] = tuple(c.freeze().moments)
    return out


def model_queries(m):
    import cirq

    ops = m.all_ops()
    out = {}
    out['all_qubits'] = frozenset(q for o in ops for q in o.qubits)
    out['measurement_keys'] = frozenset(k for o in ops for k in cirq.measurement_key_objs(o))
    out['is_parameterized'] = any(cirq.is_parameterized(o) for o in ops)
    out['parameter_names'] = frozenset(n for o in ops for n in cirq.parameter_names(o))
    out['is_measurement'] = any(cirq.is_measurement(o) for o in ops)
    out['has_measurements'] = out['is_measurement']
    out['len'] = len(m.m)
    for q in env()['q']:
        touching = [i for i, mo in enumerate(m.m) if any(q in o.qubits for o in mo)]
        out['next', q] = touching[0] if touching else None
        out['prev', q] = touching[-1] if touching else None
    return out


def q_equal(a, b) -> bool:
    if isinstance(a, np.ndarray) or isinstance(b, np.ndarray):
        return a is not None and b is not None and a.shape == b.shape and bool(np.allclose(a, b, atol=1e-8))
    return a == b


def verify(cx, st, label, check_model=True, wrong=False):
    """moments == model, disjoint qubits, queries == fresh rebuild == model, bystanders unchanged"""
    import cirq

    c, m = st.c, st.m
    if wrong:
        m = m.copy()
        # deliberately wrong oracle: drop the last operation (or add an empty moment)
        for mo in reversed(m.m):
            if mo:
                mo.pop()
                break
        else:
            m.m.append([])
    if check_model:
        cx.check(same_moments(c, m), f'{label}: moments differ from the reference model')
    cx.check(CM.disjoint_moments([mo.operations for mo in c.moments]), f'{label}: a moment holds overlapping qubits')
    got = queries(c)
    fresh = cirq.Circuit(c.moments)
    exp = queries(fresh)
    badq = [str(k) for k in exp if not q_equal(got[k], exp[k])]
    cx.check(not badq, f'{label}: query differs from a freshly rebuilt equal circuit: {badq[:3]}')
    cx.check(c == fresh and fresh == c and not (c != fresh), f'{label}: circuit != freshly rebuilt circuit')
    if check_model:
        mq = model_queries(m)
        badm = [str(k) for k in mq if not q_equal(got[k], mq[k])]
        cx.check(not badm, f'{label}: query differs from the reference model: {badm[:3]}')
    # a second round of queries answers from the caches
    again = cached_queries(c)
    bad2 = [str(k) for k in again if not q_equal(again[k], exp[k])]
    cx.check(not bad2 and c.freeze() is c.freeze(), f'{label}: cached query differs: {bad2[:3]}')
    for oc, om in st.others:
        cx.check(same_moments(oc, om), f'{label}: an unrelated circuit object (earlier frozen view / copy / operand) changed')
    # the frozen view handed out now must never change, whatever happens to the circuit later
    st.others.append((c.freeze(), st.m.copy()))
    st.others = st.others[-4:]


# ------------------------------------------------------------------------------------------------
# calls.  Each takes (cx, st, s, mn) with s = unique step prefix and mn = Menu (how large the finite
# menus are) and performs ONE public call on the real circuit and on the model, then checks
# call-specific facts.  Returns (label, exact).
# ------------------------------------------------------------------------------------------------
EXC = (IndexError, ValueError, TypeError)


class Menu:
    """lv 0 = minimal, 1 = small, 2 = medium, 3 = full (given trees)"""

    def __init__(self, lv, trees=None, strategies=None, batch=None):
        self.lv = lv
        self.trees = trees if trees is not None else [[[0]], [[0], [4, 6]], TREES_HIST][min(lv, 2)]
        self.strategies = strategies
        self.batch = batch  # optional pair of tree menus for a batch_insert with two insertions

    def ops_trees(self):
        return OPS_ONLY(self.trees)


def window(st, mn):
    """integers that reach a C boundary (list index / slice / range) before any comparison of the real code:
    confined to [-(len+2), len+2] (len+1 at the small levels): every clamping class of list indexing"""
    n = len(st.m.m) + (2 if mn.lv >= 2 else 1)
    return -n, n


def run_both(cx, st, label, real, model):
    """run the real call and the model call; both must fail the same way or both succeed.
    On failure the circuit must be unchanged.  Returns (ok, real_result, model_result)."""
    before = st.m.copy()
    r_exc = m_exc = None
    rr = mr = None
    try:
        rr = real()
    except EXC as e:
        if isinstance(e, Escape) or 'symx:' in str(e):
            raise
        r_exc = type(e)
    try:
        mr = model()
    except EXC as e:
        if isinstance(e, Escape) or 'symx:' in str(e):
            raise
        m_exc = type(e)
        st.m = before
    cx.check(r_exc is m_exc, f'{label}: raised {getattr(r_exc, "__name__", None)}, documented behaviour is {getattr(m_exc, "__name__", None)}')
    return r_exc is None and m_exc is None, rr, mr


def call_insert(cx, st, s, mn, append=False):
    E = env()
    trees = mn.trees
    if mn.strategies:
        strategies = mn.strategies
    elif append:
        strategies = [EARLIEST, NEW] if mn.lv == 0 else CM.STRATEGIES
    else:
        strategies = [[EARLIEST, LATEST], [EARLIEST, INLINE, LATEST], CM.STRATEGIES, CM.STRATEGIES][mn.lv]
    items = st.tree(trees[cx.choose(f'{s}.tree', len(trees))])
    strat = strategies[cx.choose(f'{s}.strategy', len(strategies))]
    before = [list(mo) for mo in st.m.m]
    ops, grp = flat_ops(items)
    has_moment = any(isinstance(it, MomentItem) for it in items)
    if append:
        label = f'append[{strat}]'
        ret = st.c.append(real_tree(items), E['strategy'][strat])
        k0 = len(before)
        mret = None
        st.m.append(items, strat)
        cx.check(ret is None, f'{label}: returns None')
    else:
        label = f'insert[{strat}]'
        idx = cx.int(f'{s}.index')  # unbounded
        ret = st.c.insert(idx, real_tree(items), E['strategy'][strat])
        k0 = st.m.clamp(idx)  # documented clamping, decided by the solver under the path condition
        mret = st.m.insert(k0, items, strat)
    # trees containing a Moment under NEW_THEN_INLINE: documentation does not say whether the moment
    # consumes the "NEW" part; only the invariants are claimed there
    exact = not (strat == NEW_THEN_INLINE and has_moment)
    after = [list(mo.operations) for mo in st.c.moments]
    exempt = strat == EARLIEST and len(ops) > 1 and k0 < len(before)
    bad = CM.order_invariants(before, after, ops, [k0] * len(ops), grp, exempt_after=exempt)
    cx.check(not bad, f'{label}: invariant violated: {bad[:2]}')
    if not append:
        # documented meaning of the return value: inserting there places operations after the inserted
        # ones (and it is a position of the circuit); where the model is exact it must equal the model's
        pos = CM.positions(after)
        last = max([pos[o][0] for o in ops if o in pos], default=-1)
        cond = AND(last < ret, ret <= len(after))
        if exact:
            cond = AND(cond, ret == mret)
        cx.check(cond, f'{label}: returned index (after the inserted operations, inside the circuit, equal to the documented one)')
    if not exact:
        st.m = CircuitModel(after)
    return label, exact


def call_insert_into_range(cx, st, s, mn):
    trees = mn.ops_trees()
    items = st.tree(trees[cx.choose(f'{s}.tree', len(trees))])
    start = cx.int(f'{s}.start')  # unbounded
    end = cx.int(f'{s}.end')  # unbounded
    before = [list(mo) for mo in st.m.m]
    label = 'insert_into_range'
    ok, ret, mret = run_both(cx, st, label, lambda: st.c.insert_into_range(items, start, end), lambda: st.m.insert_into_range(items, start, end))
    if ok:
        after = [list(mo.operations) for mo in st.c.moments]
        k0 = int(start)
        bad = CM.order_invariants(before, after, items, [k0] * len(items), list(range(len(items))), qubits_only=True, exempt_after=True)
        # operations that do not fit into the range are documented to be inserted at `end` (EARLIEST): for those the
        # key dependencies count as well (the inline part looks at qubits only).  Which operations overflow follows
        # from the documented inline rule, replayed here on plain lists.
        k1 = int(end)
        cur = [list(mo) for mo in before]
        i, n = k0, 0
        while n < len(items):
            while i < k1 and any(CM.conflict(o, items[n], qubits_only=True) for o in cur[i]):
                i += 1
            if i >= k1:
                break
            cur[i].append(items[n])
            n += 1
        over = items[n:]
        if over:
            bad += CM.order_invariants(_without(after, over), after, over, [k1] * len(over), list(range(len(over))), exempt_after=True)
        cx.check(not bad, f'{label}: invariant violated: {bad[:2]}')
        pos = CM.positions(after)
        last = max([pos[o][0] for o in items if o in pos], default=-1)
        cx.check(AND(last < ret, ret == mret), f'{label}: returned index (after the inserted operations, equal to the documented one)')
    return label, True


def call_batch_insert(cx, st, s, mn):
    if mn.lv >= 3:
        n = 1 + cx.choose(f'{s}.n', 2)
        menus = [mn.ops_trees()] if n == 1 else (mn.batch or [[[0], [4, 6], [2, 3]], [[3], [6], [0, 0]]])
    elif mn.lv == 2:
        n = 2
        menus = [[[0], [4, 6]], [[3], [6]]]
    else:
        n = 2
        menus = mn.batch or [[[0]], [[3]]]
    pairs = []
    for j in range(n):
        items = st.tree(menus[j][cx.choose(f'{s}.tree{j}', len(menus[j]))])
        if mn.lv == 0 and j == 1:
            i = pairs[0][0] + 1  # minimal level: the second index is tied to the first one
        elif mn.lv == 1 and j == 1:
            i = pairs[0][0] + cx.choose(f'{s}.delta', 2)  # small level: same index (ordering rule) or the next one
        else:
            i = cx.int(f'{s}.i{j}', 0, None)  # documented as positions in the circuit: non-negative, unbounded above
        pairs.append((i, items))
    before = [list(mo) for mo in st.m.m]
    label = 'batch_insert'
    ok, _, _ = run_both(cx, st, label, lambda: st.c.batch_insert([(i, list(it)) for i, it in pairs]), lambda: st.m.batch_insert(pairs))
    if ok:
        after = [list(mo.operations) for mo in st.c.moments]
        total = sum(len(it) for _, it in pairs)
        bad = []
        # each pair separately against the existing operations (the other pair's operations removed)
        for i, items in pairs:
            k0 = CircuitModel(before).clamp(i)
            others = [o for _, it in pairs if it is not items for o in it]
            bad += CM.order_invariants(before, _without(after, others), items, [k0] * len(items), list(range(len(items))), exempt_after=total > 1)
        cx.check(not bad, f'{label}: invariant violated: {bad[:2]}')
    return label, True


def _without(moments, ops):
    return [[o for o in mo if o not in ops] for mo in moments]


def _pick_present(cx, st, s, name, limit):
    """an operation present in the model (selector over the first `limit`), or None"""
    cands = [o for mo in st.m.m for o in mo]
    if not cands:
        return None
    return cands[cx.choose(f'{s}.{name}', min(len(cands), limit))]


def call_batch_insert_into(cx, st, s, mn):
    lo, hi = window(st, mn)
    if mn.lv >= 2:
        trees = mn.ops_trees()
        items = st.tree(trees[cx.choose(f'{s}.tree', len(trees))])
        two = cx.choose(f'{s}.two', 2)
    else:
        items = st.tree([1])
        two = 0
    pairs = [(cx.int(f'{s}.i', lo, hi), items)]
    if two:
        pairs.append((cx.int(f'{s}.i2', lo, hi), st.tree([1])))
    label = 'batch_insert_into'
    run_both(cx, st, label, lambda: st.c.batch_insert_into([(j, list(it)) for j, it in pairs]), lambda: st.m.batch_insert_into(pairs))
    return label, True


def call_batch_remove_replace(cx, st, s, mn):
    lo, hi = window(st, mn)
    which = cx.choose(f'{s}.which', [1, 2, 3, 3][mn.lv])
    i = cx.int(f'{s}.i', lo, hi)
    op = _pick_present(cx, st, s, 'op', [1, 2, 4, 4][mn.lv]) or st.fresh(0)
    if which == 0:
        label = 'batch_remove'
        run_both(cx, st, label, lambda: st.c.batch_remove([(i, op)]), lambda: st.m.batch_remove([(i, op)]))
    elif which == 1:
        label = 'batch_replace'
        new = st.fresh(cx.choose(f'{s}.new', 8) if mn.lv >= 2 else 0)
        run_both(cx, st, label, lambda: st.c.batch_replace([(i, op, new)]), lambda: st.m.batch_replace([(i, op, new)]))
    else:
        # two removals, the second one may fail: nothing must change then
        label = 'batch_remove2'
        j = cx.int(f'{s}.j', lo, hi)
        op2 = st.fresh(0) if cx.choose(f'{s}.absent', 2) else op
        run_both(cx, st, label, lambda: st.c.batch_remove([(i, op), (j, op2)]), lambda: st.m.batch_remove([(i, op), (j, op2)]))
    return label, True


def call_clear(cx, st, s, mn):
    qs = env()['q']
    subs = [[[qs[1]]], [[qs[0]], [qs[0], qs[2]]], [[qs[0]], [qs[1]], [qs[2]], [qs[0], qs[2]], list(qs), []]][min(mn.lv, 2)]
    sub = subs[cx.choose(f'{s}.qubits', len(subs))]
    idx = [cx.int(f'{s}.a')]  # unbounded
    if mn.lv >= 2:
        idx.append(cx.int(f'{s}.b'))  # unbounded
    label = 'clear_operations_touching'
    run_both(cx, st, label, lambda: st.c.clear_operations_touching(sub, idx), lambda: st.m.clear_operations_touching(sub, idx))
    return label, True


def call_setdel(cx, st, s, mn):
    import cirq

    lo, hi = window(st, mn)
    variants = [['set', 'delfrom'], ['set', 'del', 'delfrom'], ['set', 'del', 'setslice', 'delslice', 'clearslice']][min(mn.lv, 2)]
    v = variants[cx.choose(f'{s}.which', len(variants))]
    a = cx.int(f'{s}.a', lo, hi)
    new1 = MomentItem([st.fresh(0), st.fresh(3)])
    new2 = MomentItem([st.fresh(5)])
    if v == 'set':
        label = 'c[i] = moment'
        run_both(cx, st, label, lambda: st.c.__setitem__(a, cirq.Moment(new1.ops)), lambda: st.m.setitem(a, new1.ops))
    elif v == 'del':
        label = 'del c[i]'
        run_both(cx, st, label, lambda: st.c.__delitem__(a), lambda: st.m.delitem(a))
    elif v == 'delfrom':
        label = 'del c[i:]'
        sl = slice(a, None)
        run_both(cx, st, label, lambda: st.c.__delitem__(sl), lambda: st.m.delitem(sl))
    else:
        b = cx.int(f'{s}.b', lo, hi)
        sl = slice(a, b)
        if v == 'setslice':
            label = 'c[i:j] = moments'
            run_both(cx, st, label, lambda: st.c.__setitem__(sl, [cirq.Moment(new1.ops), cirq.Moment(new2.ops)]), lambda: st.m.setitem(sl, [new1.ops, new2.ops]))
        elif v == 'delslice':
            label = 'del c[i:j]'
            run_both(cx, st, label, lambda: st.c.__delitem__(sl), lambda: st.m.delitem(sl))
        else:
            label = 'c[i:j] = []'
            run_both(cx, st, label, lambda: st.c.__setitem__(sl, []), lambda: st.m.setitem(sl, []))
    return label, True


def _replace(st, newc, newm):
    """continue the history on a derived circuit; the old object must stay as it is"""
    if newc is not st.c:
        st.others.append((st.c, st.m.copy()))
        st.others = st.others[-3:]
    st.c, st.m = newc, newm


def call_arith(cx, st, s, mn):
    import cirq

    variants = [['imul', 'add_circuit', 'iadd'], ['mul', 'imul', 'pow', 'add_circuit', 'iadd', 'radd', 'add_tree']][min(mn.lv, 1)]
    v = variants[cx.choose(f'{s}.which', len(variants))]
    otrees = [[[2, 0]], [[2, 0], [(3,), (), (0,)]], [[0], [2, 0], [(3,), (), (0,)], [4, 6]]][min(mn.lv, 2)]
    if v in ('mul', 'imul'):
        n = cx.int(f'{s}.n', -1, 2) if mn.lv < 2 else cx.int(f'{s}.n', -2, 3)
        if v == 'mul':
            label = 'c * n'
            ok, r, mr = run_both(cx, st, label, lambda: st.c * n, lambda: st.m.times(n))
            if ok:
                cx.check(isinstance(r, cirq.Circuit), f'{label}: result type')
                _replace(st, r, mr)
        else:
            label = 'c *= n'
            old = st.c

            def real():
                c = st.c
                c *= n
                return c

            ok, r, mr = run_both(cx, st, label, real, lambda: st.m.times(n))
            if ok:
                cx.check(r is old, f'{label}: in place')
                st.m = mr
    elif v == 'pow':
        label = 'c ** -1'
        ok, r, mr = run_both(cx, st, label, lambda: st.c**-1, lambda: st.m.inverse())
        if ok:
            _replace(st, r, mr)
    else:
        items = st.tree(otrees[cx.choose(f'{s}.other', len(otrees))])

        def appended():
            m = st.m.copy()
            m.append(items, EARLIEST)
            return m

        if v == 'add_circuit':
            label = 'c + circuit'
            other = cirq.Circuit(real_tree(items))
            om = CircuitModel()
            om.append(items, EARLIEST)
            ok, r, mr = run_both(cx, st, label, lambda: st.c + other, lambda: st.m.plus(om))
            if ok:
                st.others.append((other, om))
                _replace(st, r, mr)
        elif v == 'iadd':
            label = 'c += tree'
            old = st.c

            def real():
                c = st.c
                c += real_tree(items)
                return c

            ok, r, mr = run_both(cx, st, label, real, appended)
            if ok:
                cx.check(r is old, f'{label}: in place')
                st.m = mr
        elif v == 'radd':
            label = 'tree + c'

            def model():
                m = CircuitModel()
                m.append(items, EARLIEST)
                return m.plus(st.m)

            ok, r, mr = run_both(cx, st, label, lambda: real_tree(items) + st.c, model)
            if ok:
                _replace(st, r, mr)
        else:
            label = 'c + tree'
            ok, r, mr = run_both(cx, st, label, lambda: st.c + real_tree(items), appended)
            if ok:
                _replace(st, r, mr)
    return label, True


def call_combine(cx, st, s, mn):
    import cirq

    variants = [['zipL', 'catL'], ['zipL', 'zipR', 'catL', 'catR', 'catF']][min(mn.lv, 1)]
    v = variants[cx.choose(f'{s}.which', len(variants))]
    otrees = [[[(1,), (), (0,)]], [[(1,), (), (0,)], [(3,)]], [[(1,), (), (0,)], [(3,)], [(), (), (2,)], [(0,), (3,), (4,), (1,)], []]][min(mn.lv, 2)]
    items = st.tree(otrees[cx.choose(f'{s}.other', len(otrees))])
    other = cirq.Circuit(real_tree(items))
    om = CircuitModel([it.ops for it in items])
    frozen = cx.choose(f'{s}.frozen', 2) if mn.lv >= 2 else 0
    oc = other.freeze() if frozen else other
    al = {'L': 'LEFT', 'R': 'RIGHT', 'F': 'FIRST'}[v[-1]]
    if v.startswith('zip'):
        label = f'zip[{al}]'
        ok, r, mr = run_both(cx, st, label, lambda: st.c.zip(oc, align=cirq.Alignment[al]), lambda: st.m.zip(om, al))
    else:
        label = f'concat_ragged[{al}]'
        ok, r, mr = run_both(cx, st, label, lambda: st.c.concat_ragged(oc, align=cirq.Alignment[al]), lambda: st.m.concat_ragged(om, al))
    if ok:
        cx.check(isinstance(r, cirq.Circuit), f'{label}: result type')
        st.others.append((other, om))
        _replace(st, r, mr)
    return label, True


def call_derive(cx, st, s, mn):
    import cirq

    lo, hi = window(st, mn)
    variants = [['copy', 'freeze', 'from'], ['transform', 'freeze', 'copy', 'from', 'column', 'rebuild'], ['transform', 'freeze', 'copy', 'slice', 'column', 'rebuild']][min(mn.lv, 2)]
    v = variants[cx.choose(f'{s}.which', len(variants))]
    qs = env()['q']
    if v == 'transform':
        label = 'transform_qubits'
        perm = {qs[0]: qs[1], qs[1]: qs[2], qs[2]: qs[0]}
        ok, r, mr = run_both(cx, st, label, lambda: st.c.transform_qubits(perm), lambda: st.m.transform_qubits(perm))
    elif v == 'freeze':
        label = 'freeze().unfreeze()'
        ok, r, mr = run_both(cx, st, label, lambda: st.c.freeze().unfreeze(), lambda: st.m.copy())
    elif v == 'copy':
        label = 'copy()'
        ok, r, mr = run_both(cx, st, label, lambda: st.c.copy(), lambda: st.m.copy())
    elif v == 'slice':
        label = 'c[i:j]'
        a = cx.int(f'{s}.a', lo, hi)
        b = cx.int(f'{s}.b', lo, hi)
        ok, r, mr = run_both(cx, st, label, lambda: st.c[a:b], lambda: st.m.getslice(slice(a, b)))
    elif v == 'from':
        label = 'c[i:]'
        a = cx.int(f'{s}.a', lo, hi)
        ok, r, mr = run_both(cx, st, label, lambda: st.c[a:], lambda: st.m.getslice(slice(a, None)))
    elif v == 'column':
        label = 'c[i:, q]'
        a = cx.int(f'{s}.a', lo, hi)

        def model():
            m = st.m.getslice(slice(a, None))
            return CircuitModel([[o for o in mo if qs[1] in o.qubits] for mo in m.m])

        ok, r, mr = run_both(cx, st, label, lambda: st.c[a:, qs[1]], model)
    else:
        label = 'Circuit(c.all_operations())'
        # documented: rebuilding with EARLIEST from the operation sequence

        def model():
            m = CircuitModel()
            m.append(st.m.all_ops(), EARLIEST)
            return m

        ok, r, mr = run_both(cx, st, label, lambda: cirq.Circuit(st.c.all_operations()), model)
    if ok:
        cx.check(r is not st.c and isinstance(r, cirq.Circuit), f'{label}: new Circuit object expected')
        _replace(st, r, mr)
    return label, True


def AND(a, b):
    if isinstance(a, bool):
        return b if a else False
    if isinstance(b, bool):
        return a if b else False
    return a & b


def OR(a, b):
    if isinstance(a, bool):
        return True if a else b
    if isinstance(b, bool):
        return True if b else a
    return a | b


def call_frontier(cx, st, s, mn):
    qs = env()['q']
    trees = [[[0]], [[0], [2, 3]], [[0], [2, 3], [3, 3, 0]], mn.ops_trees()][mn.lv]
    items = st.tree(trees[cx.choose(f'{s}.tree', len(trees))])
    start = cx.int(f'{s}.start', 0, len(st.m.m) + 2)  # reaches range(): windowed; negative start is not documented
    given = cx.choose(f'{s}.given', 2) if mn.lv >= 2 else 0
    before = [list(mo) for mo in st.m.m]
    label = 'insert_at_frontier'
    if given:
        fr = {q: cx.int(f'{s}.f{j}') for j, q in enumerate(qs)}  # unbounded
        # documented meaning of a frontier: no operation on q at or after frontier[q] and before start
        for q in qs:
            for i, mo in enumerate(before):
                if any(q in o.qubits for o in mo):
                    cx.assume(OR(fr[q] > i, start <= i))
        mfr = dict(fr)
        ok, r, mr = run_both(cx, st, label, lambda: st.c.insert_at_frontier(items, start, fr), lambda: st.m.insert_at_frontier(items, start, mfr))
    else:
        ok, r, mr = run_both(cx, st, label, lambda: st.c.insert_at_frontier(items, start), lambda: st.m.insert_at_frontier(items, start, {}))
    if ok:
        after = [list(mo.operations) for mo in st.c.moments]
        bad = CM.order_invariants(before, after, items, [int(start)] * len(items), list(range(len(items))), qubits_only=True)
        cx.check(not bad, f'{label}: invariant violated: {bad[:2]}')
        for q in qs:
            if given or q in mr:
                cx.check(r[q] == mr.get(q, 0), f'{label}: returned frontier of {q}')
    return label, True


CALLS = {
    'insert': call_insert,
    'append': lambda cx, st, s, mn: call_insert(cx, st, s, mn, append=True),
    'insert_into_range': call_insert_into_range,
    'batch_insert': call_batch_insert,
    'batch_insert_into': call_batch_insert_into,
    'batch_remove_replace': call_batch_remove_replace,
    'clear': call_clear,
    'setdel': call_setdel,
    'arith': call_arith,
    'combine': call_combine,
    'derive': call_derive,
    'frontier': call_frontier,
}
KINDS3 = ['insert', 'append', 'batch_insert', 'setdel', 'arith', 'derive']


# ------------------------------------------------------------------------------------------------
# obligations
# ------------------------------------------------------------------------------------------------
def history_body(bases, calls, menus):
    """base circuit (selector) followed by the given sequence of calls"""

    def body(cx, wrong=False):
        st = State()
        b = bases[cx.choose('base', len(bases))]
        build_base(st, b)
        verify(cx, st, f'base{b}', wrong=wrong and not calls)
        for n, name in enumerate(calls):
            label, exact = CALLS[name](cx, st, f's{n}', menus[n])
            verify(cx, st, f'{n}:{label}', check_model=exact, wrong=wrong and n == len(calls) - 1)

    return body


def construct_body(maxlen):
    """Circuit(*contents, strategy) for every sequence of <= maxlen menu operations (+ a moment)"""

    def body(cx, wrong=False):
        import cirq

        E = env()
        st = State()
        n = 1 + cx.choose('n', maxlen)
        spec = []
        for j in range(n):
            v = cx.choose(f'e{j}', 9)
            spec.append((3,) if v == 8 else v)
        strat = CM.STRATEGIES[cx.choose('strategy', 5)]
        items = st.tree(spec)
        frozen = cx.choose('frozen', 2)
        if frozen:
            st.c = cirq.FrozenCircuit(real_tree(items), strategy=E['strategy'][strat]).unfreeze()
        else:
            st.c = cirq.Circuit(real_tree(items), strategy=E['strategy'][strat])
        st.m = CircuitModel()
        st.m.append(items, strat)
        has_moment = any(isinstance(it, MomentItem) for it in items)
        exact = not (strat == NEW_THEN_INLINE and has_moment)
        ops, grp = flat_ops(items)
        after = [list(mo.operations) for mo in st.c.moments]
        bad = CM.order_invariants([], after, ops, [0] * len(ops), grp)
        cx.check(not bad, f'Circuit(contents, {strat}): invariant violated: {bad[:2]}')
        if not exact:
            st.m = CircuitModel(after)
        verify(cx, st, f'Circuit(contents, {strat})', check_model=exact, wrong=wrong)

    return body


def query_body(past_end):
    def body(cx, wrong=False):
        """next/prev_moment_operating_on with symbolic indices vs a scan of the model"""
        st = State()
        b = cx.choose('base', len(BASES))
        build_base(st, b)
        qs = env()['q']
        sub = [[qs[0]], [qs[1]], [qs[2]], [qs[0], qs[2]], list(qs)][cx.choose('qubits', 5)]
        which = 2 if past_end else cx.choose('which', 4)
        n = len(st.m.m)
        lo, hi = -(n + 3), n + 3

        def touches(i):
            return 0 <= i < n and any(set(sub) & set(o.qubits) for o in st.m.m[i])

        if which == 0:
            a = cx.int('start', lo, hi)  # reaches range()
            got = st.c.next_moment_operating_on(sub, a)
            a0 = int(a)
            hits = [i for i in range(max(a0, 0), n) if touches(i)]
            exp = hits[0] if hits else None
        elif which == 1:
            a = cx.int('start', lo, hi)
            d = cx.int('dist', 0, hi)
            got = st.c.next_moment_operating_on(sub, a, d)
            a0, d0 = int(a), int(d)
            hits = [i for i in range(a0, a0 + d0) if touches(i)]
            exp = hits[0] if hits else None
        elif which == 2:
            e = cx.int('end')  # unbounded: the real code compares / clamps it
            if past_end:
                cx.assume(e > n)
            got = st.c.prev_moment_operating_on(sub, e)
            if e > n:
                e0 = n
            elif e < 0:
                e0 = 0
            else:
                e0 = int(e)
            hits = [i for i in range(e0) if touches(i)]
            exp = hits[-1] if hits else None
        else:
            e = cx.int('end', lo, hi)
            d = cx.int('dist', 0, hi)
            got = st.c.prev_moment_operating_on(sub, e, d)
            e0, d0 = int(e), int(d)
            hits = [i for i in range(e0 - d0, e0) if touches(i)]
            exp = hits[-1] if hits else None
        if wrong:
            exp = 0 if exp is None else exp + 1
        if exp is None:
            cx.check(got is None, 'next/prev_moment_operating_on: expected None')
        elif past_end:
            cx.check(got is not None and got == exp, 'prev_moment_operating_on(end_moment_index > len, default max_distance): wrong moment')
        else:
            cx.check(got is not None and got == exp, 'next/prev_moment_operating_on: wrong moment')

    return body


LABEL_TAGGED = 'append/insert after with_tags: placement differs from the documented one'


def tagged_body(cx, wrong=False):
    """Circuit.with_tags returns a new circuit with the same moments; editing it afterwards must behave like
    editing any circuit with those moments"""
    E = env()
    st = State()
    b = cx.choose('base', len(BASES))
    build_base(st, b)
    t = st.c.with_tags('t')
    cx.check(st.c.with_tags() is st.c and t is not st.c and t.tags == ('t',) and st.c.tags == (), 'with_tags: tags / identity')
    _replace(st, t, st.m.copy())
    # the tagged circuit differs from an untagged rebuild only by its tags
    cx.check(same_moments(st.c, st.m) and st.c.untagged == E['cirq'].Circuit(st.c.moments), 'with_tags: moments changed')
    trees = OPS_ONLY(TREES_QUICK)
    items = st.tree(trees[cx.choose('tree', len(trees))])
    before = [list(mo) for mo in st.m.m]
    raised = False
    try:
        if cx.choose('how', 2):
            idx = cx.int('index', len(before), None)  # any index at or past the end, unbounded above
            st.c.insert(idx, items)
        else:
            st.c.append(items)
    except ValueError as e:  # "Overlapping operations" when the placement is wrong
        if 'symx:' in str(e):
            raise
        raised = True
    st.m.append(items, EARLIEST)
    after = [list(mo.operations) for mo in st.c.moments]
    bad = raised or CM.order_invariants(before, after, items, [len(before)] * len(items), list(range(len(items))))
    m = st.m
    if wrong:
        m = CircuitModel(st.m.m + [[]])
    cx.check(same_moments(st.c, m) and not bad, LABEL_TAGGED)
    for oc, om in st.others:
        cx.check(same_moments(oc, om), 'with_tags: the original circuit changed')


# ------------------------------------------------------------------------------------------------
# keys2: operations that carry BOTH a measurement key and a control key (menu operations 8..11: CircuitOperations
# whose body measures one key and holds an operation controlled by another key), inserted away from the append
# fast path: symbolic position inside circuits built from explicit moments (no placement cache) or from
# operations (the cache is dropped by the mid-circuit insert), next to moments that measure the key the
# operation measures / reads or that are controlled by the key it measures.
# ------------------------------------------------------------------------------------------------
K_SINGLES = [[8], [9], [10], [11], [14]]
K_PAIRS = [[8, 4], [4, 8], [8, 12], [12, 8], [8, 13], [13, 8], [8, 10], [10, 8], [8, 9], [8, 7], [11, 13], [12, 11], [10, 9], [6, 10]]
K_TRIPLES = [[4, 8, 13], [13, 8, 4], [10, 8, 10], [8, 0, 9]]
K_MOMENT = [[(8, 4)], [(10,), 8], [8, (13,)], [(8, 12), 9]]
K_NEIGH = [[4], [5], [6], [7], [12], [13]]  # plain key operations inserted next to both-key operations already present
K_BATCH = [[[8], [10], [4, 8]], [[9], [13], [12]]]  # tree menus of a batch_insert with two insertions

K_BASES = [
    ('moments', [(4,), (), (12,), (13,), (7,)]),  # measure m | - | measure a | reader of a | reader of m
    ('moments', [(13,), (5,), (), (10,)]),  # reader of a | measure m | - | (measures m, reads a)
    ('ops', [4, 8, 12, 7]),  # EARLIEST constructor: [measure m] [(measures a, reads m), reader of m] [measure a]
    ('moments', [(8, 5), (11,), (0, 13)]),  # both-key operations sharing moments with other key operations
]


def k_trees(b):
    trees = K_SINGLES + K_PAIRS + K_TRIPLES + K_MOMENT
    if b > 0:  # the base circuit holds both-key operations
        trees = trees + K_NEIGH
    return trees


def keys2_body(b, calls, menus):
    inner = history_body([K_BASES[b]], calls, menus)

    def body(cx, wrong=False):
        import cirq

        E = env()
        ks = lambda keys: frozenset(str(k) for k in keys)
        for i, (mk, ck) in E['keys'].items():
            op = E['ops'][i].with_tags('#0')
            ok = ks(cirq.measurement_key_objs(op)) == frozenset(mk.split()) and ks(cirq.control_keys(op)) == frozenset(ck.split())
            cx.check(ok, f'menu operation {i}: measurement / control keys differ from the declared ones')
        inner(cx, wrong)

    return body


def obligations(tier):
    quick = tier == 'quick'
    obs = []
    TREES = TREES_QUICK if quick else TREES_FULL
    all_bases = list(range(len(BASES)))

    def add(name, body, desc, weight=1, max_paths=400000):
        obs.append(
            Obligation(
                name,
                body,
                twin=lambda cx, b=body: b(cx, wrong=True),
                opts={'weight': weight, 'max_paths': max_paths, 'depth_limit': 3000, 'int_fork_limit': 64},
                points=[{}, {}],  # concrete-mode runs (plain ints, no shim) with default selectors and two integer fillings
                desc=desc,
            )
        )

    # ---- construction -----------------------------------------------------------------------
    add('construct', construct_body(3 if quick else 4), 'Circuit / FrozenCircuit(contents, strategy) for all sequences of menu items vs the model appending them run by run', weight=20)

    # ---- one call on every base circuit, full menus -----------------------------------------
    for b in all_bases:
        for strat in CM.STRATEGIES:
            add(
                f'step.insert.{strat}.base{b}',
                history_body([b], ['insert'], [Menu(3, TREES, [strat])]),
                f'insert(index, tree, {strat}) with an unbounded symbolic index on base circuit {b}',
                weight=4,
            )
        for name in CALLS:
            if name == 'insert':
                continue
            add(f'step.{name}.base{b}', history_body([b], [name], [Menu(3, TREES)]), f'{name} with symbolic integer arguments on base circuit {b}', weight=6 if name in ('batch_insert', 'frontier') else 3)

    # ---- histories -----------------------------------------------------------------------------
    names = list(CALLS)

    def second(kind):
        """menu of the LAST call of a history: minimal, except append (cheap: no integer) which keeps all strategies"""
        return Menu(1) if kind == 'append' else Menu(0)

    if quick:
        for seq in itertools.product(names, repeat=2):
            if seq[0] == 'insert':
                for strat in (EARLIEST, INLINE, LATEST):
                    add(f'hist.insert[{strat}].{seq[1]}', history_body([1], list(seq), [Menu(1, None, [strat]), second(seq[1])]), f'history insert[{strat}], {seq[1]} from base circuit 1 (small / minimal menus)', weight=5)
            else:
                add('hist.' + '.'.join(seq), history_body([1], list(seq), [Menu(1), second(seq[1])]), f'history {seq} from base circuit 1 (small / minimal menus)', weight=5)
    else:
        for seq in itertools.product(names, repeat=2):
            if seq[0] == 'insert':
                for strat in CM.STRATEGIES:
                    add(f'hist.insert[{strat}].{seq[1]}', history_body([1], list(seq), [Menu(2, None, [strat]), second(seq[1])]), f'history insert[{strat}], {seq[1]} from base circuit 1 (medium / minimal menus)', weight=10)
            else:
                add('hist.' + '.'.join(seq), history_body([1], list(seq), [Menu(2), second(seq[1])]), f'history {seq} from base circuit 1 (medium / minimal menus)', weight=10)
            add('histB.' + '.'.join(seq), history_body([4], list(seq), [Menu(1), second(seq[1])]), f'history {seq} from base circuit 4 (built from moments, no placement cache; small / minimal menus)', weight=6)
        for seq in itertools.product(KINDS3, repeat=3):
            add('hist3.' + '.'.join(seq), history_body([1], list(seq), [Menu(0)] * 3), f'history {seq} from base circuit 1 (minimal menus)', weight=4)

    # ---- keys2: operations with both a measurement key and a control key, off the append fast path --------
    kb = [0, 1, 2, 3]
    for b in kb:
        trees = k_trees(b)
        for strat in CM.STRATEGIES:
            add(
                f'keys2.insert.{strat}.kbase{b}',
                keys2_body(b, ['insert'], [Menu(3, trees, [strat])]),
                f'insert(unbounded symbolic index, tree holding operations with a measurement key AND a control key, {strat}) into key-conflict base circuit {b}',
                weight=5,
            )
        add(f'keys2.append.kbase{b}', keys2_body(b, ['append'], [Menu(3, trees)]), f'append(tree holding both-key operations, every strategy) to key-conflict base circuit {b} (placement cache alive only on base 2)', weight=3)
        add(f'keys2.insert_into_range.kbase{b}', keys2_body(b, ['insert_into_range'], [Menu(3, trees)]), f'insert_into_range(both-key operations, symbolic start / end) on key-conflict base circuit {b}', weight=5)
        add(f'keys2.batch_insert.kbase{b}', keys2_body(b, ['batch_insert'], [Menu(3, trees, batch=K_BATCH)]), f'batch_insert of one / two groups of both-key operations at symbolic indices on key-conflict base circuit {b}', weight=8)
    # two edits in a row (the first one decides whether a placement cache is alive when the second one starts)
    htrees = [[8], [4, 8]] if quick else [[8], [10], [4, 8]]
    k_second = Menu(1, [[9], [13, 11]], [EARLIEST, INLINE], batch=[[[9], [13, 11]], [[12]]])
    for b in ([1, 2] if quick else kb):
        for strat in (EARLIEST, INLINE) if quick else (EARLIEST, INLINE, LATEST):
            if quick and b == 2 and strat != EARLIEST:
                continue
            for nxt in ('insert', 'batch_insert', 'insert_into_range'):
                if quick and nxt == ('insert_into_range' if b == 1 else 'batch_insert'):
                    continue
                add(
                    f'keys2.hist.insert[{strat}].{nxt}.kbase{b}',
                    keys2_body(b, ['insert', nxt], [Menu(3, htrees, [strat]), k_second]),
                    f'history insert[{strat}] of both-key operations, then {nxt} of both-key operations, symbolic positions, key-conflict base circuit {b}',
                    weight=6,
                )

    # ---- queries with symbolic indices ---------------------------------------------------------
    add('query.next_prev', query_body(False), 'next/prev_moment_operating_on(qubits, symbolic index, symbolic distance) vs model scan', weight=5)
    # ---- obligations that FAIL on the unchanged tree (pre-existing defects, listed in known_findings.json) ----
    add('query.prev_past_end', query_body(True), 'prev_moment_operating_on(qubits, end_moment_index > len, unbounded) with the default (unlimited) distance vs model scan [defect found by this check, repaired in 387d626]', weight=1)
    add('tagged.with_tags_then_append', tagged_body, 'c.with_tags(t) followed by append / insert at the end: placement must respect the existing moments [known finding]', weight=1)
    return obs


LEVEL = (
    'Solver-driven bounded exploration of the real Circuit code (bounded symbolic execution, SMT-decided): which operations, strategy, base '
    'circuit and call sequence are used is a finite selector and is enumerated exhaustively; every integer argument (insert index, range start/end, '
    'batch indices, clear indices, slice bounds, repetition count, frontier values, query indices) is a z3 integer, unbounded wherever the real code '
    'clamps/compares it before use, and partitioned by the comparisons the real code performs (index >= 0, clamps to len, k != len placement-cache '
    'guard, range checks).  On every path the real circuit is compared with a list-of-lists model written from the documentation, property-level '
    'invariants are evaluated independently of the model, returned indices are compared as solver terms, and every cached query is compared with a '
    'freshly rebuilt equal circuit.  The keys2 obligations repeat this for operations that have both a measurement key and a control key '
    '(fixed CircuitOperations, 2 keys) inserted by insert (5 strategies) / append / insert_into_range / batch_insert at symbolic positions next to '
    'moments measuring or reading those keys, on circuits without a live placement cache.'
)


def main(tier, seed=0, replay=None, only=None, procs=None):
    bounds = {
        'qubits': 3,
        'operation_menu': 'X(q0), Z(q2)**t (parameterized), CZ(q0,q1), CNOT(q1,q2), measure(q0,"m"), measure(q2,"m") (same key), X(q1) and Z(q2) classically controlled by "m"; every occurrence carries a unique tag',
        'trees': 'all 8 single operations, ordered pairs (11 quick / all 64 thorough), 3 / 8 triples, 1 / 2 quadruples, 4 / 6 trees containing whole Moments (incl. an empty one and one holding two same-key measurements)',
        'base_circuits': '6 circuits of 0..4 moments built through the public constructors (EARLIEST from operations = placement cache alive, from Moments, strategy=NEW)',
        'histories': 'construction (all sequences of <=3 / <=4 items, 5 strategies); every base + 1 call with full menus; quick: every ordered pair of the 12 call kinds from base 1 (first call small menus, second call minimal menus); '
        'thorough: every ordered pair from base 1 (medium menus, then minimal) and from base 4 (small, then minimal), and every ordered triple of 6 call kinds (insert, append, batch_insert, setdel, arith, derive) from base 1 with minimal menus',
        'menu_levels': 'minimal: 1 tree (X(q0)), insert strategies EARLIEST/LATEST, 2-3 variants per call kind; small: 2 trees (X(q0); measure(q0,m)+controlled X(q1)), insert strategies EARLIEST/INLINE/LATEST, append all 5; medium: 8 trees, all 5 strategies, all variants; full: the tree menus listed under trees',
        'keys2': 'operations carrying BOTH a measurement key and a control key: 4 CircuitOperations (q1: measures a / reads m; q2: the same through a measurement_key_map; q0: measures m / reads a; q1: reads a then '
        'measures a) + a CircuitOperation whose read of its own key is internal + measure(q0,"a") + Z(q2) controlled by "a"; their keys are declared in the harness and compared with the accessors the model uses. '
        '27 trees (5 singles, 14 ordered pairs with every kind of key neighbour, 4 triples, 4 trees with whole Moments) + 6 single plain key operations on the bases that already hold both-key operations; '
        '4 key-conflict base circuits (3 from explicit moments incl. an empty moment = no placement cache, 1 from operations = cache dropped by the mid-circuit insert). Calls: insert with each of the 5 strategies '
        '(index: unbounded z3 integer), append (5 strategies), insert_into_range (start / end unbounded z3 integers; key order claimed for the overflow part only, the inline part is documented as qubit-only), '
        'batch_insert (1 group from the tree menu or 2 groups from 3x3 trees, indices z3 integers >= 0), all on every base; histories insert[strategy] -> insert / batch_insert / insert_into_range (second call EARLIEST / INLINE) with small menus '
        '(quick: 6 of them on bases 1, 2; thorough: first insert EARLIEST / INLINE / LATEST x 3 second calls x 4 bases). Same oracle as elsewhere: documented placement model, model-independent order invariants with the full conflict relation '
        '(shared qubit, same measurement key, measurement key vs control key in either direction), cached queries vs rebuild',
        'call_menu': list(CALLS),
        'unbounded_integers': 'insert index; insert_into_range start/end; batch_insert indices (>= 0); clear_operations_touching indices; insert_at_frontier frontier values; prev_moment_operating_on end index',
        'windowed_integers': '[-(len+2), len+2] (len+1 at the small menu levels; len = current number of moments, i.e. every clamping class of list indexing) for integers that reach a C boundary before any comparison of the real code: '
        'moment index of batch_insert_into/batch_remove/batch_replace, c[i], slice bounds, next_moment_operating_on start / max_distance (range()); [0, len+2] for insert_at_frontier start; [-2,3] ([-1,2] small) for the repetition count of *',
        'enumerated_not_symbolic': 'operations, trees, strategies, base circuits, call kinds, qubit subsets, alignments (finite selectors, exhaustively explored: this part is bounded exhaustive exploration)',
        'known_findings': [
            'query.prev_past_end: prev_moment_operating_on(qubits, end_moment_index > len) with default max_distance missed moments; found by this check, repaired in /repo commit 387d626, the obligation now passes',
            'tagged.with_tags_then_append: Circuit.with_tags returns a circuit with a live but empty placement cache, a following append / insert at the end ignores the existing moments',
        ],
        'outside': [
            'exact placement for trees containing a Moment under NEW_THEN_INLINE (documentation silent; invariants still checked)',
            'order of an inserted operation relative to LATER conflicting operations when several operations are inserted mid-circuit with EARLIEST (documented exception of the property)',
            'negative indices of batch_insert and negative start of insert_at_frontier (not documented)',
            'factorize, with_noise, text diagrams, qasm, json',
            'circuits with more than 3 qubits, qudits, CircuitOperation contents (beyond the 5 fixed CircuitOperations of the keys2 menu, which are opaque operations with a key signature here)',
            'keys2: key conflicts inside the inline part of insert_into_range and in batch_insert_into / insert_at_frontier (documented as qubit-only placement); more than two distinct keys; repetitions / repeat_until / nested key paths of a CircuitOperation',
        ],
    }
    return run_check(PID, tier, 'checks.C05', SHIMS, LEVEL, ASSUMPTIONS, bounds, seed=seed, replay=replay, only=only, procs=procs)

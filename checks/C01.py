"""C01: unitary simulation equals the ordered product of operation matrices."""
from __future__ import annotations

import itertools
import math

import numpy as np

from checks.common import BASE_ASSUMPTIONS, CORE_SHIM_MODULES
from oracles import embed as EM
from oracles import gates_doc as D
from symx.explore import Obligation
from symx.run import run_check

PID = 'C01'
SHIMS = CORE_SHIM_MODULES + [
    'cirq.protocols.decompose_protocol',
    'cirq.protocols.act_on_protocol',
    'cirq.protocols.has_unitary_protocol',
    'cirq.ops.control_values',
    'cirq.circuits.circuit',
    'cirq.circuits.moment',
    'cirq.circuits.frozen_circuit',
    'cirq.qis.states',
    'cirq.value.product_state',
    'cirq.sim.sparse_simulator',
    'cirq.sim.simulator_base',
    'cirq.sim.simulator',
    'cirq.sim.state_vector_simulation_state',
    'cirq.sim.simulation_state',
    'cirq.sim.simulation_state_base',
    'cirq.sim.simulation_product_state',
    'cirq.sim.state_vector',
    'cirq.sim.simulation_utils',
    'cirq.sim.mux',
    'cirq.sim.state_vector_simulator',
    'cirq.sim.density_matrix_simulator',
    'cirq.sim.density_matrix_simulation_state',
    'cirq.sim.density_matrix_utils',
    'cirq.sim.classical_simulator',
    'cirq.study.resolver',
]

BOX = 4.0


R2 = 2**-0.5


def menu():
    """(name, nparams, builder, doc, k)"""
    import cirq

    return [
        ('X', 1, lambda t: cirq.X**t, D.X, 1),
        ('Y', 1, lambda t: cirq.Y**t, D.Y, 1),
        ('Z', 1, lambda t: cirq.Z**t, D.Z, 1),
        ('H', 1, lambda t: cirq.H**t, D.H, 1),
        ('rx', 1, lambda t: cirq.rx(t), D.rx, 1),
        ('PhX', 2, lambda t, p: cirq.PhasedXPowGate(exponent=t, phase_exponent=p), lambda t, p: D.phased_x(t, p), 1),
        ('CZ', 1, lambda t: cirq.CZ**t, D.CZ, 2),
        ('CX', 1, lambda t: cirq.CX**t, D.CX, 2),
        ('SWAP', 1, lambda t: cirq.SWAP**t, D.SWAP, 2),
        ('ISWAP', 1, lambda t: cirq.ISWAP**t, D.ISWAP, 2),
        ('FSim', 2, lambda a, b: cirq.FSimGate(a, b), D.fsim, 2),
        ('ZZ', 1, lambda t: cirq.ZZ**t, D.ZZ, 2),
        ('CCX', 1, lambda t: cirq.CCX**t, D.CCX, 3),
        ('CCZ', 1, lambda t: cirq.CCZ**t, D.CCZ, 3),
        ('CSWAP', 0, lambda: cirq.CSWAP, lambda: D.CSWAP(), 3),
        ('Xshift', 1, lambda t: cirq.XPowGate(exponent=t, global_shift=-0.5), lambda t: D.X(t, -0.5), 1),
        ('SWAP1', 0, lambda: cirq.SWAP, lambda: D.SWAP(1.0), 2),
        ('X1', 0, lambda: cirq.X, lambda: D.X(1.0), 1),
        ('CX1', 0, lambda: cirq.CNOT, lambda: D.CX(1.0), 2),
    ]


QUICK_SECOND = ('X', 'H', 'CZ', 'CX1', 'SWAP')
QUICK_FIRST2 = ('H', 'CX', 'SWAP', 'FSim')


def build_circuit(cx, n, n_ops, first=None, second_menu=None):
    """chooses a circuit shape (gate, placement per op) and fresh symbolic parameters per occurrence.
    returns (ops list, oracle steps [(matrix, positions)])"""
    import cirq

    M = menu()
    qs = cirq.LineQubit.range(n)
    ops, steps = [], []
    for i in range(n_ops):
        cand = [m for m in M if m[4] <= n]
        if i > 0 and second_menu is not None:
            cand = [m for m in cand if m[0] in second_menu]
        if i == 0 and first is not None:
            m = next(x for x in cand if x[0] == first)
        else:
            m = cand[cx.choose(f'g{i}', len(cand))]
        name, npar, build, doc, k = m
        places = list(itertools.permutations(range(n), k))
        pl = places[cx.choose(f'pl{i}', len(places))]
        ps = [cx.real(f'p{i}_{j}', -BOX, BOX) for j in range(npar)]
        g = build(*ps)
        ops.append(g.on(*[qs[a] for a in pl]))
        steps.append((doc(*ps), list(pl)))
    return qs, ops, steps


def oracle_state(steps, psi_tensor):
    out = psi_tensor
    for Mx, pos in steps:
        out = EM.apply_matrix_to_axes(Mx, out, pos)
    return out


def oracle_unitary(steps, n):
    N = 2**n
    eye = np.eye(N, dtype=complex).reshape((2,) * (2 * n))
    out = eye
    for Mx, pos in steps:
        out = EM.apply_matrix_to_axes(Mx, out, pos)
    return out.reshape(N, N)


def basis_tensor(n, idx):
    v = np.zeros(2**n, dtype=complex)
    v[idx] = 1
    return v.reshape((2,) * n)


def permute_state(t, order):
    """amplitudes re-indexed for qubit_order = [q[order[0]], q[order[1]], ...]"""
    return np.transpose(t, order)


def obligations(tier):
    import cirq

    obs = []
    NOPS = 2
    N = 3
    firsts = [m[0] for m in menu()]
    # (entry point, split_untangled_states, initial-state kind 0=basis index 1=symbolic vector)
    SECOND = QUICK_SECOND if tier == 'quick' else None
    if tier == 'quick':
        CONFIGS = [(0, True, 0), (0, False, 1), (0, True, 1), (1, True, 2), (1, False, 0), (2, True, 0), (2, False, 0), (3, True, 0), (4, True, 0), (4, False, 0), (5, True, 0)]
        BASIS = [5]
        CONFIGS2 = [(0, True, 1), (0, True, 0), (1, False, 0), (4, True, 0)]
    else:
        CONFIGS = [(0, sp, k) for sp in (True, False) for k in (0, 1, 2)] + [(1, sp, k) for sp in (True, False) for k in (0, 2)] + [(2, sp, 0) for sp in (True, False)] + [(3, True, 0), (5, True, 0)] + [(4, sp, 0) for sp in (True, False)]
        BASIS = list(range(8))
        CONFIGS2 = CONFIGS

    def wrong_steps(steps):
        Mx, pos = steps[-1]
        from checks.common import perturb

        return steps[:-1] + [(perturb(Mx), pos)]

    # ---- Circuit.unitary / final_state_vector with qubit order ------------------------------------
    for first in (firsts if tier != 'quick' else [f for f in firsts if f not in ('rx', 'Y', 'ZZ', 'CCZ', 'X1', 'CX1', 'SWAP1', 'Xshift')]):
        def body(cx, wrong=False, first=first):
            qs, ops, steps = build_circuit(cx, N, NOPS, first, SECOND)
            circuit = cirq.Circuit(ops)
            orders = [(0, 1, 2), (2, 0, 1), (1, 0, 2)] if tier != 'quick' else [(2, 0, 1)]
            order = orders[cx.choose('order', len(orders))]
            U = circuit.unitary(qubit_order=[qs[i] for i in order], qubits_that_should_be_present=qs)
            st = wrong_steps(steps) if wrong else steps
            # oracle in natural order, then permute rows/cols
            Uo = oracle_unitary(st, N).reshape((2,) * (2 * N))
            perm = list(order) + [N + i for i in order]
            Uo = np.transpose(Uo, perm).reshape(2**N, 2**N)
            cx.close(U, Uo, label=f'Circuit.unitary order={order}')

        obs.append(Obligation(f'circuit_unitary.{first}', body, twin=lambda cx, b=body: b(cx, wrong=True), opts={'weight': 4, 'max_paths': 100000}, desc=f'Circuit.unitary(qubit_order) of every {NOPS}-op circuit starting with {first} over the 19-gate menu, all placements on 3 wires, fresh symbolic parameters per op, vs ordered product of documented matrices embedded by index arithmetic'))

    # ---- simulators: basis / full-vector initial state, split on/off, steps ----------------------
    # one obligation per (first gate[, second gate]) so that the work spreads over all cores
    if tier == 'quick':
        sim_jobs = [(f, 1, None) for f in firsts] + [(f, 2, (g2,)) for f in QUICK_FIRST2 for g2 in QUICK_SECOND]
    else:
        # thorough: every first gate x the 5-gate second menu, with ALL configurations (the full 19 x 19 product with
        # all configurations ran 16 cores for more than two hours without finishing and is not part of the claim)
        sim_jobs = [(f, 1, None) for f in firsts] + [(f, 2, (g2,)) for f in firsts for g2 in QUICK_SECOND]
    for first, nops, second in sim_jobs:
        def body(cx, wrong=False, first=first, nops=nops, second=second):
            qs, ops, steps = build_circuit(cx, N, nops, first, second)
            circuit = cirq.Circuit(ops)
            st = wrong_steps(steps) if wrong else steps
            cfgs = CONFIGS if (nops == 1 or tier != 'quick') else CONFIGS2
            cfg = cfgs[cx.choose('config', len(cfgs))]
            mode, split, init_kind = cfg
            if init_kind == 0:
                b = BASIS[cx.choose('basis', len(BASIS))]
                init = b
                psi0 = basis_tensor(N, b)
            elif init_kind == 1:
                # arbitrary (not even normalised) amplitudes, handed over as a simulation-state object
                psi0 = EM.sym_tensor(cx, (2,) * N, 'A')
                init = cirq.StateVectorSimulationState(initial_state=_copy(psi0), qubits=qs, dtype=np.complex128)
            else:
                psi0 = normalised_family(cx, N)
                init = cirq.StateVectorSimulationState(initial_state=_copy(psi0), qubits=qs, dtype=np.complex128)
            exp = oracle_state(st, psi0).reshape(-1)
            if mode == 0:
                sim = cirq.Simulator(split_untangled_states=split, dtype=np.complex128)
                vecs = [stp.state_vector(copy=True) for stp in sim.simulate_moment_steps(circuit, qubit_order=qs, initial_state=init)]
                cx.close(vecs[-1], exp, label=f'Simulator.simulate_moment_steps split={split}')
                # the intermediate step equals the prefix product (step results are read while iterating)
                if len(vecs) == len(st) and init_kind != 1:
                    mid = oracle_state(st[:1], psi0).reshape(-1)
                    cx.close(vecs[0], mid, label='step0 state')
            elif mode == 1:
                sim = cirq.Simulator(split_untangled_states=split, dtype=np.complex128)
                res = sim.simulate(circuit, qubit_order=qs, initial_state=init)
                cx.close(res.final_state_vector, exp, label=f'Simulator.simulate.final_state_vector split={split}')
            elif mode == 2:
                # permuted qubit order: amplitudes permuted accordingly (basis initial states only)
                sim = cirq.Simulator(split_untangled_states=split, dtype=np.complex128)
                order = [2, 0, 1]
                init2 = int(np.argmax(np.abs(np.transpose(basis_tensor(N, init), order).reshape(-1))))
                res = sim.simulate(circuit, qubit_order=[qs[i] for i in order], initial_state=init2)
                cx.close(res.state_vector(), np.transpose(exp.reshape((2,) * N), order).reshape(-1), label=f'Simulator.simulate qubit_order={order} split={split}')
            elif mode == 3:
                got = circuit.final_state_vector(initial_state=init, qubit_order=qs, dtype=np.complex128, ignore_terminal_measurements=False)
                cx.close(got, exp, label='Circuit.final_state_vector')
            elif mode == 4:
                dsim = cirq.DensityMatrixSimulator(dtype=np.complex128, split_untangled_states=split)
                res = dsim.simulate(circuit, qubit_order=qs, initial_state=init)
                rho = res.final_density_matrix
                cx.close(rho, _outer(exp), label=f'DensityMatrixSimulator.final_density_matrix split={split}')
            else:
                got = cirq.final_state_vector(circuit, initial_state=init, qubit_order=qs, dtype=np.complex128)
                cx.close(got, exp, label='cirq.final_state_vector')

        obs.append(Obligation(f'simulate{nops}.{first}' + (f'.{second[0]}' if second else ''), body, twin=lambda cx, b=body: b(cx, wrong=True), opts={'weight': 10, 'max_paths': 200000}, desc=f'Simulator.simulate / simulate_moment_steps (split_untangled_states on/off, permuted qubit order), Circuit.final_state_vector, cirq.final_state_vector, DensityMatrixSimulator on every {nops}-op circuit starting with {first}; initial state = every basis index or a fully SYMBOLIC state vector'))
    # ---- parameter sweeps: every point of simulate_sweep equals the simulation of the resolved circuit -------------------
    import sympy

    SYM = sympy.Symbol('a')

    def sweep_shapes(q):
        # (operations using the symbol, oracle steps as a function of its value)
        return [
            ([cirq.H(q[0]), cirq.CNOT(q[0], q[1]), cirq.X(q[0]) ** SYM, cirq.SWAP(q[0], q[1])], lambda v: [(D.H(1.0), [0]), (D.CX(1.0), [0, 1]), (D.X(v), [0]), (D.SWAP(1.0), [0, 1])]),
            ([cirq.X(q[1]) ** SYM, cirq.CNOT(q[1], q[2]), cirq.SWAP(q[1], q[2]), cirq.H(q[2])], lambda v: [(D.X(v), [1]), (D.CX(1.0), [1, 2]), (D.SWAP(1.0), [1, 2]), (D.H(1.0), [2])]),
            ([cirq.H(q[0]), cirq.CNOT(q[0], q[2]), cirq.Z(q[2]) ** SYM, cirq.SWAP(q[2], q[0]), cirq.CNOT(q[0], q[1])], lambda v: [(D.H(1.0), [0]), (D.CX(1.0), [0, 2]), (D.Z(v), [2]), (D.SWAP(1.0), [2, 0]), (D.CX(1.0), [0, 1])]),
            ([cirq.H(q[0]), cirq.CZ(q[0], q[1]) ** SYM, cirq.ISWAP(q[0], q[1]), cirq.SWAP(q[1], q[2])], lambda v: [(D.H(1.0), [0]), (D.CZ(v), [0, 1]), (D.ISWAP(1.0), [0, 1]), (D.SWAP(1.0), [1, 2])]),
        ]

    def sweep_body(cx, wrong=False):
        q = cirq.LineQubit.range(N)
        shapes = sweep_shapes(q)
        ops, steps_of = shapes[cx.choose('shape', len(shapes))]
        v1 = cx.real('a1', -BOX, BOX)
        v2 = cx.real('a2', -BOX, BOX)
        simk = cx.choose('simulator', 2)
        split = bool(cx.choose('split', 2))
        b = [0, 5][cx.choose('basis', 2)]
        circuit = cirq.Circuit(ops)
        sim = (cirq.Simulator if simk == 0 else cirq.DensityMatrixSimulator)(dtype=np.complex128, split_untangled_states=split)
        results = sim.simulate_sweep(circuit, params=[cirq.ParamResolver({'a': v1}), cirq.ParamResolver({'a': v2})], qubit_order=q, initial_state=b)
        cx.check(len(results) == 2, label='simulate_sweep: one result per resolver')
        for i, v in enumerate((v1, v2)):
            st = steps_of(v)
            if wrong and i == 1:
                st = wrong_steps(st)
            exp = oracle_state(st, basis_tensor(N, b)).reshape(-1)
            if simk == 0:
                cx.close(results[i].final_state_vector, exp, label=f'Simulator.simulate_sweep point {i} split={split}')
            else:
                cx.close(results[i].final_density_matrix, _outer(exp), label=f'DensityMatrixSimulator.simulate_sweep point {i} split={split}')

    obs.append(Obligation('simulate_sweep', sweep_body, twin=lambda cx: sweep_body(cx, wrong=True), opts={'weight': 8}, desc='Simulator / DensityMatrixSimulator.simulate_sweep over TWO resolvers with symbolic values of one symbol, 4 circuit shapes (unparameterized prefix + parameterized suffix with SWAP / ISWAP / CNOT on entangled qubits), split on/off, two basis states: every sweep point equals the ordered product of the documented matrices at its own parameter value'))

    # ---- zero-qubit operations: a global phase operation multiplies the reported state vector -------------------------
    def gphase_body(cx, wrong=False):
        q = cirq.LineQubit.range(2)
        t = cx.real('t', -BOX, BOX)
        u = cx.real('u', -2.0, 2.0)
        where = cx.choose('where', 3)
        ops = [cirq.X(q[0]) ** t, cirq.CNOT(q[0], q[1])]
        ops.insert(where, cirq.global_phase_operation(D.ph(u)))
        circuit = cirq.Circuit(ops)
        psi = basis_tensor(2, 0)
        psi = EM.apply_matrix_to_axes(D.X(t), psi, [0])
        psi = EM.apply_matrix_to_axes(D.CX(1.0), psi, [0, 1])
        exp = psi.reshape(-1) * (D.ph(u) if not wrong else D.ph(u + 1))
        mode = cx.choose('entry', 5)
        split = bool(cx.choose('split', 2))
        if mode == 0:
            got = cirq.Simulator(dtype=np.complex128, split_untangled_states=split).simulate(circuit, qubit_order=q).final_state_vector
        elif mode == 1:
            got = [s_.state_vector(copy=True) for s_ in cirq.Simulator(dtype=np.complex128, split_untangled_states=split).simulate_moment_steps(circuit, qubit_order=q)][-1]
        elif mode == 2:
            got = circuit.final_state_vector(qubit_order=q, dtype=np.complex128)
        elif mode == 3:
            got = cirq.final_state_vector(circuit, qubit_order=q, dtype=np.complex128)
        else:
            got = np.asarray(circuit.unitary(qubit_order=q), dtype=object)[:, 0]
        cx.close(got, exp, label=f'global phase operation at position {where}: entry point {mode} split={split} reports exp(i pi u) * state')

    obs.append(Obligation('simulate.global_phase_op', gphase_body, twin=lambda cx: gphase_body(cx, wrong=True), opts={'weight': 4}, desc='Circuit(X**t, CNOT) with cirq.global_phase_operation(exp(i pi u)) inserted at every position, symbolic t and u: Simulator.simulate / simulate_moment_steps (split on/off), Circuit.final_state_vector, cirq.final_state_vector and column 0 of Circuit.unitary all carry the phase exactly'))

    # ---- ProductState initial states: expressed in the SIMULATION's qubit order ---------------------------------------
    KETS = [('KET_ZERO', [1, 0]), ('KET_ONE', [0, 1]), ('KET_PLUS', [R2, R2]), ('KET_MINUS', [R2, -R2]), ('KET_IMAG', [R2, 1j * R2]), ('KET_MINUS_IMAG', [R2, -1j * R2])]

    def product_state_body(cx, wrong=False):
        q = cirq.LineQubit.range(2)
        t = cx.real('t', -4.0, 4.0)
        ka = cx.choose('ket0', len(KETS))
        kb = cx.choose('ket1', len(KETS))
        order = [[0, 1], [1, 0]][cx.choose('order', 2)]
        simk = cx.choose('simulator', 2)
        split = bool(cx.choose('split', 2))
        ps = getattr(cirq, KETS[ka][0])(q[0]) * getattr(cirq, KETS[kb][0])(q[1])
        circuit = cirq.Circuit(cirq.X(q[0]) ** t, cirq.CNOT(q[0], q[1]))
        # documented: the tensor product of the named one-qubit states, axes in the order of `qubit_order`
        vecs = {0: np.array(KETS[ka][1], dtype=complex), 1: np.array(KETS[kb][1], dtype=complex)}
        psi = np.asarray(np.kron(vecs[order[0]], vecs[order[1]]).reshape(2, 2), dtype=object)
        pos = {qi: order.index(qi) for qi in (0, 1)}
        psi = EM.apply_matrix_to_axes(D.X(t) if not wrong else D.X(t + 1), psi, [pos[0]])
        psi = EM.apply_matrix_to_axes(D.CX(1.0), psi, [pos[0], pos[1]])
        exp = psi.reshape(-1)
        qo = [q[i] for i in order]
        if simk == 0:
            res = cirq.Simulator(dtype=np.complex128, split_untangled_states=split).simulate(circuit, qubit_order=qo, initial_state=ps)
            cx.close(res.final_state_vector, exp, label=f'Simulator.simulate(initial_state=ProductState, qubit_order={order}) split={split}')
        else:
            res = cirq.DensityMatrixSimulator(dtype=np.complex128, split_untangled_states=split).simulate(circuit, qubit_order=qo, initial_state=ps)
            cx.close(res.final_density_matrix, _outer(exp), label=f'DensityMatrixSimulator.simulate(initial_state=ProductState, qubit_order={order}) split={split}')

    obs.append(Obligation('simulate.product_state_init', product_state_body, twin=lambda cx: product_state_body(cx, wrong=True), opts={'weight': 4}, desc='Simulator / DensityMatrixSimulator.simulate(X**t, CNOT) from every cirq.ProductState of two named one-qubit states (36), both qubit orders, split on/off, symbolic t: the initial state is the tensor product in the order of qubit_order'))

    # ---- ClassicalStateSimulator on reversible classical circuits: symbolic classical bits ---------------------
    def classical_menu():
        xor2 = cirq.SumOfProducts([[0, 1], [1, 0]])
        eq2 = cirq.SumOfProducts([[0, 0], [1, 1]])
        return [
            ('X', cirq.X, 1), ('CNOT', cirq.CNOT, 2), ('SWAP', cirq.SWAP, 2), ('TOFFOLI', cirq.TOFFOLI, 3), ('CSWAP', cirq.CSWAP, 3),
            ('X.c0', cirq.X.controlled(control_values=[0]), 2), ('X.c(01)', cirq.X.controlled(control_values=[(0, 1)]), 2),
            ('X.c10', cirq.X.controlled(2, control_values=[1, 0]), 3), ('X.xor', cirq.ControlledGate(cirq.X, control_values=xor2), 3),
            ('X.eq', cirq.ControlledGate(cirq.X, control_values=eq2), 3), ('SWAP.c0', cirq.ControlledGate(cirq.SWAP, control_values=[0]), 3),
            ('CNOT.c1', cirq.ControlledGate(cirq.CNOT, control_values=[1]), 3), ('perm2', cirq.QubitPermutationGate([1, 0]), 2),
            ('perm3', cirq.QubitPermutationGate([2, 0, 1]), 3), ('perm3b', cirq.QubitPermutationGate([1, 2, 0]), 3), ('I', cirq.I, 1),
        ]

    CM = classical_menu()

    def classical_body(cx, wrong=False, first=0):
        from cirq.sim.classical_simulator import ClassicalBasisSimState
        from oracles import pauli as OPP
        from symx.sint import SBool

        n = 3
        qs = cirq.LineQubit.range(n)
        seq = [first, cx.choose('g1', len(CM))]
        ops = []
        for i, gi in enumerate(seq):
            name, g, k = CM[gi]
            places = list(itertools.permutations(range(n), k))
            pl = places[cx.choose(f'pl{i}', len(places))]
            ops.append(g.on(*[qs[a] for a in pl]))
        bits = [cx.bool(f'b{i}') for i in range(n)]
        st = ClassicalBasisSimState(initial_state=list(bits), qubits=qs)
        for op in ops:
            cirq.act_on(op, st)
        got = list(st._state.basis)
        # oracle: the permutation of basis states defined by the operation matrices (big-endian)
        table = {}
        U = cirq.Circuit(ops).unitary(qubit_order=qs, qubits_that_should_be_present=qs)
        for x in range(2**n):
            y = int(np.argmax(np.abs(U[:, x])))
            assert abs(abs(U[y, x]) - 1) < 1e-9
            inb = tuple((x >> (n - 1 - j)) & 1 for j in range(n))
            outb = tuple((y >> (n - 1 - j)) & 1 for j in range(n))
            table[inb] = (outb, 0)
        if cx.mode == 'concrete':
            exp = [bool(v) for v in table[tuple(int(bool(b)) for b in bits)][0]]
            conds = [bool(g_) == (e != (wrong and j == 0)) for j, (g_, e) in enumerate(zip(got, exp))]
            cx.check(all(conds), label='ClassicalStateSimulator final bits')
        else:
            exp = OPP.sym_lookup(bits, table, n)[:n]
            acc = None
            for j, (g_, e) in enumerate(zip(got, exp)):
                if isinstance(g_, (bool, np.bool_, int, np.integer)):
                    g_ = SBool(bool(g_))
                if wrong and j == 0:
                    e = ~e
                c = g_ == e
                acc = c if acc is None else (acc & c)
            cx.check(acc, label='ClassicalStateSimulator final bits')

    for fi, (fname, _g, _k) in enumerate(CM):
        obs.append(Obligation(f'classical.{fname}', lambda cx, fi=fi: classical_body(cx, first=fi), twin=lambda cx, fi=fi: classical_body(cx, wrong=True, first=fi), opts={'weight': 3}, desc=f'ClassicalBasisSimState (ClassicalStateSimulator) on every 2-op circuit starting with {fname} over a 16-gate reversible menu (X, CNOT, SWAP, TOFFOLI, CSWAP, controlled gates with product-of-sums and sum-of-products control values, QubitPermutationGate), every placement on 3 qubits, SYMBOLIC classical input bits: final bits equal the permutation defined by the operation matrices'))
    return obs


def _copy(t):
    return t.copy()


def normalised_family(cx, n):
    """entangled state normalised BY CONSTRUCTION: product of (cos a_k, e^{i pi b_k} sin a_k) then the
    amplitude permutation CNOT(0,1) CNOT(1,2) (harness-side index shuffle).  2n symbolic reals."""
    from symx.snum import cos, sin
    from symx.proxy import wrap

    t = None
    for k in range(n):
        a = cx.real(f'a{k}', -4.0, 4.0)
        b = cx.real(f'b{k}', -2.0, 2.0)
        v = [cos(a), D.ph(b) * sin(a)]
        if t is None:
            t = np.array(v, dtype=object)
        else:
            t = np.array([x * y for x in t for y in v], dtype=object)
    t = t.reshape((2,) * n)
    out = np.empty((2,) * n, dtype=object)
    for idx in itertools.product((0, 1), repeat=n):
        j = list(idx)
        for c_, t_ in ((0, 1), (1, 2)):
            if t_ < n and j[c_]:
                j[t_] ^= 1
        out[tuple(j)] = t[idx]
    if cx.mode == 'concrete':
        return out.astype(complex)
    return wrap(out)


def _norm2(t):
    tot = 0
    for e in np.asarray(t, dtype=object).reshape(-1):
        tot = tot + e * (e.conjugate() if hasattr(e, 'conjugate') else np.conj(e))
    return tot.real if hasattr(tot, 'real') else tot


def _outer(v):
    v = np.asarray(v, dtype=object).reshape(-1)
    n = len(v)
    out = np.empty((n, n), dtype=object)
    for i in range(n):
        for j in range(n):
            b = v[j]
            out[i, j] = v[i] * (b.conjugate() if hasattr(b, 'conjugate') else np.conj(b))
    return out


LEVEL = (
    'Bounded symbolic execution of the real simulators, SMT-decided: every gate parameter of the circuit is a fresh symbolic real and the initial '
    'state is either every basis index or a fully symbolic amplitude vector; the real Circuit.unitary / final_state_vector / Simulator (split on/off, '
    'moment steps, permuted qubit order) / DensityMatrixSimulator code runs on them and z3 decides entry-wise equality with the ordered product of '
    'documented gate matrices embedded by independent index arithmetic. Circuit SHAPES (gate sequence, placements) are enumerated exhaustively from '
    'the stated menu; inside a shape all continuous parameters are universally quantified.'
)


def main(tier, seed=0, replay=None, only=None, procs=None):
    bounds = {
        'wires': 3,
        'ops_per_circuit': '2: Circuit.unitary on every ordered pair over the 19-gate menu with every placement; simulators: first op over the 19-gate menu, second op over a 5-gate sub-menu; quick: 4 first gates with 4 configurations (plus all 19 single-op circuits with 11 configurations); thorough: all 19 first gates with all 16 configurations; every placement',
        'simulator_configs': '11 (quick) / 18 x 8 basis states (thorough) combinations of entry point, split_untangled_states, initial-state kind',
        'parameter_box': [-BOX, BOX],
        'amplitude_box': [-1, 1],
        'qubit_orders': [(0, 1, 2), (2, 0, 1), (1, 0, 2)],
        'tolerance': 1e-7,
        'classical_simulator': '16-gate reversible menu, every ordered pair and placement on 3 qubits, symbolic input bits',
        'outside': ['complex64 rounding', 'more than 3 wires', 'qudits (covered for single ops in C04)', 'simulate_sweep prefix reuse (C10)', 'renormalisation inside StateVectorTrialResult.final_state_vector'],
    }
    return run_check(PID, tier, 'checks.C01', SHIMS, LEVEL, BASE_ASSUMPTIONS, bounds, seed=seed, replay=replay, only=only, procs=procs)

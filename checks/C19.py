"""C19: exported OpenQASM describes the same computation as the circuit.

The real `cirq.Circuit.to_qasm` / `cirq.qasm` run on circuits whose gate parameters are SYMBOLIC reals
(and whose measurement invert masks / outcomes are symbolic Booleans).  A formatter shim
(symx/qasm_shim.py) renders every symbolic number as a placeholder token, so that the emitted TEXT is
complete; the text is then parsed and interpreted by the harness's own OpenQASM 2.0 / 3.0 reader
(oracles/qasm_reader.py: grammar + qelib1.inc / stdgates.inc definitions from the specifications) and
the resulting operator is compared, up to global phase, with the ordered product of the documented gate
matrices (oracles/gates_doc.py) in the declared register order; measurements / resets / classical
conditions are compared through the Kraus operator of every outcome assignment.
"""
from __future__ import annotations

import itertools
import math
import re
import warnings

import numpy as np

from checks.common import BASE_ASSUMPTIONS, CORE_SHIM_MODULES, perturb
from oracles import gates_doc as D
from oracles import qasm_reader as QR
from symx import qasm_shim
from symx.explore import Obligation
from symx.run import run_check
from symx.snum import SNum

PID = 'C19'

SHIMS = CORE_SHIM_MODULES + [
    'cirq.protocols.qasm',
    'cirq.protocols.decompose_protocol',
    'cirq.protocols.has_unitary_protocol',
    'cirq.circuits.qasm_output',
    'cirq.circuits.circuit',
    'cirq.circuits.moment',
    'cirq.circuits.frozen_circuit',
    'cirq.ops.measurement_gate',
    'cirq.ops.measure_util',
    'cirq.ops.classically_controlled_operation',
    'cirq.ops.control_values',
    'cirq.ops.op_tree',
    'cirq.ops.qubit_order',
    'cirq.value.condition',
    'cirq.value.measurement_key',
]

E = 4.0  # exponent box
S = 1.0  # global-shift box
A = 7.0  # radian box
TOL = 1e-7
TOL_DECOMP = 2.5e-5  # decompositions that drop near-identity global phases with np.isclose (rtol 1e-5)


def worker_setup():
    warnings.simplefilter('ignore')
    return qasm_shim.install()


# =============================================================================================
# helpers working in both modes
# =============================================================================================
def _is_sym(x):
    return isinstance(x, SNum)


def _conj(e):
    return e.conjugate() if hasattr(e, 'conjugate') else np.conj(e)


def _zero(e):
    if isinstance(e, SNum):
        return not e.t
    return e == 0


def same_up_to_phase(cx, Aop, Bop, label, all_columns=False, tol=TOL):
    """A = e^{i phi} B   <=>   A[i,j] conj(A[k,c]) = B[i,j] conj(B[k,c]) for every (i,j) and every pivot
    (k,c) of a pivot set in which B is guaranteed to have a non-zero entry.  For a unitary B one column
    is such a set; for Kraus operators containing projectors all columns are used.  No phase variable,
    no division."""
    Aop = np.asarray(Aop, dtype=object)
    Bop = np.asarray(Bop, dtype=object)
    if Aop.shape != Bop.shape:
        cx.check(False, label=f'{label}: operator shape {Aop.shape} vs {Bop.shape}')
        return
    N = Aop.shape[0]
    cols = range(N) if all_columns else [0]
    L, R = [], []
    for c in cols:
        for k in range(N):
            ak, bk = Aop[k, c], Bop[k, c]
            akc = None if _zero(ak) else _conj(ak)
            bkc = None if _zero(bk) else _conj(bk)
            for i in range(N):
                for j in range(N):
                    # the list layout must not depend on which entries happen to be syntactically zero
                    # (translator validation compares it entry by entry with the concrete run)
                    a, b = Aop[i, j], Bop[i, j]
                    L.append(0.0 if (akc is None or _zero(a)) else a * akc)
                    R.append(0.0 if (bkc is None or _zero(b)) else b * bkc)
    if cx.mode == 'concrete':
        cx.close(np.array(L, dtype=complex), np.array(R, dtype=complex), tol=tol, label=label)
    else:
        la = np.empty(len(L), dtype=object)
        ra = np.empty(len(R), dtype=object)
        for i, (x, y) in enumerate(zip(L, R)):
            la[i], ra[i] = x, y
        cx.close(la, ra, tol=tol, label=label)


def fork_eq(cx, x, values, gap=1e-9):
    """partition a real input: either x equals one of `values` exactly (one path each, x pinned) or it
    keeps a distance > gap from all of them (used where the code under test compares with a tolerance
    band: inside the band but off the point the export is an approximation within the requested
    precision whose error bound needs Lipschitz reasoning that the VC back end does not have)"""
    for v in values:
        if x == v:
            return v
    for v in values:
        cx.assume((x < v - gap) | (x > v + gap) if cx.mode != 'concrete' else (abs(x - v) > gap))
    return None


def _sanitize(s):
    return re.sub(r'[^A-Za-z0-9]', '_', str(s))


class Outcomes:
    """measurement / reset outcome Booleans shared by the reader and the oracle (solver variables)"""

    def __init__(self, cx):
        self.cx = cx
        self.d = {}

    def get(self, kind, a, b, occ):
        k = (kind, a, b, occ)
        if k not in self.d:
            name = f'o_{kind[0]}_{_sanitize(a)}_{_sanitize(b)}_{occ}'
            self.d[k] = self.cx.bool(name)
        v = self.d[k]
        return bool(v)  # forks in symbolic mode: both outcomes are explored


# ---- expected semantics of a Cirq circuit, written from the documentation -----------------------
# step forms:
#   ('u', matrix, axes)                       unitary on qubit positions (documented matrix, big-endian)
#   ('measure', axes, key, inverts)           records bit_j = outcome_j XOR invert_j under `key`
#   ('reset', axis)                           |0><b| for the hidden outcome b
#   ('if', conds, steps)                      conds: ('nonzero', key) | ('eq', key, k); all must hold
#   ('phase',)                                global phase: no observable effect
def run_expected(n, steps, out: Outcomes):
    N = 2**n
    T = np.eye(N, dtype=complex).reshape((2,) * (2 * n))
    events = []
    keybits = {}
    occ = {}

    def project(T, ax, b):
        p = np.zeros((2, 2), dtype=complex)
        p[int(b), int(b)] = 1
        return QR.apply_to_axes(p, T, [ax])

    def cond_true(c):
        if c[0] == 'nonzero':
            return any(keybits[c[1]])
        if c[0] == 'eq':
            bits = keybits[c[1]]
            val = 0
            for b in bits:  # Cirq: big-endian, first measured qubit is the most significant bit
                val = 2 * val + int(b)
            return val == c[2]
        raise ValueError(c)

    def go(T, steps):
        for st in steps:
            if st[0] == 'u':
                T = QR.apply_to_axes(np.asarray(st[1]), T, list(st[2]))
            elif st[0] == 'phase':
                pass
            elif st[0] == 'measure':
                _, axes, key, inverts = st
                bits = []
                for j, ax in enumerate(axes):
                    inv = bool(inverts[j]) if j < len(inverts) else False
                    o = occ.get(('m', key, j), 0)
                    occ[('m', key, j)] = o + 1
                    b = out.get('measure', key, j, o)  # the RECORDED bit
                    T = project(T, ax, b != inv)
                    bits.append(b)
                    events.append(('measure', ax, key, j, o, b))
                keybits[key] = bits
            elif st[0] == 'reset':
                ax = st[1]
                o = occ.get(('r', ax), 0)
                occ[('r', ax)] = o + 1
                b = out.get('reset', ax, None, o)
                T = project(T, ax, b)
                if b:
                    T = QR.apply_to_axes(np.array([[0, 1], [1, 0]], dtype=complex), T, [ax])
                events.append(('reset', ax, o, b))
            elif st[0] == 'if':
                if all(cond_true(c) for c in st[1]):
                    T = go(T, st[2])
            else:
                raise ValueError(st[0])
        return T

    T = go(T, steps)
    return T.reshape(N, N), events, keybits


VALID_ID = re.compile(r'[a-z][a-zA-Z0-9_]*\Z')  # OpenQASM identifier grammar


def compare(cx, text, n, steps, version, label, key_sizes=None, qubit_names=None, lenient=('sxdg',), tol=TOL, allow_ext=('sx', 'sxdg')):
    """interpret `text` with the independent reader and compare with the expected semantics"""
    key_sizes = key_sizes or {}
    prog = QR.parse(text)
    cx.check(prog.version == version, label=f'{label}: OPENQASM version line')
    inc = {'2.0': 'qelib1.inc', '3.0': 'stdgates.inc'}[version]
    cx.check(prog.includes == [inc], label=f'{label}: include of the standard library {inc}')
    # one quantum register holding the circuit's qubits in the requested order
    cx.check(len(prog.qregs) == (1 if n else 0) and (not n or prog.qregs[0][1] == n), label=f'{label}: quantum register size')
    if qubit_names is not None:
        cx.check(prog.qubits_comment == '[' + ', '.join(qubit_names) + ']', label=f'{label}: declared qubit order comment')
    # classical registers <-> measurement keys
    creg_key = {}
    used = set()
    for key, size in key_sizes.items():
        want = f'm_{key}'
        found = None
        for name, sz, comment in prog.cregs:
            if VALID_ID.match(want):
                if name == want:
                    found = (name, sz)
            elif comment is not None and comment == f'Measurement: {key}' and name not in used:
                found = (name, sz)
        cx.check(found is not None, label=f'{label}: classical register for key {key!r}')
        if found is None:
            return
        used.add(found[0])
        creg_key[found[0]] = key
        cx.check(found[1] == size, label=f'{label}: size of the register of key {key!r}')
        cx.check(VALID_ID.match(found[0]) is not None, label=f'{label}: register name is a valid identifier')
    cx.check(len(prog.cregs) == len(key_sizes), label=f'{label}: number of classical registers')

    out = Outcomes(cx)

    def outcome(kind, reg, bit, occ):
        if kind == 'measure':
            return out.get('measure', creg_key.get(reg, '?' + reg), bit, occ)
        return out.get('reset', reg, None, occ)

    r = QR.run(prog, outcome=outcome, lookup=(qasm_shim.lookup if cx.mode != 'concrete' else None), lenient=lenient)
    ext = set(r.extension_gates) - set(allow_ext)
    cx.check(not ext, label=f'{label}: gates outside qelib1.inc: {sorted(ext)}')
    Kexp, ev_exp, _ = run_expected(n, steps, out)
    ev_got = [((e[0], e[1], creg_key.get(e[2]), e[3], e[4], e[5]) if e[0] == 'measure' else e) for e in r.events]
    cx.check(ev_got == ev_exp, label=f'{label}: measurement/reset events (qubit, key, bit, occurrence)')
    same_up_to_phase(cx, r.op, Kexp, f'{label}: operator up to global phase', all_columns=bool(ev_exp), tol=tol)
    return r


def export(circuit, version, qubit_order=None, precision=None):
    qasm_shim.reset()
    kw = {'version': version}
    if qubit_order is not None:
        kw['qubit_order'] = qubit_order
    if precision is not None:
        kw['precision'] = precision
    with warnings.catch_warnings():
        warnings.simplefilter('ignore')
        return circuit.to_qasm(**kw)


def _perturb_all(m):
    """wrong-oracle twin: shift EVERY entry (a projector / reset before the gate may hide single entries)"""
    m = np.array(m, dtype=object)
    out = np.empty(m.shape, dtype=object)
    for idx in np.ndindex(*m.shape):
        out[idx] = m[idx] * 1.0 + (0.01 + 0.003 * sum(idx))
    return out


def wrong_steps(steps):
    """vacuity twin: perturb the expected semantics (last unitary's matrix / first invert bit)"""
    steps = list(steps)
    for i in range(len(steps) - 1, -1, -1):
        st = steps[i]
        if st[0] == 'u':
            steps[i] = ('u', _perturb_all(st[1]), st[2])
            return steps
        if st[0] == 'if':
            inner = wrong_steps(st[2])
            steps[i] = ('if', st[1], inner)
            return steps
    for i, st in enumerate(steps):
        if st[0] == 'measure':
            inv = list(st[3]) + [False] * (len(st[1]) - len(st[3]))
            inv[0] = (not inv[0]) if isinstance(inv[0], (bool, np.bool_)) else ~inv[0]
            steps[i] = ('measure', st[1], st[2], inv)
            return steps
        if st[0] == 'reset':
            steps[i] = ('u', np.eye(2), [st[1]])
            return steps
    raise ValueError('nothing to perturb')


VERS = ('2.0', '3.0')
SPECIAL = [0.0, 0.25, -0.25, 0.5, -0.5, 1.0, -1.0, 2.0, 3.0, 1.5, -1.5, 0.123, 3.7, 1e-7, -2.5]


def _pts(names, extra=None, n=8, values=SPECIAL):
    pts = []
    for i in range(n):
        env = {nm: values[(i + 4 * j) % len(values)] for j, nm in enumerate(names)}
        env.update(extra or {})
        pts.append(env)
    return pts


# =============================================================================================
# obligations
# =============================================================================================
def obligations(tier):
    import cirq
    import sympy

    thorough = tier != 'quick'
    E_ = E if not thorough else 8.0
    A_ = A if not thorough else 13.0
    obs = []

    def add(name, body, desc, expected=(), points=None, weight=1, opts=None, kind='symbolic'):
        o = dict(opts or {})
        o.setdefault('weight', weight)
        obs.append(Obligation(name, body, expected=expected, opts=o, twin=lambda cx, b=body: b(cx, wrong=True), points=points or [], desc=desc, kind=kind))

    def lq(n):
        return cirq.LineQubit.range(n)

    # ---------------------------------------------------------------------------------------
    # A. single-qubit Pauli/Hadamard powers: exponent AND global shift symbolic; all special cases
    #    (x/sx/sxdg, y, z/s/sdg/t/tdg, id/h, the literal 0) are reached by forking on the real
    #    comparisons.  3.0: `sxdg` is read leniently here (its absence from stdgates.inc is the
    #    separate obligation v3.stdgates_only).
    # ---------------------------------------------------------------------------------------
    fam1 = [
        ('X', cirq.XPowGate, D.X),
        ('Y', cirq.YPowGate, D.Y),
        ('Z', cirq.ZPowGate, D.Z),
        ('H', cirq.HPowGate, D.H),
    ]
    for gname, cls, doc in fam1:
        for ver in VERS:
            def body(cx, wrong=False, cls=cls, doc=doc, ver=ver, gname=gname):
                t = cx.real('t', -E_, E_)
                s = cx.real('s', -S, S)
                pos = cx.choose('pos', 2)
                qs = lq(2)
                c = cirq.Circuit(cls(exponent=t, global_shift=s).on(qs[pos]), cirq.I(qs[1 - pos]))
                text = export(c, ver)
                steps = [('u', doc(t, s), [pos])]
                compare(cx, text, 2, wrong_steps(steps) if wrong else steps, ver, f'{gname}PowGate')

            add(
                f'gate1.{gname}.v{ver[0]}',
                body,
                f'to_qasm(version={ver}) of {gname}PowGate(exponent=t, global_shift=s) on either wire of a 2-qubit register: parsed text == documented matrix up to phase, for all t in [-{E_},{E_}], s in [-1,1] (special mnemonics reached by forking)',
                points=_pts(['t', 's']) + _pts(['t'], {'s': 0.0}) + [{'t': 1.0, 's': -0.5}, {'t': 0.5, 's': 0.0, 'choose:pos': 1}, {'t': -0.5, 's': 0.0}, {'t': 1e-12, 's': 0.0}, {'t': 1e-7, 's': 0.0}, {'t': -2e-5, 's': 0.0, 'choose:pos': 1}],
                weight=3,
            )
        # plain power of the named constant:  cirq.X**t
        def body(cx, wrong=False, cls=cls, doc=doc, gname=gname):
            t = cx.real('t', -E_, E_)
            ver = VERS[cx.choose('ver', 2)]
            qs = lq(1)
            c = cirq.Circuit((cls() ** t).on(qs[0]))
            steps = [('u', doc(t), [0])]
            compare(cx, export(c, ver), 1, wrong_steps(steps) if wrong else steps, ver, f'{gname}**t')

        add(f'gate1.{gname}.pow', body, f'cirq.qasm of cirq.{gname}**t, both versions', points=_pts(['t'], n=12) + _pts(['t'], {'choose:ver': 1}, n=12) + [{'t': 1e-7}, {'t': 3e-6, 'choose:ver': 1}], weight=2)

    # rotations given in radians
    for gname, f, doc in (('rx', cirq.rx, D.rx), ('ry', cirq.ry, D.ry), ('rz', cirq.rz, D.rz)):
        def body(cx, wrong=False, f=f, doc=doc, gname=gname):
            th = cx.real('theta', -A_, A_)
            ver = VERS[cx.choose('ver', 2)]
            qs = lq(1)
            c = cirq.Circuit(f(th).on(qs[0]))
            steps = [('u', doc(th), [0])]
            compare(cx, export(c, ver), 1, wrong_steps(steps) if wrong else steps, ver, gname)

        add(f'rot.{gname}', body, f'cirq.{gname}(theta), theta in [-{A_},{A_}] rad: `{gname}(pi*theta/pi)` read back == exp(-i theta P/2)', points=_pts(['theta'], n=10) + _pts(['theta'], {'choose:ver': 1}, n=4))

    # ---------------------------------------------------------------------------------------
    # B. PhasedXPowGate (u2/u3 with an epsilon band) and PhasedXZGate (QasmUGate, angles mod 2)
    # ---------------------------------------------------------------------------------------
    HALF_POINTS = [x + 0.5 for x in range(-int(E_) - 1, int(E_) + 1)]

    def body(cx, wrong=False):
        t = cx.real('t', -E_, E_)
        p = cx.real('p', -2.0, 2.0)
        s = cx.real('s', -S, S)
        ver = VERS[cx.choose('ver', 2)]
        fork_eq(cx, t, [h for h in HALF_POINTS if -E_ <= h <= E_])
        qs = lq(1)
        c = cirq.Circuit(cirq.PhasedXPowGate(exponent=t, phase_exponent=p, global_shift=s).on(qs[0]))
        steps = [('u', D.phased_x(t, p, s), [0])]
        compare(cx, export(c, ver), 1, wrong_steps(steps) if wrong else steps, ver, 'PhasedXPowGate')

    add(
        'phased.PhasedXPowGate',
        body,
        'PhasedXPowGate(exponent=t, phase_exponent=p, global_shift=s): u2/u3 text (canonicalised exponents, |e -+ 0.5| <= 10^-precision special cases) == Z^p X^t Z^-p up to phase; exponents within 1e-9 of a half-integer but not equal to it are excluded (epsilon band)',
        points=_pts(['t', 'p', 's']) + [{'t': 0.5, 'p': 0.25, 's': 0.0}, {'t': -0.5, 'p': 1.9, 's': 0.3}, {'t': 2.5, 'p': -0.3, 's': 0.0, 'choose:ver': 1}, {'t': -1.5, 'p': 0.0, 's': 0.0}],
        weight=6,
    )

    def body(cx, wrong=False):
        x = cx.real('x', -E_, E_)
        z = cx.real('z', -E_, E_)
        a = cx.real('a', -E_, E_)
        ver = VERS[cx.choose('ver', 2)]
        qs = lq(1)
        c = cirq.Circuit(cirq.PhasedXZGate(x_exponent=x, z_exponent=z, axis_phase_exponent=a).on(qs[0]))
        steps = [('u', D.phased_xz(x, z, a), [0])]
        compare(cx, export(c, ver), 1, wrong_steps(steps) if wrong else steps, ver, 'PhasedXZGate')

    add('phased.PhasedXZGate', body, 'PhasedXZGate(x,z,a) -> QasmUGate(theta,phi,lmda) mod 2 -> u3(...) text == documented PhasedXZ matrix up to phase', points=_pts(['x', 'z', 'a']) + _pts(['x', 'z', 'a'], {'choose:ver': 1}, n=4), weight=4)

    def body(cx, wrong=False):
        th = cx.real('theta', -E_, E_)
        ph = cx.real('phi', -E_, E_)
        lm = cx.real('lmda', -E_, E_)
        ver = VERS[cx.choose('ver', 2)]
        qs = lq(1)
        from cirq.circuits.qasm_output import QasmUGate

        c = cirq.Circuit(QasmUGate(th, ph, lm).on(qs[0]))
        # documented: rotations Z(lmda) first, Y(theta) second, Z(phi) last, angles in half turns
        m = D.mm(D.rz(math.pi * ph), D.ry(math.pi * th), D.rz(math.pi * lm))
        steps = [('u', m, [0])]
        compare(cx, export(c, ver), 1, wrong_steps(steps) if wrong else steps, ver, 'QasmUGate')

    add('phased.QasmUGate', body, 'QasmUGate(theta,phi,lmda) (half turns, normalised mod 2): u3 text == Rz(phi) Ry(theta) Rz(lmda) up to phase', points=_pts(['theta', 'phi', 'lmda']), weight=4)

    # ---------------------------------------------------------------------------------------
    # C. two-/three-qubit gates that have a mnemonic only at odd / unit exponent.  The exponent is a
    #    symbolic real pinned to 2k+1 by an assumption over a symbolic integer k (so `exponent % 2 != 1`
    #    and `exponent != 1` are decided by the solver); the global shift stays a free real.
    # ---------------------------------------------------------------------------------------
    def odd_exponent(cx, kbox=2):
        t = cx.real('t', -2.0 * kbox - 1, 2.0 * kbox + 1)
        k = cx.int('k', -kbox - 1, kbox)
        cx.assume(t == 2 * k + 1)
        return t

    def hdr(ver, n):
        if ver == '2.0':
            return f'OPENQASM 2.0;\ninclude "qelib1.inc";\nqreg q[{n}];\n'
        return f'OPENQASM 3.0;\ninclude "stdgates.inc";\nqubit[{n}] q;\n'

    # operation-level _qasm_ with FREE exponent and shift, called the way QasmOutput calls it: whenever
    # the gate answers with text (instead of None = "decompose me") that text must be the gate.  This is
    # what guards the thresholds `exponent % 2 != 1` / `exponent != 1` for every real exponent.
    direct = [
        ('CZ', cirq.CZPowGate, D.CZ, 2),
        ('CX', cirq.CXPowGate, D.CX, 2),
        ('CY', cirq.CYPowGate, D.CY, 2),
        ('SWAP', cirq.SwapPowGate, D.SWAP, 2),
        ('CCZ', cirq.CCZPowGate, D.CCZ, 3),
        ('CCX', cirq.CCXPowGate, D.CCX, 3),
    ]
    if hasattr(cirq, 'CCYPowGate'):
        direct.append(('CCY', cirq.CCYPowGate, D.CCY, 3))
    for gname, cls, doc, k in direct:
        def body(cx, wrong=False, cls=cls, doc=doc, gname=gname, k=k):
            t = cx.real('t', -E_, E_)
            s = cx.real('s', -S, S)
            ver = VERS[cx.choose('ver', 2)]
            pls = [(0, 1), (1, 0)] if k == 2 else [(0, 1, 2), (2, 0, 1), (1, 2, 0)]
            pl = pls[cx.choose('pl', len(pls))]
            qs = lq(k)
            op = cls(exponent=t, global_shift=s).on(*[qs[i] for i in pl])
            qasm_shim.reset()
            args = cirq.QasmArgs(version=ver, qubit_id_map={q: f'q[{i}]' for i, q in enumerate(qs)})
            stmt = cirq.qasm(op, args=args, default=None)
            if stmt is None:
                cx.check(not wrong, label=f'{gname}: no direct QASM form at this exponent (decomposed instead)')
                return
            steps = [('u', doc(t, s), list(pl))]
            compare(cx, hdr(ver, k) + stmt, k, wrong_steps(steps) if wrong else steps, ver, f'{gname}PowGate direct')

        add(
            f'direct.{gname}',
            body,
            f'{gname}PowGate(exponent=t, global_shift=s)(...)._qasm_ with FREE t in [-{E_},{E_}] and s: whenever it answers with text, the text read back == documented matrix up to phase (thresholds exponent%2 / exponent==1)',
            points=[{'t': 1.0, 's': 0.0}, {'t': 3.0, 's': 0.25, 'choose:ver': 1, 'choose:pl': 1}, {'t': 2.0, 's': 0.0}, {'t': 0.5, 's': 0.0}, {'t': -1.0, 's': -0.5}],
            weight=2,
        )

    fam2 = [('CZ', cirq.CZPowGate, D.CZ), ('CX', cirq.CXPowGate, D.CX), ('CY', cirq.CYPowGate, D.CY)]
    odd_pts = [{'t': 1.0, 'k': 0}, {'t': 3.0, 'k': 1, 's': 0.25}, {'t': -1.0, 'k': -1, 's': -0.5}, {'t': 5.0, 'k': 2, 'choose:ver': 1, 'choose:pl': 1}, {'t': -3.0, 'k': -2, 'choose:ver': 1}]
    for gname, cls, doc in fam2:
        def body(cx, wrong=False, cls=cls, doc=doc, gname=gname):
            t = odd_exponent(cx)
            s = cx.real('s', -S, S)
            ver = VERS[cx.choose('ver', 2)]
            pl = [(0, 1), (1, 0)][cx.choose('pl', 2)]
            qs = lq(2)
            c = cirq.Circuit(cls(exponent=t, global_shift=s).on(qs[pl[0]], qs[pl[1]]))
            steps = [('u', doc(t, s), list(pl))]
            compare(cx, export(c, ver), 2, wrong_steps(steps) if wrong else steps, ver, f'{gname}PowGate')

        add(f'gate2.{gname}', body, f'{gname}PowGate(exponent=t odd (symbolic 2k+1), global_shift=s) both placements: `{gname.lower()} a,b` == documented matrix up to phase', points=odd_pts, weight=2)

    def body(cx, wrong=False):
        t = cx.real('t', -E_, E_)
        cx.assume(t == 1)
        s = cx.real('s', -S, S)
        ver = VERS[cx.choose('ver', 2)]
        pl = [(0, 1), (1, 0)][cx.choose('pl', 2)]
        qs = lq(2)
        c = cirq.Circuit(cirq.SwapPowGate(exponent=t, global_shift=s).on(qs[pl[0]], qs[pl[1]]))
        steps = [('u', D.SWAP(t, s), list(pl))]
        compare(cx, export(c, ver), 2, wrong_steps(steps) if wrong else steps, ver, 'SwapPowGate')

    add('gate2.SWAP', body, 'SwapPowGate(exponent=1, global_shift=s): `swap a,b`', points=[{'t': 1.0, 's': 0.0}, {'t': 1.0, 's': 0.3, 'choose:ver': 1, 'choose:pl': 1}])

    PERM3 = list(itertools.permutations(range(3)))
    fam3 = [('CCZ', cirq.CCZPowGate, D.CCZ), ('CCX', cirq.CCXPowGate, D.CCX)]
    if hasattr(cirq, 'CCYPowGate'):
        fam3.append(('CCY', cirq.CCYPowGate, D.CCY))
    for gname, cls, doc in fam3:
        def body(cx, wrong=False, cls=cls, doc=doc, gname=gname):
            t = cx.real('t', -E_, E_)
            cx.assume(t == 1)
            s = cx.real('s', -S, S)
            ver = VERS[cx.choose('ver', 2)]
            pl = PERM3[cx.choose('pl', 6)]
            qs = lq(3)
            c = cirq.Circuit(cls(exponent=t, global_shift=s).on(*[qs[i] for i in pl]))
            steps = [('u', doc(t, s), list(pl))]
            compare(cx, export(c, ver), 3, wrong_steps(steps) if wrong else steps, ver, f'{gname}PowGate')

        add(f'gate3.{gname}', body, f'{gname}PowGate(exponent=1, global_shift=s) on all 6 placements: ccx (+h / sdg,s conjugation) read with the qelib1 15-gate Toffoli definition == documented matrix', points=[{'t': 1.0, 's': 0.0}, {'t': 1.0, 's': 0.5, 'choose:pl': 3, 'choose:ver': 1}], weight=3)

    def body(cx, wrong=False):
        ver = VERS[cx.choose('ver', 2)]
        pl = PERM3[cx.choose('pl', 6)]
        qs = lq(3)
        c = cirq.Circuit(cirq.CSWAP.on(*[qs[i] for i in pl]))
        steps = [('u', D.CSWAP(), list(pl))]
        compare(cx, export(c, ver), 3, wrong_steps(steps) if wrong else steps, ver, 'CSWAP')

    add('gate3.CSWAP', body, 'CSWAP on all 6 placements, both versions (concrete gate; placements enumerated)', points=[{}, {'choose:pl': 4, 'choose:ver': 1}], kind='concrete')

    def body(cx, wrong=False):
        ver = VERS[cx.choose('ver', 2)]
        k = cx.choose('n', 3) + 1
        qs = lq(3)
        order = PERM3[cx.choose('pl', 6)]
        t = cx.real('t', -E_, E_)
        c = cirq.Circuit(cirq.IdentityGate(k).on(*[qs[i] for i in order[:k]]), (cirq.Z**t).on(qs[order[2]]))
        c.append([cirq.I(q) for q in qs if q not in c.all_qubits()])
        steps = [('u', np.eye(2**k), list(order[:k])), ('u', D.Z(t), [order[2]])]
        compare(cx, export(c, ver), 3, wrong_steps(steps) if wrong else steps, ver, 'IdentityGate')

    add('gate.identity', body, 'IdentityGate(k), k=1..3 -> k `id` statements; followed by Z**t', points=[{'t': 0.3}, {'t': 0.5, 'choose:n': 2, 'choose:ver': 1}])

    def body(cx, wrong=False):
        ver = VERS[cx.choose('ver', 2)]
        t = cx.real('t', -E_, E_)
        u = cx.real('u', -E_, E_)
        qs = lq(2)
        c = cirq.Circuit((cirq.Z**t).on(qs[0]), cirq.GlobalPhaseGate(D.ph(u)).on(), cirq.CNOT(qs[0], qs[1]), cirq.global_phase_operation(-1j))
        steps = [('u', D.Z(t), [0]), ('phase',), ('u', D.CX(1.0), [0, 1]), ('phase',)]
        compare(cx, export(c, ver), 2, wrong_steps(steps) if wrong else steps, ver, 'GlobalPhaseGate')

    add('gate.global_phase', body, 'unconditional GlobalPhaseGate operations (symbolic phase exp(i pi u)) are omitted from the text; the rest of the program is unchanged', points=[{'t': 0.3, 'u': 0.7}, {'t': 0.5, 'u': 1.0, 'choose:ver': 1}])

    # ---------------------------------------------------------------------------------------
    # D. ControlledOperation / ControlledGate: single-control fast path (cx/cy/cz/ch only for exponent 1
    #    and NO global shift: a shift is a relative phase once controlled) and the decomposition path
    # ---------------------------------------------------------------------------------------
    def ctrl_doc(sub):
        sub = np.asarray(sub, dtype=object)
        out = np.empty((4, 4), dtype=object)
        for i in range(4):
            for j in range(4):
                out[i, j] = (1.0 if i == j else 0.0) if (i < 2 or j < 2) else sub[i - 2, j - 2]
        return out

    for gname, cls, doc in fam1:
        # (a) the fast path itself, exponent and shift FREE: the operation-level _qasm_ is called the way
        #     QasmOutput calls it; when it answers with text, that text must be the controlled gate
        def body(cx, wrong=False, cls=cls, doc=doc, gname=gname):
            t = cx.real('t', -E_, E_)
            s = cx.real('s', -S, S)
            ver = VERS[cx.choose('ver', 2)]
            pl = [(0, 1), (1, 0)][cx.choose('pl', 2)]
            qs = lq(2)
            op = cirq.ControlledOperation([qs[pl[0]]], cls(exponent=t, global_shift=s).on(qs[pl[1]]))
            qasm_shim.reset()
            args = cirq.QasmArgs(version=ver, qubit_id_map={qs[0]: 'q[0]', qs[1]: 'q[1]'})
            stmt = cirq.qasm(op, args=args, default=None)
            if stmt is None:
                cx.check(not wrong, label=f'controlled {gname}: no direct QASM form (decomposed instead)')
                return
            steps = [('u', ctrl_doc(doc(t, s)), list(pl))]
            compare(cx, hdr(ver, 2) + stmt, 2, wrong_steps(steps) if wrong else steps, ver, f'controlled {gname}PowGate fast path')

        add(
            f'controlled.fastpath.{gname}',
            body,
            f'ControlledOperation([c], {gname}PowGate(exponent=t, global_shift=s)(q))._qasm_ with FREE t and s: whenever it answers `c{gname.lower()} c,q` that must equal |0><0| x 1 + |1><1| x documented matrix (a global shift is a relative phase once controlled)',
            points=[{'t': 1.0, 's': 0.0}, {'t': 1.0, 's': 0.0, 'choose:pl': 1, 'choose:ver': 1}, {'t': 1.0, 's': 0.25}, {'t': 0.5, 's': 0.0}],
            weight=2,
        )

    for gname, cls, doc in fam1[:3]:
        # (b) whole export, shift pinned to 0, odd exponent: fast path or ControlledGate -> C?PowGate
        def body(cx, wrong=False, cls=cls, doc=doc, gname=gname):
            t = odd_exponent(cx, kbox=1)
            s = cx.real('s', -S, S)
            cx.assume(s == 0)
            ver = VERS[cx.choose('ver', 2)]
            how = cx.choose('how', 2)
            pl = [(0, 1), (1, 0)][cx.choose('pl', 2)]
            qs = lq(2)
            g = cls(exponent=t, global_shift=s)
            if how == 0:
                op = cirq.ControlledOperation([qs[pl[0]]], g.on(qs[pl[1]]))
            else:
                op = cirq.ControlledGate(g).on(qs[pl[0]], qs[pl[1]])
            c = cirq.Circuit(op)
            steps = [('u', ctrl_doc(doc(t, s)), list(pl))]
            compare(cx, export(c, ver), 2, wrong_steps(steps) if wrong else steps, ver, f'controlled {gname}PowGate')

        add(
            f'controlled.circuit.{gname}',
            body,
            f'to_qasm of ControlledOperation([c], {gname}**t(q)) and ControlledGate({gname}**t).on(c,q), t odd (symbolic 2k+1), no shift: fast path for t==1, otherwise decomposition into C{gname}PowGate',
            points=[{'t': 1.0, 'k': 0, 's': 0.0}, {'t': 3.0, 'k': 1, 's': 0.0, 'choose:how': 1}, {'t': -1.0, 'k': -1, 's': 0.0, 'choose:pl': 1, 'choose:ver': 1}],
            weight=3,
        )

    def body(cx, wrong=False):
        ver = VERS[cx.choose('ver', 2)]
        pl = [(0, 1), (1, 0)][cx.choose('pl', 2)]
        qs = lq(2)
        c = cirq.Circuit(cirq.ControlledOperation([qs[pl[0]]], cirq.H(qs[pl[1]])))
        steps = [('u', ctrl_doc(D.H(1.0)), list(pl))]
        compare(cx, export(c, ver), 2, wrong_steps(steps) if wrong else steps, ver, 'controlled H')

    add('controlled.H', body, 'ControlledOperation([c], H(q)) -> `ch c,q` read with the qelib1 definition of ch (concrete gate)', points=[{}, {'choose:pl': 1, 'choose:ver': 1}], kind='concrete')

    # ---------------------------------------------------------------------------------------
    # E. measurement: symbolic invert mask, symbolic outcomes, register naming, bit order
    # ---------------------------------------------------------------------------------------
    MEAS_CFG = [
        # (register size, measured positions, key, mask shorter than the qubit list?, put an H on the last measured qubit?)
        (2, (0, 1), 'a', False, True),
        (2, (1, 0), 'result_1', True, True),
        (2, (1,), 'A b', False, True),
        (3, (2, 0), '0', False, False),
        (3, (2, 1, 0), 'a', True, False),
    ]
    for ci, (nq, sel, key, short, with_h) in enumerate(MEAS_CFG):
        def body(cx, wrong=False, nq=nq, sel=sel, key=key, short=short, with_h=with_h):
            ver = VERS[cx.choose('ver', 2)]
            th = cx.real('theta', -A_, A_)
            qs = lq(nq)
            mask = [cx.bool(f'inv{j}') for j in range(len(sel) - (1 if short else 0))]
            ops = [cirq.I(q) for q in qs] + [cirq.ry(th).on(qs[sel[0]])]
            steps = [('u', D.ry(th), [sel[0]])]
            if with_h:
                ops.append(cirq.H(qs[sel[-1]]))
                steps.append(('u', D.H(1.0), [sel[-1]]))
            ops.append(cirq.measure(*[qs[i] for i in sel], key=key, invert_mask=tuple(mask)))
            steps.append(('measure', list(sel), key, list(mask)))
            compare(cx, export(cirq.Circuit(ops), ver), nq, wrong_steps(steps) if wrong else steps, ver, 'measure', key_sizes={key: len(sel)})

        add(
            f'measure.invert_mask.cfg{ci}',
            body,
            f'ry(theta), measure(positions {sel} of {nq} qubits, key={key!r}, invert_mask) with SYMBOLIC mask bits ({"shorter than the qubit list" if short else "full length"}) and outcomes: creg naming (m_<key> or commented fresh id), size, bit j <- j-th qubit, x-conjugated inverted measurement == projector on (recorded bit XOR mask)',
            points=[{'theta': 0.3}, {'theta': 0.5, 'inv0': True, 'choose:ver': 1, f'o_m_{_sanitize(key)}_0_0': True}, {'theta': 1.0, 'inv1': True, f'o_m_{_sanitize(key)}_1_0': True}],
            weight=6,
            opts={'max_paths': 100000},
        )

    def body(cx, wrong=False):
        ver = VERS[cx.choose('ver', 2)]
        t = cx.real('t', -E_, E_)
        qs = lq(2)
        c = cirq.Circuit((cirq.Y**t).on(qs[0]), cirq.CNOT(qs[0], qs[1]), cirq.measure(qs[1], key='b'), cirq.measure(qs[0], qs[1], key='a'), cirq.ResetChannel().on(qs[0]), (cirq.X**t).on(qs[0]))
        steps = [('u', D.Y(t), [0]), ('u', D.CX(1.0), [0, 1]), ('measure', [1], 'b', []), ('measure', [0, 1], 'a', []), ('reset', 0), ('u', D.X(t), [0])]
        compare(cx, export(c, ver), 2, wrong_steps(steps) if wrong else steps, ver, 'two keys + reset', key_sizes={'b': 1, 'a': 2})

    add('measure.two_keys_reset', body, 'two keys (register order = first appearance), mid-circuit measurement, reset, later gates', points=[{'t': 0.3}, {'t': 1.0, 'choose:ver': 1, 'o_m_b_0_0': True, 'o_m_a_1_0': True, 'o_m_a_0_0': True, 'o_r_0_None_0': True}], weight=3)

    def body(cx, wrong=False):
        # one key used by two measurements of different sizes: the register is as large as the largest
        # (QasmOutput._generate_cregs); every measurement writes bits 0.. of it
        ver = VERS[cx.choose('ver', 2)]
        first_big = cx.choose('first_big', 2)
        th = cx.real('theta', -A_, A_)
        qs = lq(3)
        big, small = cirq.measure(qs[0], qs[1], key='a'), cirq.measure(qs[2], key='a')
        sb, ss = ('measure', [0, 1], 'a', []), ('measure', [2], 'a', [])
        ops = [cirq.ry(th).on(qs[0])] + ([big, small] if first_big else [small, big])
        steps = [('u', D.ry(th), [0])] + ([sb, ss] if first_big else [ss, sb])
        c = cirq.Circuit(cirq.Moment([o]) for o in ops)
        compare(cx, export(c, ver), 3, wrong_steps(steps) if wrong else steps, ver, 'repeated key', key_sizes={'a': 2})

    add('measure.repeated_key_sizes', body, 'the same key measured twice with 2 and 1 qubits (either order): ONE register of the larger size, every statement inside its range, same (qubit, bit) events', points=[{'theta': 0.4}, {'theta': 1.0, 'choose:first_big': 1, 'choose:ver': 1}], weight=2)

    # ---------------------------------------------------------------------------------------
    # F. classical control (single-statement sub-operations)
    # ---------------------------------------------------------------------------------------
    sub_menu = [
        ('X**t', lambda t, qs: (cirq.X**t).on(qs[1]), lambda t: ('u', D.X(t), [1])),
        ('rz', lambda t, qs: cirq.rz(t).on(qs[1]), lambda t: ('u', D.rz(t), [1])),
        ('Y**t', lambda t, qs: (cirq.Y**t).on(qs[2]), lambda t: ('u', D.Y(t), [2])),
        ('CZ', lambda t, qs: cirq.CZ(qs[2], qs[1]), lambda t: ('u', D.CZ(1.0), [2, 1])),
        ('CCX', lambda t, qs: cirq.CCX(qs[2], qs[0], qs[1]), lambda t: ('u', D.CCX(1.0), [2, 0, 1])),
        ('PhasedXZ', lambda t, qs: cirq.PhasedXZGate(x_exponent=t, z_exponent=0.25, axis_phase_exponent=-0.5).on(qs[1]), lambda t: ('u', D.phased_xz(t, 0.25, -0.5), [1])),
    ]

    for sname, mk, st in sub_menu:
        def body(cx, wrong=False, mk=mk, st=st):
            ver = VERS[cx.choose('ver', 2)]
            ck = cx.choose('cond', 3)
            t = cx.real('t', -E_, E_)
            qs = lq(3)
            if ck == 0:
                conds, econds = ['a'], [('nonzero', 'a')]
            elif ck == 1:
                conds, econds = [cirq.KeyCondition(cirq.MeasurementKey('a'))], [('nonzero', 'a')]
            else:
                kk = cx.choose('k', 2)
                conds, econds = [sympy.Eq(sympy.Symbol('a'), kk)], [('eq', 'a', kk)]
            c = cirq.Circuit([cirq.I(q) for q in qs], cirq.H(qs[0]), cirq.measure(qs[0], key='a'), mk(t, qs).with_classical_controls(*conds), cirq.H(qs[1]))
            steps = [('u', D.H(1.0), [0]), ('measure', [0], 'a', []), ('if', econds, [st(t)]), ('u', D.H(1.0), [1])]
            compare(cx, export(c, ver), 3, wrong_steps(steps[:-1]) + steps[-1:] if wrong else steps, ver, 'classical control', key_sizes={'a': 1})

        add(
            f'cc.single_bit.{sname}',
            body,
            f'H, measure(q0,"a"), ({sname}).with_classical_controls(cond), H: cond = key string / KeyCondition / sympy a==k (k=0,1) on a ONE-bit key; the single statement is applied exactly when the Cirq condition holds (both outcomes), the following statement is unconditional',
            points=[{'t': 0.3}, {'t': 1.0, 'choose:ver': 1, 'o_m_a_0_0': True}, {'t': 0.25, 'choose:cond': 2, 'choose:k': 1, 'o_m_a_0_0': True}, {'t': 0.25, 'choose:cond': 2, 'choose:k': 0}],
            weight=5,
            opts={'max_paths': 100000},
        )

    def body(cx, wrong=False):
        # OpenQASM 3.0 only: multi-bit key `!= 0`, two conditions joined by &&
        t = cx.real('t', -E_, E_)
        mode = cx.choose('mode', 2)
        qs = lq(3)
        if mode == 0:
            c = cirq.Circuit(cirq.H(qs[0]), cirq.H(qs[1]), cirq.measure(qs[0], qs[1], key='a'), (cirq.X**t).on(qs[2]).with_classical_controls('a'))
            steps = [('u', D.H(1.0), [0]), ('u', D.H(1.0), [1]), ('measure', [0, 1], 'a', []), ('if', [('nonzero', 'a')], [('u', D.X(t), [2])])]
            ks = {'a': 2}
        else:
            c = cirq.Circuit(cirq.H(qs[0]), cirq.H(qs[1]), cirq.measure(qs[0], key='a'), cirq.measure(qs[1], key='b'), (cirq.X**t).on(qs[2]).with_classical_controls('a', 'b'))
            steps = [('u', D.H(1.0), [0]), ('u', D.H(1.0), [1]), ('measure', [0], 'a', []), ('measure', [1], 'b', []), ('if', [('nonzero', 'a'), ('nonzero', 'b')], [('u', D.X(t), [2])])]
            ks = {'a': 1, 'b': 1}
        compare(cx, export(c, '3.0'), 3, wrong_steps(steps) if wrong else steps, '3.0', 'classical control 3.0', key_sizes=ks)

    add('cc.v3_multibit_and', body, 'OpenQASM 3.0: two-bit key `m_a!=0` and two conditions `&&`; all outcome assignments', points=[{'t': 0.3}, {'t': 0.5, 'choose:mode': 1, 'o_m_a_0_0': True, 'o_m_b_0_0': True}], weight=4)

    def body(cx, wrong=False):
        # OpenQASM 2.0 cannot express these: the export must refuse (ValueError), never emit text
        mode = cx.choose('mode', 2)
        qs = lq(3)
        if mode == 0:
            c = cirq.Circuit(cirq.measure(qs[0], qs[1], key='a'), cirq.X(qs[2]).with_classical_controls('a'))
        else:
            c = cirq.Circuit(cirq.measure(qs[0], key='a'), cirq.measure(qs[1], key='b'), cirq.X(qs[2]).with_classical_controls('a', 'b'))
        try:
            text = export(c, '2.0')
        except ValueError:
            cx.check(not wrong, label='2.0 export of an inexpressible condition raises ValueError')
            return
        cx.check(False, label=f'2.0 export of an inexpressible condition produced text: {text[-60:]!r}')

    add('cc.v2_inexpressible', body, 'OpenQASM 2.0: multi-bit key condition / several conditions must raise ValueError (concrete shapes)', points=[{}, {'choose:mode': 1}], kind='concrete')

    # ---------------------------------------------------------------------------------------
    # G. separate obligations for behaviours that the unchanged tree may violate (kept apart so that
    #    a finding there does not mask the rest)
    # ---------------------------------------------------------------------------------------
    multi_menu = [
        ('H**t', lambda t, qs: (cirq.H**t).on(qs[1]), lambda t: [('u', D.H(t), [1])]),
        ('CCZ', lambda t, qs: cirq.CCZ(qs[0], qs[1], qs[2]), lambda t: [('u', D.CCZ(1.0), [0, 1, 2])]),
        ('I2', lambda t, qs: cirq.IdentityGate(2).on(qs[1], qs[2]), lambda t: [('u', np.eye(4), [1, 2])]),
    ]
    if hasattr(cirq, 'CCY'):
        multi_menu.append(('CCY', lambda t, qs: cirq.CCY(qs[0], qs[1], qs[2]), lambda t: [('u', D.CCY(1.0), [0, 1, 2])]))

    def body(cx, wrong=False):
        ver = VERS[cx.choose('ver', 2)]
        si = cx.choose('sub', len(multi_menu))
        t = cx.real('t', -E_, E_)
        qs = lq(3)
        _, mk, st = multi_menu[si]
        c = cirq.Circuit([cirq.I(q) for q in qs], cirq.H(qs[0]), cirq.measure(qs[0], key='a'), mk(t, qs).with_classical_controls('a'))
        steps = [('u', D.H(1.0), [0]), ('measure', [0], 'a', []), ('if', [('nonzero', 'a')], st(t))]
        compare(cx, export(c, ver), 3, wrong_steps(steps) if wrong else steps, ver, 'classically controlled multi-statement op', key_sizes={'a': 1})

    add(
        'cc.multi_statement',
        body,
        'classically controlled operation whose QASM form has SEVERAL statements (H**t -> ry,rx,ry; CCZ -> h,ccx,h; IdentityGate(2); CCY): every statement must be guarded by the condition',
        points=[{'t': 0.3}, {'t': 0.3, 'o_m_a_0_0': True}, {'t': 0.3, 'choose:ver': 1}, {'t': 1.0, 'choose:sub': 1}],
        weight=5,
    )

    def body(cx, wrong=False):
        ver = VERS[cx.choose('ver', 2)]
        kk = cx.choose('k', 4)
        t = cx.real('t', -E_, E_)
        qs = lq(3)
        c = cirq.Circuit(cirq.H(qs[0]), cirq.H(qs[1]), cirq.measure(qs[0], qs[1], key='a'), (cirq.X**t).on(qs[2]).with_classical_controls(sympy.Eq(sympy.Symbol('a'), kk)))
        steps = [('u', D.H(1.0), [0]), ('u', D.H(1.0), [1]), ('measure', [0, 1], 'a', []), ('if', [('eq', 'a', kk)], [('u', D.X(t), [2])])]
        compare(cx, export(c, ver), 3, wrong_steps(steps) if wrong else steps, ver, 'sympy a==k on a two-bit key', key_sizes={'a': 2})

    add(
        'cc.sympy_eq_bit_order',
        body,
        'SympyCondition a==k on a TWO-bit key, k=0..3: Cirq reads the key big-endian (first measured qubit most significant) while an OpenQASM register has bit 0 least significant; the exported comparison must select the same outcomes',
        points=[{'t': 1.0, 'choose:k': 2, 'o_m_a_0_0': True}, {'t': 1.0, 'choose:k': 1, 'o_m_a_0_0': True}, {'t': 0.3, 'choose:k': 3}, {'t': 0.3, 'choose:k': 0, 'choose:ver': 1}],
        weight=5,
    )

    def body(cx, wrong=False):
        ver = VERS[cx.choose('ver', 2)]
        t = cx.real('t', -E_, E_)
        qs = lq(2)
        c = cirq.Circuit(cirq.measure(qs[0], key='a'), cirq.global_phase_operation(1j).with_classical_controls('a'), (cirq.X**t).on(qs[1]))
        c2 = cirq.Circuit(cirq.Moment([cirq.measure(qs[0], key='a')]), cirq.Moment([cirq.global_phase_operation(1j).with_classical_controls('a')]), cirq.Moment([(cirq.X**t).on(qs[1])]))
        steps = [('measure', [0], 'a', []), ('phase',), ('u', D.X(t), [1])]
        for nm, circ in (('same moment', c), ('phase before the gate', c2)):
            compare(cx, export(circ, ver), 2, wrong_steps(steps) if wrong else steps, ver, f'conditional global phase ({nm})', key_sizes={'a': 1})

    add('cc.global_phase', body, 'a classically controlled GlobalPhaseGate has no observable effect: the export must stay a valid program and must not put the FOLLOWING statement under the condition', points=[{'t': 0.3}, {'t': 0.3, 'o_m_a_0_0': True}, {'t': 1.0, 'choose:ver': 1}], weight=2)

    def body(cx, wrong=False):
        t = cx.real('t', -E_, E_)
        cx.assume(t == -0.5)
        qs = lq(1)
        c = cirq.Circuit((cirq.X**t).on(qs[0]))
        steps = [('u', D.X(t), [0])]
        compare(cx, export(c, '3.0'), 1, wrong_steps(steps) if wrong else steps, '3.0', 'X**-0.5 under stdgates.inc', lenient=())

    add('v3.stdgates_only', body, 'OpenQASM 3.0 export of X**-0.5 must only use gates that stdgates.inc defines (it has sx but no sxdg)', points=[{'t': -0.5}])

    # ---------------------------------------------------------------------------------------
    # H. whole circuits: qubit order, several operations, tagged operations, precision argument
    # ---------------------------------------------------------------------------------------
    def circ_menu():
        # (name, n params, qubits, builder(params, qs)->op, steps(params, pos)->list)
        return [
            ('X', 1, 1, lambda p, q: (cirq.X ** p[0]).on(*q), lambda p, a: [('u', D.X(p[0]), a)]),
            ('Z', 1, 1, lambda p, q: (cirq.Z ** p[0]).on(*q), lambda p, a: [('u', D.Z(p[0]), a)]),
            ('H', 1, 1, lambda p, q: (cirq.H ** p[0]).on(*q), lambda p, a: [('u', D.H(p[0]), a)]),
            ('ry', 1, 1, lambda p, q: cirq.ry(p[0]).on(*q), lambda p, a: [('u', D.ry(p[0]), a)]),
            ('PhXZ', 2, 1, lambda p, q: cirq.PhasedXZGate(x_exponent=p[0], z_exponent=p[1], axis_phase_exponent=0.125).on(*q), lambda p, a: [('u', D.phased_xz(p[0], p[1], 0.125), a)]),
            ('CX', 0, 2, lambda p, q: cirq.CNOT(*q), lambda p, a: [('u', D.CX(1.0), a)]),
            ('CZ', 0, 2, lambda p, q: cirq.CZ(*q), lambda p, a: [('u', D.CZ(1.0), a)]),
            ('SWAP', 0, 2, lambda p, q: cirq.SWAP(*q), lambda p, a: [('u', D.SWAP(1.0), a)]),
            ('CCX', 0, 3, lambda p, q: cirq.CCX(*q), lambda p, a: [('u', D.CCX(1.0), a)]),
            ('CSWAP', 0, 3, lambda p, q: cirq.CSWAP(*q), lambda p, a: [('u', D.CSWAP(), a)]),
            ('Xtag', 1, 1, lambda p, q: (cirq.X ** p[0]).on(*q).with_tags('tag'), lambda p, a: [('u', D.X(p[0]), a)]),
            ('cX', 0, 2, lambda p, q: cirq.X(q[1]).controlled_by(q[0]), lambda p, a: [('u', D.CX(1.0), a)]),
        ]

    CM = circ_menu()
    SECOND = ('Z', 'CX', 'CCX', 'H')
    THIRD = ('Z', 'CX')
    THREE_OP_FIRSTS = ('X', 'PhXZ', 'CX', 'CCX') if thorough else ()
    # (version, qubit order) pairs: register index i holds qs[order[i]]
    VER_ORDER = [('2.0', (2, 0, 1)), ('3.0', (1, 2, 0))]

    def placements(k):
        return {1: [(0,), (2,)], 2: [(0, 1), (2, 0)], 3: [(0, 1, 2), (2, 0, 1)]}[k]

    for first in [m[0] for m in CM]:
        def body(cx, wrong=False, first=first):
            ver, order = VER_ORDER[cx.choose('ver_order', len(VER_ORDER))]
            names = [cirq.NamedQubit('b'), cirq.GridQubit(0, 1), cirq.LineQubit(5)]
            qs = names  # position i in `names`; register index = order.index(i)
            ops, steps = [], []
            for i in range(3 if first in THREE_OP_FIRSTS else 2):
                cand = CM if i == 0 else [m for m in CM if m[0] in (SECOND if i == 1 else THIRD)]
                m = next(x for x in CM if x[0] == first) if i == 0 else cand[cx.choose(f'g{i}', len(cand))]
                _, npar, k, mk, st = m
                pls = placements(k)
                pl = pls[cx.choose(f'pl{i}', len(pls))]
                ps = [cx.real(f'p{i}_{j}', -E_, E_) for j in range(npar)]
                ops.append(mk(ps, [qs[a] for a in pl]))
                steps += st(ps, [order.index(a) for a in pl])
            c = cirq.Circuit(ops)
            for q_ in qs:
                if q_ not in c.all_qubits():
                    c.append(cirq.I(q_))
            text = export(c, ver, qubit_order=[qs[i] for i in order])
            compare(cx, text, 3, wrong_steps(steps) if wrong else steps, ver, f'circuit[{first},...]', qubit_names=[str(qs[i]) for i in order])

        add(
            f'circuit.{first}',
            body,
            f'{3 if first in THREE_OP_FIRSTS else 2}-operation circuits starting with {first} (second operation from Z**t, CX, CCX, H**t, third from Z**t, CX; 2 placements per arity) on Named/Grid/Line qubits with an explicit permuted qubit_order, 2.0 and 3.0: register index of every argument, declared order comment, statement order, fresh symbolic parameters per operation',
            points=[{}, {'choose:ver_order': 1, 'choose:g1': 1, 'choose:g2': 2, 'choose:pl1': 1}, {'choose:g1': 3, 'p0_0': 0.5, 'p1_0': 1.0}],
            weight=12,
            opts={'max_paths': 200000},
        )

    def body(cx, wrong=False):
        # precision argument: rounding is the identity in the symbolic model; the concrete points exercise it
        prec = [10, 6, 3][cx.choose('prec', 3)]
        ver = VERS[cx.choose('ver', 2)]
        t = cx.real('t', -E_, E_)
        p = cx.real('p', -2.0, 2.0)
        fork_eq(cx, t, [h for h in HALF_POINTS if -E_ <= h <= E_], gap=2 * 10.0**-prec)
        qs = lq(2)
        c = cirq.Circuit(cirq.PhasedXPowGate(exponent=t, phase_exponent=p).on(qs[0]), cirq.rz(t).on(qs[1]), (cirq.Y**p).on(qs[1]))
        steps = [('u', D.phased_x(t, p), [0]), ('u', D.rz(t), [1]), ('u', D.Y(p), [1])]
        text = export(c, ver, precision=prec)
        compare(cx, text, 2, wrong_steps(steps) if wrong else steps, ver, f'precision={prec}', tol=TOL + 40 * 10.0**-prec)

    add('circuit.precision', body, 'to_qasm(precision=10|6|3): tolerance scaled to the requested precision (1e-7 + 40*10^-precision)', points=_pts(['t', 'p']) + _pts(['t', 'p'], {'choose:prec': 1}) + _pts(['t', 'p'], {'choose:prec': 2, 'choose:ver': 1}), weight=6)

    def body(cx, wrong=False):
        # cirq.qasm(circuit, args=QasmArgs(version=...)) entry point
        t = cx.real('t', -E_, E_)
        ver = VERS[cx.choose('ver', 2)]
        how = cx.choose('how', 2)
        qs = lq(2)
        c = cirq.Circuit((cirq.Z**t).on(qs[0]), cirq.CNOT(qs[0], qs[1]))
        if how == 1:
            c = c.freeze()
        qasm_shim.reset()
        text = cirq.qasm(c, args=cirq.QasmArgs(version=ver)) if ver == '3.0' else cirq.qasm(c)
        steps = [('u', D.Z(t), [0]), ('u', D.CX(1.0), [0, 1])]
        compare(cx, text, 2, wrong_steps(steps) if wrong else steps, ver, 'cirq.qasm(circuit)')

    add('circuit.cirq_qasm', body, 'cirq.qasm(circuit[, args]) on Circuit and FrozenCircuit', points=[{'t': 0.3}, {'t': 0.5, 'choose:ver': 1, 'choose:how': 1}])

    # ---------------------------------------------------------------------------------------
    # I. fall-back through matrices (QasmUGate.from_matrix / QasmTwoQubitGate KAK): LAPACK, so only
    #    CONCRETE gates; flagged concrete, not part of the symbolic claim
    # ---------------------------------------------------------------------------------------
    def conc_menu():
        rs = np.random.RandomState(19)

        def ru(n):
            z = rs.randn(n, n) + 1j * rs.randn(n, n)
            q, r = np.linalg.qr(z)
            return q * (np.diag(r) / np.abs(np.diag(r)))

        u1, u2 = ru(2), ru(4)

        class Opaque(cirq.Gate):
            """user-defined gate that only knows its matrix: reaches the QasmUGate / QasmTwoQubitGate fall-back"""

            def __init__(self, m):
                self._m = m

            def _num_qubits_(self):
                return int(np.log2(len(self._m)))

            def _unitary_(self):
                return self._m

        u3 = ru(4)
        return [
            ('Opaque2.random', lambda qs: Opaque(u3).on(qs[0], qs[2]), u3, [0, 2]),
            ('Opaque2.fsim', lambda qs: Opaque(np.asarray(D.fsim(0.4, 1.3), dtype=complex)).on(qs[2], qs[1]), D.fsim(0.4, 1.3), [2, 1]),
            ('Opaque1.random', lambda qs: Opaque(u1).on(qs[2]), u1, [2]),
            ('MatrixGate1', lambda qs: cirq.MatrixGate(u1).on(qs[1]), u1, [1]),
            ('MatrixGate2', lambda qs: cirq.MatrixGate(u2).on(qs[1], qs[0]), u2, [1, 0]),
            ('CZ**0.5', lambda qs: (cirq.CZ**0.5).on(qs[0], qs[1]), D.CZ(0.5), [0, 1]),
            ('SWAP**0.3', lambda qs: (cirq.SWAP**0.3).on(qs[0], qs[1]), D.SWAP(0.3), [0, 1]),
            ('ISWAP', lambda qs: cirq.ISWAP.on(qs[1], qs[0]), D.ISWAP(1.0), [1, 0]),
            ('FSim', lambda qs: cirq.FSimGate(0.4, 1.3).on(qs[0], qs[1]), D.fsim(0.4, 1.3), [0, 1]),
            ('XX**0.7', lambda qs: (cirq.XX**0.7).on(qs[0], qs[1]), D.XX(0.7), [0, 1]),
            ('CCZ**0.5', lambda qs: (cirq.CCZ**0.5).on(qs[0], qs[1], qs[2]), D.CCZ(0.5), [0, 1, 2]),
            ('CCX**0.25', lambda qs: (cirq.CCX**0.25).on(qs[2], qs[1], qs[0]), D.CCX(0.25), [2, 1, 0]),
            ('cZ**0.5', lambda qs: cirq.ControlledOperation([qs[0]], (cirq.Z**0.5).on(qs[1])), D.CZ(0.5), [0, 1]),
        ]

    CONC = conc_menu()

    def body(cx, wrong=False):
        ver = VERS[cx.choose('ver', 2)]
        gi = cx.choose('gate', len(CONC))
        nm, mk, m, axes = CONC[gi]
        qs = lq(3)
        with qasm_shim.unshimmed():  # nothing symbolic here: real numpy / LAPACK all the way
            c = cirq.Circuit(mk(qs), *[cirq.I(q) for q in qs])
            text = export(c, ver)
        steps = [('u', m, axes)]
        compare(cx, text, 3, wrong_steps(steps) if wrong else steps, ver, f'fallback[{nm}]', tol=1e-6)

    add('fallback.concrete', body, 'CONCRETE gates without a QASM form (user-defined matrix-only gates 1q/2q with generic KAK coefficients, MatrixGate 1q/2q, fractional CZ/SWAP/CCZ/CCX powers, ISWAP, FSim, XX) through decomposition + QasmUGate/QasmTwoQubitGate (KAK): never dropped, equal within 1e-6', points=[{'choose:gate': i, 'choose:ver': i % 2} for i in range(len(CONC))], kind='concrete', weight=3)

    return obs


LEVEL = (
    'Bounded symbolic execution of the real OpenQASM exporter, SMT-decided: gate exponents, global shifts, angles and phase exponents are '
    'symbolic reals (measurement invert masks and outcomes symbolic Booleans) flowing through the real Circuit.to_qasm / QasmOutput / '
    'QasmArgs.format / per-gate _qasm_ / decomposition code; special-case thresholds (x/sx/sxdg/s/sdg/t/tdg/h/id, exponent==1, %2, the literal 0) '
    'are reached because the explorer forks on the code\'s own comparisons. The emitted TEXT (symbolic numbers rendered as placeholder tokens) '
    'is parsed and interpreted by an independent OpenQASM 2.0/3.0 reader with qelib1.inc/stdgates.inc written from the specifications, and z3 '
    'decides equality up to global phase with the ordered product of documented gate matrices for ALL parameter values in the boxes. '
    'Circuit shapes, qubit orders, keys, versions are enumerated from stated menus.'
)


def main(tier, seed=0, replay=None, only=None, procs=None):
    bounds = {
        'exponent_box': [-E, E] if tier == 'quick' else [-8, 8],
        'global_shift_box': [-S, S],
        'radian_box': [-A, A] if tier == 'quick' else [-13, 13],
        'free_exponent_obligations': 'gate1.*, rot.*, phased.*, direct.* (operation-level _qasm_ of CZ/CX/CY/SWAP/CCZ/CCX/CCY), controlled.fastpath.*: exponent and global shift are unrestricted reals in their boxes',
        'odd_exponents': 'whole-circuit export of CZ/CX/CY/controlled gates: t = 2k+1 with k a symbolic integer (k in [-3,2], controlled: [-2,1]); SWAP/CCZ/CCX/CCY: t pinned to 1; controlled.circuit.*: shift pinned to 0 (other values have no QASM form and go through KAK / np.angle)',
        'qubits': '<= 3',
        'ops_per_circuit': '2: first op any of a 12-gate menu, second from {Z**t, CX, CCX, H**t}; thorough adds a third op from {Z**t, CX} for first op in {X, PhXZ, CX, CCX}; 2 placements per arity',
        'qubit_orders': 'permutations (2,0,1) with 2.0 and (1,2,0) with 3.0 of Named/Grid/Line qubits',
        'versions': ['2.0', '3.0'],
        'precision': [10, 6, 3],
        'measurement': 'keys a, result_1, "A b", "0"; 1-3 measured qubits; every invert mask (symbolic bits) and every outcome (symbolic bits, forked)',
        'classical_control': 'KeyCondition, key string, sympy a==k; 1 and 2 conditions; 1- and 2-bit keys; controlled sub-operations X**t, rz, Y**t, CZ, CCX, PhasedXZ (one statement) and H**t, CCZ, CCY, IdentityGate(2), GlobalPhase (several / no statements)',
        'tolerance': 1e-7,
        'outside': [
            'QasmUGate.from_matrix / QasmTwoQubitGate.from_matrix (KAK, LAPACK) on symbolic matrices: only concrete instances (fallback.concrete)',
            'decimal rounding to `precision` digits: identity on symbolic values (placeholder token stands for the unrounded number); exercised by concrete validation points only',
            'exponents within 1e-9 (2*10^-precision in circuit.precision) of, but not equal to, a half-integer for PhasedXPowGate (epsilon band of the exporter)',
            'classical control that reads a key measured more than once (Cirq keeps a record per measurement, OpenQASM overwrites the register), qudits, confusion maps (no OpenQASM form), BitMaskKeyCondition (raises), cirq.If (experimental)',
            'sx/sxdg are accepted for 2.0 although the original qelib1.inc (arXiv:1707.03429) lacks them (Qiskit qelib1.inc has them); for 3.0 sxdg is read leniently except in v3.stdgates_only',
            'header comment text, blank-line layout, file saving',
        ],
    }
    assumptions = BASE_ASSUMPTIONS + [
        'OpenQASM semantics are those of oracles/qasm_reader.py: grammar and qelib1.inc from arXiv:1707.03429 (+ sx, sxdg, p from Qiskit qelib1.inc), stdgates.inc and built-in U from the OpenQASM 3 specification; creg bit 0 is the least significant bit',
        'cirq.protocols.qasm.round is replaced by symx.qasm_shim.qasm_round: a symbolic number is formatted as a placeholder token that the reader maps back to the term (rounding to `precision` digits modelled as the identity)',
        'measurement and reset outcomes are symbolic Booleans explored by forking; programs are compared through the Kraus operator of every outcome assignment, up to one global phase per assignment',
    ]
    return run_check(PID, tier, 'checks.C19', SHIMS, LEVEL, assumptions, bounds, seed=seed, replay=replay, only=only, procs=procs)

"""C16 (message part): round trips through the Quantum Engine program / sweep / run-context messages.

The messages are the PURE-PYTHON protobuf backend's objects (PROTOCOL_BUFFERS_PYTHON_IMPLEMENTATION=python), whose
scalar stores go through Python type checkers; symx/pbsym.py interposes those checkers harness-side (worker
processes only) so that symbolic integers / reals / Booleans are stored in the messages (float32 fields: sound
rounding model).  The real serializer / deserializer functions of cirq_google run on them unmodified.  In concrete
mode (validation points, replays) the unmodified checkers run and every message additionally goes through the real
wire encoding (SerializeToString / FromString).

Exposes SHIMS, worker_setup(), obligations(tier), BOUNDS, ASSUMPTIONS (merged into checks/C16.py by the owner)
and a stand-alone main() (PID C16; run with VERIF_EVIDENCE_SUFFIX=.msgs so evidence/C16.json is not overwritten).
"""
from __future__ import annotations

import os
import sys

if 'google.protobuf' not in sys.modules:
    os.environ['PROTOCOL_BUFFERS_PYTHON_IMPLEMENTATION'] = 'python'

import numpy as np
import sympy

from oracles import param_algebra as PA
from oracles.qe_format import AND, IFF, NOT, OR, Cmp
from symx import pbsym
from symx.explore import Obligation
from symx.run import run_check

PID = 'C16'

SHIMS = [
    'cirq_google.serialization.arg_func_langs',
    'cirq_google.serialization.circuit_serializer',
    'cirq_google.serialization.op_serializer',
    'cirq_google.serialization.op_deserializer',
    'cirq_google.api.v2.sweeps',
    'cirq_google.api.v1.params',
    'cirq_google.ops.internal_gate',
    'cirq_google.devices.grid_device',
    'cirq.circuits.circuit_operation',
    'cirq.ops.eigen_gate',
    'cirq.ops.common_gates',
    'cirq.ops.fsim_gate',
    'cirq.ops.phased_x_gate',
    'cirq.ops.phased_x_z_gate',
    'cirq.ops.swap_gates',
    'cirq.ops.common_channels',
    'cirq.ops.random_gate_channel',
    'cirq.ops.wait_gate',
    'cirq.value.periodic_value',
    'cirq.study.sweeps',
]

BOX = 4.0  # box of symbolic real arguments
U = 2.0**-24
TOL = BOX * U * (1 + 2.0**-10) + 1e-12  # single-precision margin for |x| <= BOX
F32_INT = 1 << 24


def worker_setup():
    stubs = pbsym.install()
    from cirq_google.serialization import arg_func_langs as A
    from symx.sint import SInt
    from symx.snum import SNum

    if SNum not in A.FLOAT_TYPES:
        A.FLOAT_TYPES = tuple(A.FLOAT_TYPES) + (SNum, SInt)
    stubs.append('cirq_google.serialization.arg_func_langs.FLOAT_TYPES extended by the symbolic real / integer classes (a symbolic real stands for the float, a symbolic integer for the int the caller would pass)')
    from symx import tunits_model

    stubs.extend(tunits_model.install(['cirq_google.api.v2.sweeps']))
    from cirq.circuits import circuit_operation as CO

    if SInt not in CO.INT_CLASSES:
        CO.INT_CLASSES = tuple(CO.INT_CLASSES) + (SInt,)
    stubs.append('cirq.circuits.circuit_operation.INT_CLASSES extended by the symbolic integer class (symbolic repetition counts)')
    return stubs


# --------------------------------------------------------------------------------------------------
# helpers
# --------------------------------------------------------------------------------------------------
def wire(cx, msg):
    """concrete mode (validation points, replays): additionally through the real wire encoding"""
    if cx.mode == 'concrete':
        return type(msg).FromString(msg.SerializeToString())
    return msg


def sym_int(cx, name, lo, hi):
    """symbolic integer with constant hash (it ends up inside hashed Cirq values); concrete mode: int"""
    from symx.hint import hint

    return hint(cx, name, lo, hi)


def fields_are(msg, *names):
    """the oneof selections along a path of the message, e.g. ('arg', 'arg_value'), ('arg_value', 'float_value')"""
    return True


KEYS = None


def key_menu():
    import cirq

    return [cirq.MeasurementKey('m'), cirq.MeasurementKey('b', path=('p0',)), cirq.MeasurementKey('c_d', path=('x', 'y'))]


def obligations(tier):
    import cirq
    import cirq_google as cg
    from cirq_google.api import v2
    from cirq_google.serialization import arg_func_langs as A

    quick = tier == 'quick'
    obs = []
    a, b, c = sympy.symbols('a b c')

    # ==================================================================================================
    # 1. arg_func_langs
    # ==================================================================================================
    # ---- 1a. one real / integer argument -------------------------------------------------------------
    def body_arg_real(cx, wrong=False):
        how = cx.choose('function', 2)  # 0: arg_to_proto / arg_from_proto, 1: float_arg_*
        x = cx.real('x', -BOX, BOX)
        if how == 0:
            msg = wire(cx, A.arg_to_proto(x))
            # program.proto: a number is Arg.arg_value.float_value (float32)
            cx.check(msg.WhichOneof('arg') == 'arg_value' and msg.arg_value.WhichOneof('arg_value') == 'float_value', 'Arg oneof selection for a real')
            back = A.arg_from_proto(msg, required_arg_name='x')
        else:
            msg = wire(cx, A.float_arg_to_proto(x))
            cx.check(msg.WhichOneof('arg') == 'float_value', 'FloatArg oneof selection for a real')
            back = A.float_arg_from_proto(msg, required_arg_name='x')
        k = Cmp(cx, TOL)
        k.num(back, x, 'value')
        k.finish('real argument', wrong)

    obs.append(
        Obligation(
            'msgs.arg.real',
            body_arg_real,
            twin=lambda cx: body_arg_real(cx, wrong=True),
            points=[{'choose:function': f, 'x': v} for f in (0, 1) for v in (0.0, 1.0, -2.0, 0.1, -3.7, 2.5, 1e-3)],
            desc=f'arg_to_proto/arg_from_proto and float_arg_to_proto/float_arg_from_proto on a SYMBOLIC real x in [-{BOX},{BOX}]: float32 field selected, value returned within the single-precision margin (integer-valued x returned as int)',
        )
    )

    def body_arg_int(cx, wrong=False):
        how = cx.choose('function', 2)
        n = cx.int('n', -F32_INT, F32_INT)
        if how == 0:
            back = A.arg_from_proto(wire(cx, A.arg_to_proto(n)), required_arg_name='n')
        else:
            back = A.float_arg_from_proto(wire(cx, A.float_arg_to_proto(n)), required_arg_name='n')
        k = Cmp(cx, TOL)
        k.cond(IFF(back == n, not wrong), 'integer argument returned exactly')
        from oracles.qe_format import is_intlike

        k.cond(is_intlike(back), f'integer argument comes back as {type(back).__name__}')
        k.finish('integer argument')

    obs.append(
        Obligation(
            'msgs.arg.int',
            body_arg_int,
            twin=lambda cx: body_arg_int(cx, wrong=True),
            points=[{'choose:function': f, 'n': v} for f in (0, 1) for v in (0, 1, -1, 7, -F32_INT, F32_INT, 12345678)],
            desc=f'an integer argument n (SYMBOLIC, |n| <= 2**24, the range in which float32 holds every integer) is returned as exactly the same int by arg_* and float_arg_*',
        )
    )

    # ---- 1b. lists ----------------------------------------------------------------------------------------
    LISTS = ['ints', 'reals', 'int_then_real', 'bools', 'strings', 'mixed_tuple', 'nested', 'empty_list', 'empty_tuple', 'str_then_int']

    def body_arg_list(cx, wrong=False):
        kind = LISTS[cx.choose('kind', len(LISTS))]
        n1, n2 = sym_int(cx, 'n1', -(1 << 40), 1 << 40), sym_int(cx, 'n2', -(1 << 40), 1 << 40)
        x1, x2 = cx.real('x1', -BOX, BOX), cx.real('x2', -BOX, BOX)
        # expected = what the documentation of arg_to_proto / program.proto promises to give back
        if kind == 'ints':  # RepeatedInt64: 64-bit integers, exact
            val, field = [n1, n2, 7], 'int64_values'
        elif kind == 'reals':  # RepeatedDouble: doubles
            val, field = [x1, x2, 0.5], 'double_values'
        elif kind == 'int_then_real':
            val, field = [n1, x1], 'double_values'
        elif kind == 'bools':
            val, field = [True, False, True], 'bool_values'
        elif kind == 'strings':
            val, field = ['a', 'bc', ''], 'string_values'
        elif kind == 'mixed_tuple':
            val, field = (x1, 'a', n1 if False else 3, True), 'tuple_value'
        elif kind == 'nested':
            val, field = [[x1, x2], 's', (1, 2)], 'tuple_value'
        elif kind == 'empty_list':
            val, field = [], 'tuple_value'
        elif kind == 'empty_tuple':
            val, field = (), 'tuple_value'
        else:
            val, field = ['s', 4], 'tuple_value'
        msg = wire(cx, A.arg_to_proto(val))
        cx.check(msg.WhichOneof('arg') == 'arg_value' and msg.arg_value.WhichOneof('arg_value') == field, f'list kind {kind}: field {field}')
        back = A.arg_from_proto(msg, required_arg_name='v')
        k = Cmp(cx, TOL)
        if kind == 'nested':
            # an inner tuple of ints is a RepeatedInt64 and documented to come back as a list
            exp = [[x1, x2], 's', [1, 2]]
        else:
            exp = val
        k.same(back, exp, kind)
        k.finish(f'list {kind}', wrong)

    obs.append(
        Obligation(
            'msgs.arg.list',
            body_arg_list,
            twin=lambda cx: body_arg_list(cx, wrong=True),
            points=[{'choose:kind': i, 'n1': 5 - 3 * i, 'n2': (1 << 39) + i, 'x1': 0.1 * i - 0.3, 'x2': 2.5} for i in range(len(LISTS))],
            opts={'weight': 2},
            desc=f'arg_to_proto/arg_from_proto on sequences {LISTS}: SYMBOLIC 64-bit integers (|n| <= 2**40, exact), SYMBOLIC reals (double field / float32 inside tuples), Booleans, strings, mixed and nested sequences, empty list / tuple: documented field chosen, same element values, list/tuple type kept for tuple_value',
        )
    )

    # ---- 1c. formulas --------------------------------------------------------------------------------------
    EXPRS = [
        ('a', a),
        ('a+b', a + b),
        ('a*b', a * b),
        ('2*a', 2 * a),
        ('a-b', a - b),
        ('a**2', a**2),
        ('a**-1*b', b / (a + 3)),
        ('0.5*a+0.25', 0.5 * a + 0.25),
        ('0.1*a+1/3', 0.1 * a + sympy.Rational(1, 3)),
        ('a*b*c+a', a * b * c + a),
        ('(a+b)*(a-c)', sympy.Mul(a + b, a - c, evaluate=False)),
        ('a**3-2*b**2', a**3 - 2 * b**2),
        ('pi*a', sympy.pi * a),
        ('-a', -a),
    ]

    def body_arg_expr(cx, wrong=False):
        how = cx.choose('function', 2)
        name, e = EXPRS[cx.choose('expr', len(EXPRS))]
        if how == 0:
            back = A.arg_from_proto(wire(cx, A.arg_to_proto(e)), required_arg_name='e')
        else:
            back = A.float_arg_from_proto(wire(cx, A.float_arg_to_proto(e)), required_arg_name='e')
        k = Cmp(cx, TOL, expr_tol=1e-5)
        k.cond(isinstance(back, sympy.Basic), f'{name}: formula comes back as {type(back).__name__}')
        if isinstance(back, sympy.Basic):
            k.cond(all(isinstance(n, A.SUPPORTED_SYMPY_OPS + (sympy.Number, sympy.NumberSymbol)) or n.is_number for n in sympy.preorder_traversal(back)), f'{name}: unsupported node in {back!r}')
        if wrong:
            # twin: the formula with its first symbol renamed must NOT be accepted
            k2 = Cmp(cx, TOL)
            k2.expr(back, e + 0.01, name)
            return k2.finish(f'formula {name}')
        k.expr(back, e, name)
        # force a semantic (not just structural) comparison as well
        k2 = Cmp(cx, TOL, expr_tol=1e-5)
        names = sorted(s.name for s in e.free_symbols)
        from oracles.qe_format import Unsupported, sym_eval

        try:
            k2.exprs.append((sym_eval(back, k.symval), sym_eval(e, k.symval), name))
        except Unsupported as ex:
            k.fail(f'{name}: returned formula {back!r} cannot be evaluated ({ex})')
        k.finish(f'formula {name}')
        k2.finish(f'formula value {name}')

    obs.append(
        Obligation(
            'msgs.arg.formula',
            body_arg_expr,
            twin=lambda cx: body_arg_expr(cx, wrong=True),
            points=[{'choose:function': f, 'choose:expr': i, 'sym_a': 0.7, 'sym_b': -1.2, 'sym_c': 0.4} for f in (0, 1) for i in range(len(EXPRS))],
            opts={'weight': 2},
            desc=f'sympy formulas {[n for n, _ in EXPRS]} (Symbol / Add / Mul / Pow, numeric constants through float32) through arg_* and float_arg_*: the returned formula has the same symbols and the same VALUE at SYMBOLIC values of a, b, c in [-2,2] (both trees evaluated by harness arithmetic), within 1e-5',
        )
    )

    # ---- 1d. classical conditions ----------------------------------------------------------------------------
    def body_cond_key(cx, wrong=False):
        keys = key_menu()
        key = keys[cx.choose('key', len(keys))]
        idx = sym_int(cx, 'index', -(1 << 31), (1 << 31) - 1)
        cond = cirq.KeyCondition(key, index=idx)
        msg = wire(cx, A.condition_to_proto(cond, out=v2.program_pb2.Arg()))
        # program.proto MeasurementKey: string_key, path, optional int32 index
        mk = msg.measurement_key
        k = Cmp(cx, TOL)
        k.cond(msg.WhichOneof('arg') == 'measurement_key' and mk.string_key == key.name and tuple(mk.path) == tuple(key.path), 'measurement_key message fields')
        k.cond(mk.index == idx, 'index field')
        back = A.condition_from_proto(msg)
        if wrong:
            k.cond(back.index == idx + 1, 'twin: wrong index accepted')
        else:
            k.condition(back, cond, 'KeyCondition')
        k.finish('KeyCondition')

    obs.append(
        Obligation(
            'msgs.condition.key',
            body_cond_key,
            twin=lambda cx: body_cond_key(cx, wrong=True),
            points=[{'choose:key': i % 3, 'index': v} for i, v in enumerate((-1, 0, 1, -2, 5, -(1 << 31), (1 << 31) - 1))],
            desc='condition_to_proto/condition_from_proto for KeyCondition(key from a menu incl. paths, index = SYMBOLIC int32, negative / 0 / positive): message fields per program.proto and the same condition back',
        )
    )

    def body_cond_bitmask(cx, wrong=False):
        keys = key_menu()
        key = keys[cx.choose('key', len(keys))]
        eq = cx.choose('equal_target', 2) == 1
        has_mask = cx.choose('bitmask_given', 2) == 1
        idx = sym_int(cx, 'index', -(1 << 31), (1 << 31) - 1)
        target = sym_int(cx, 'target', 0, F32_INT)
        mask = sym_int(cx, 'bitmask', 0, F32_INT) if has_mask else None
        cond = cirq.BitMaskKeyCondition(key, index=idx, target_value=target, equal_target=eq, bitmask=mask)
        msg = wire(cx, A.condition_to_proto(cond, out=v2.program_pb2.Arg()))
        k = Cmp(cx, TOL)
        k.cond(msg.WhichOneof('arg') == 'func' and msg.func.type == ('bitmask==' if eq else 'bitmask!=') and len(msg.func.args) == (3 if has_mask else 2), 'bitmask function message')
        back = A.condition_from_proto(msg)
        if wrong:
            k.cond(back.target_value == target + 1, 'twin: wrong target accepted')
        else:
            k.condition(back, cond, 'BitMaskKeyCondition')
        k.finish('BitMaskKeyCondition')

    obs.append(
        Obligation(
            'msgs.condition.bitmask',
            body_cond_bitmask,
            twin=lambda cx: body_cond_bitmask(cx, wrong=True),
            points=[{'choose:key': i % 3, 'choose:equal_target': i % 2, 'choose:bitmask_given': (i // 2) % 2, 'index': v, 'target': t, 'bitmask': m} for i, (v, t, m) in enumerate(((-1, 0, 0), (0, 1, 3), (2, 9, 13), (-3, F32_INT, F32_INT), (1, 5, 0), (-1, 0, 7)))],
            opts={'weight': 2},
            desc='BitMaskKeyCondition(key menu, index SYMBOLIC int32, target_value and bitmask SYMBOLIC in [0, 2**24], equal_target both ways, bitmask None / given): "bitmask==" / "bitmask!=" function message and the same condition back',
        )
    )

    def body_cond_bitmask_big(cx, wrong=False):
        # known weakness: target_value / bitmask travel through a float32 field
        # failing family: odd integers in (2**24, 2**25) (float32 spacing there is 2: none of them is representable)
        target = sym_int(cx, 'target', 0, F32_INT)
        mask = F32_INT + 2 * sym_int(cx, 'j', 0, (1 << 23) - 1) + 1
        cond = cirq.BitMaskKeyCondition(cirq.MeasurementKey('m'), index=-1, target_value=target, equal_target=True, bitmask=mask)
        back = A.condition_from_proto(wire(cx, A.condition_to_proto(cond, out=v2.program_pb2.Arg())))
        k = Cmp(cx, TOL)
        if wrong:
            k.cond(back.bitmask == mask + 5, 'twin')
        else:
            k.condition(back, cond, 'BitMaskKeyCondition')
        k.finish('BitMaskKeyCondition with masks beyond 24 bits')

    obs.append(
        Obligation(
            'msgs.finding.bitmask_beyond_24_bits',
            body_cond_bitmask_big,
            twin=lambda cx: body_cond_bitmask_big(cx, wrong=True),
            points=[],
            desc='BitMaskKeyCondition with bitmask = 2**24 + 2j + 1 (SYMBOLIC j, every odd 25-bit mask): the integers are written with arg_to_proto into a FLOAT32 field, so masks over more than 24 measured bits are rounded (finding)',
        )
    )

    CONDS = [
        ('a>b', sympy.StrictGreaterThan(a, b)),
        ('a>=b', sympy.GreaterThan(a, b)),
        ('a<b', sympy.StrictLessThan(a, b)),
        ('a<=1', sympy.LessThan(a, 1)),
        ('a==b', sympy.Eq(a, b)),
        ('a!=2', sympy.Ne(a, 2)),
        ('a+b>c', sympy.StrictGreaterThan(a + b, c)),
        ('(a>b)&(b>c)', sympy.And(a > b, b > c)),
        ('(a>b)|(b>=c)', sympy.Or(a > b, b >= c)),
        ('(a>b)^(b>c)', sympy.Xor(a > b, b > c)),
        ('~(a>b)', sympy.Not(sympy.StrictGreaterThan(a, b))),
        ('2*a-b<=c*a', sympy.LessThan(2 * a - b, c * a)),
    ]

    def body_cond_sympy(cx, wrong=False):
        name, e = CONDS[cx.choose('expr', len(CONDS))]
        cond = cirq.SympyCondition(e)
        msg = wire(cx, A.condition_to_proto(cond, out=v2.program_pb2.Arg()))
        back = A.condition_from_proto(msg)
        k = Cmp(cx, TOL)
        k.cond(isinstance(back, cirq.SympyCondition), f'{name}: comes back as {type(back).__name__}')
        if isinstance(back, cirq.SympyCondition):
            from oracles.qe_format import sym_eval

            # semantic: same truth value at SYMBOLIC values of the measurement keys
            g, x = sym_eval(back.expr, k.symval), sym_eval(e, k.symval)
            k.cond(IFF(g, NOT(x) if wrong else x), f'{name}: truth value differs')
            k.cond(sorted(s.name for s in back.expr.free_symbols) == sorted(s.name for s in e.free_symbols), f'{name}: symbols')
        k.finish(f'SympyCondition {name}')

    obs.append(
        Obligation(
            'msgs.condition.sympy',
            body_cond_sympy,
            twin=lambda cx: body_cond_sympy(cx, wrong=True),
            points=[{'choose:expr': i, 'sym_a': 1.0, 'sym_b': 0.0, 'sym_c': 1.0} for i in range(len(CONDS))] + [{'choose:expr': i, 'sym_a': 0.0, 'sym_b': 1.0, 'sym_c': 1.0} for i in range(len(CONDS))],
            desc=f'SympyCondition over {[n for n, _ in CONDS]} (relations and Boolean connectives): the returned condition has the same truth value for ALL values of a, b, c (SYMBOLIC reals in [-2,2], harness evaluation of both trees)',
        )
    )

    # ---- 1e. InternalGate ------------------------------------------------------------------------------------
    def body_internal_gate(cx, wrong=False):
        nq = 1 + cx.choose('num_qubits', 3)
        module = ['pkg.mod', ''][cx.choose('module', 2)]
        x = cx.real('x', -BOX, BOX)
        n = sym_int(cx, 'n', -F32_INT, F32_INT)
        shape = cx.choose('args', 4)
        args = [dict(), dict(theta=x), dict(theta=x, count=n, name='s', flag=True), dict(f=a + 2 * b, vals=[x, 0.5], ids=[n, 3], names=['u', 'v'])][shape]
        g = cg.InternalGate(gate_name='G', gate_module=module, num_qubits=nq, **args)
        msg = wire(cx, A.internal_gate_arg_to_proto(g))
        k = Cmp(cx, TOL)
        k.cond(msg.name == 'G' and msg.module == module and msg.num_qubits == nq and sorted(msg.gate_args) == sorted(args), 'InternalGate message fields')
        back = A.internal_gate_from_proto(msg)
        k.gate(back, g, 'InternalGate')
        k.finish('InternalGate', wrong and shape > 0)
        if wrong and shape == 0:
            cx.check(back.num_qubits() == nq + 1, 'twin')

    obs.append(
        Obligation(
            'msgs.internal_gate',
            body_internal_gate,
            twin=lambda cx: body_internal_gate(cx, wrong=True),
            points=[{'choose:num_qubits': i % 3, 'choose:module': i % 2, 'choose:args': i % 4, 'x': 0.3 * i - 1, 'n': 1000 * i - 7, 'sym_a': 0.5, 'sym_b': -0.25} for i in range(8)],
            opts={'weight': 2},
            desc='internal_gate_arg_to_proto / internal_gate_from_proto: name, module, num_qubits (1..3), keyword arguments with a SYMBOLIC real (float32), a SYMBOLIC integer (|n| <= 2**24), string, bool, a formula, lists of reals / ints / strings',
        )
    )

    # ==================================================================================================
    # 2. sweeps and run contexts
    # ==================================================================================================
    from cirq_google.api.v1 import params as P1
    from cirq_google.api.v2 import run_context_pb2
    from cirq_google.api.v2 import sweeps as SW
    from cirq_google.study import DeviceParameter, Metadata
    from cirq_google.study.finite_random_variable import FiniteRandomVariable

    LMAX = 4 if quick else 7
    PATHS = [['q0_1', 'readout', 'freq'], ['top']]
    UNITS = [None, 'ns', 'GHz']

    def rows_of(sweep):
        """what the deserialized sweep assigns: list of ((key, value), ...) per index, by the real cirq iteration"""
        return [tuple((str(k), v) for k, v in t) for t in sweep.param_tuples()]

    def cmp_rows(k, got_rows, exp, why):
        keys, rows = exp
        if not k.cond(len(got_rows) == len(rows), f'{why}: {len(got_rows)} points instead of {len(rows)}'):
            return
        for i, (g, e) in enumerate(zip(got_rows, rows)):
            if not k.cond([kk for kk, _ in g] == [kk for kk, _ in e], f'{why}[{i}]: keys {[kk for kk, _ in g]} vs {[kk for kk, _ in e]}'):
                continue
            for (kk, gv), (_, ev) in zip(g, e):
                k.same(gv, ev, f'{why}[{i}].{kk}')

    def make_metadata(cx, kind):
        """kind 0: none, 1: DeviceParameter(path, idx None), 2: DeviceParameter(path, SYMBOLIC idx incl. 0, units), 3: Metadata(...)"""
        if kind == 0:
            return None
        path = PATHS[cx.choose('path', len(PATHS))]
        if kind == 1:
            return DeviceParameter(path=list(path), idx=None, units=UNITS[cx.choose('units', len(UNITS))])
        idx = cx.int('idx', -(1 << 62), 1 << 62)
        if kind == 2:
            return DeviceParameter(path=list(path), idx=idx, units=UNITS[cx.choose('units', len(UNITS))])
        var = cx.choose('metadata_variant', 3)
        return Metadata(
            device_parameters=[DeviceParameter(path=list(path), idx=idx), DeviceParameter(path=['other'], idx=None)] if var != 2 else None,
            is_const=var == 1,
            label=[None, 'lbl', ''][var],
            unit=[None, 'MHz', 'V'][var],
        )

    def cmp_metadata(k, got, exp, why='metadata'):
        if exp is None or got is None:
            return k.cond(exp is None and got is None, f'{why}: {got!r} vs {exp!r}')
        if isinstance(exp, DeviceParameter):
            if not k.cond(isinstance(got, DeviceParameter), f'{why}: {type(got).__name__}'):
                return
            k.cond(list(got.path) == list(exp.path), f'{why}.path {list(got.path)} vs {exp.path}')
            if exp.idx is None or got.idx is None:
                k.cond(exp.idx is None and got.idx is None, f'{why}.idx {got.idx!r} vs {exp.idx!r}')
            else:
                k.cond(got.idx == exp.idx, f'{why}.idx {got.idx!r} vs {exp.idx!r}')
            k.cond(got.units == exp.units, f'{why}.units {got.units!r} vs {exp.units!r}')
            return
        if not k.cond(isinstance(got, Metadata), f'{why}: {type(got).__name__}'):
            return
        k.cond(got.label == exp.label and got.unit == exp.unit and bool(got.is_const) == bool(exp.is_const), f'{why}: label/unit/is_const {got!r} vs {exp!r}')
        gd, ed = got.device_parameters, exp.device_parameters
        if ed is None or gd is None:
            return k.cond(ed is None and gd is None, f'{why}.device_parameters')
        if k.cond(len(gd) == len(ed), f'{why}.device_parameters length'):
            for i, (g, e) in enumerate(zip(gd, ed)):
                cmp_metadata(k, g, e, f'{why}.device_parameters[{i}]')

    def body_linspace(cx, wrong=False):
        f64 = cx.choose('use_float64', 2) == 1
        kind = cx.choose('metadata', 4)
        start, stop = cx.real('start', -BOX, BOX), cx.real('stop', -BOX, BOX)
        length = cx.int('length', 1, LMAX)
        md = make_metadata(cx, kind)
        sw = cirq.Linspace('t', start, stop, length, metadata=md)
        msg = wire(cx, SW.sweep_to_proto(sw, use_float64=f64))
        ls = msg.single_sweep.linspace
        k = Cmp(cx, TOL)
        k.cond(msg.WhichOneof('sweep') == 'single_sweep' and msg.single_sweep.parameter_key == 't' and msg.single_sweep.WhichOneof('sweep') == 'linspace', 'Linspace message kind')
        k.cond(ls.num_points == length, 'num_points')
        # run_context.proto: first_point/last_point are float32, *_double the double variants
        k.num(ls.first_point_double if f64 else ls.first_point, start, 'message first_point')
        k.num(ls.last_point_double if f64 else ls.last_point, stop, 'message last_point')
        back = SW.sweep_from_proto(msg)
        if k.cond(isinstance(back, cirq.Linspace) and back.key == 't', f'comes back as {back!r}'):
            k.cond(back.length == length, 'length')
            k.num(back.start, start, 'start')
            k.num(back.stop, stop, 'stop')
            cmp_metadata(k, back.metadata, md)
            rows = rows_of(back)
            L = len(rows)
            if k.cond(L == length, 'number of points'):
                cmp_rows(k, rows, PA.linspace('t', start, stop, L), 'points')
        k.finish('Linspace', wrong)

    obs.append(
        Obligation(
            'msgs.sweep.linspace',
            body_linspace,
            twin=lambda cx: body_linspace(cx, wrong=True),
            points=[
                {'choose:use_float64': i % 2, 'choose:metadata': i % 4, 'choose:path': i % 2, 'choose:units': i % 3, 'choose:metadata_variant': i % 3, 'start': st, 'stop': sp, 'length': 1 + i % LMAX, 'idx': ix}
                for i, (st, sp, ix) in enumerate(((0.0, 1.0, 3), (-1.5, 2.5, -1), (0.1, 0.7, 0), (2.0, 2.0, 0), (0.0, 0.0, 1), (3.3, -3.3, -2), (1e-3, 0.25, 0), (0.5, 0.0, 1 << 40), (0.5, 0.0, 0), (0.5, 0.1, 0), (0.25, 0.0, 0), (1.5, 0.0, 0)))
            ],
            opts={'weight': 4, 'int_fork_limit': 64},
            desc=f'sweep_to_proto / sweep_from_proto on Linspace(start, stop SYMBOLIC reals, length SYMBOLIC in 1..{LMAX}), float32 and use_float64, metadata none / DeviceParameter(path, idx None | SYMBOLIC int64 incl. 0, units menu) / Metadata(device_parameters with SYMBOLIC idx, is_const, label, unit): message fields per run_context.proto, same fields back, and the deserialized sweep assigns start + (stop-start)*i/(length-1) at every index (real cirq iteration vs documented formula)',
        )
    )

    POINT_KINDS = ['reals', 'ints', 'const_real', 'const_int', 'const_none', 'const_str']

    def body_points(cx, wrong=False):
        f64 = cx.choose('use_float64', 2) == 1
        kind = POINT_KINDS[cx.choose('kind', len(POINT_KINDS))]
        mdk = cx.choose('metadata', 4)
        n = 2 + cx.choose('n', LMAX - 1) if kind in ('reals', 'ints') else 1
        if kind in ('reals', 'const_real'):
            vals = [cx.real(f'v{i}', -BOX, BOX) for i in range(n)]
        elif kind == 'ints':
            vals = [cx.int(f'n{i}', -F32_INT, F32_INT) for i in range(n)]
        elif kind == 'const_int':
            vals = [cx.int('n0', -(1 << 62), 1 << 62)]
        elif kind == 'const_none':
            vals = [None]
        else:
            vals = ['label']
        md = make_metadata(cx, mdk)
        sw = cirq.Points('p', list(vals), metadata=md)
        msg = wire(cx, SW.sweep_to_proto(sw, use_float64=f64))
        ss = msg.single_sweep
        k = Cmp(cx, TOL)
        k.cond(msg.WhichOneof('sweep') == 'single_sweep' and ss.parameter_key == 'p', 'Points message kind')
        if n == 1:
            want = {'const_real': 'double_value' if f64 else 'float_value', 'const_int': 'int_value', 'const_none': 'is_none', 'const_str': 'string_value'}[kind]
            k.cond(ss.WhichOneof('sweep') == 'const_value' and ss.const_value.WhichOneof('value') == want, f'single point -> const_value.{want}')
        else:
            k.cond(ss.WhichOneof('sweep') == 'points' and len(ss.points.points_double if f64 else ss.points.points) == n and len(ss.points.points if f64 else ss.points.points_double) == 0, 'points / points_double field')
        back = SW.sweep_from_proto(msg)
        if k.cond(isinstance(back, cirq.Points) and back.key == 'p', f'comes back as {back!r}'):
            cmp_metadata(k, back.metadata, md)
            cmp_rows(k, rows_of(back), PA.points('p', vals), 'points')
        k.finish('Points', wrong and kind not in ('const_none', 'const_str'))
        if wrong and kind in ('const_none', 'const_str'):
            cx.check(len(rows_of(back)) == 2, 'twin')

    obs.append(
        Obligation(
            'msgs.sweep.points',
            body_points,
            twin=lambda cx: body_points(cx, wrong=True),
            points=[
                dict({'choose:use_float64': i % 2, 'choose:kind': i % len(POINT_KINDS), 'choose:metadata': (i // 2) % 4, 'choose:n': i % (LMAX - 1), 'choose:path': i % 2, 'choose:units': i % 3, 'choose:metadata_variant': i % 3, 'idx': 5 - i, 'n0': 7 * i - 20}, **{f'v{j}': 0.1 * j - 0.25 * i for j in range(LMAX)}, **{f'n{j}': 1000 * j - i for j in range(1, LMAX)})
                for i in range(12)
            ],
            opts={'weight': 4},
            desc=f'Points with 2..{LMAX} SYMBOLIC reals or SYMBOLIC integers (|n| <= 2**24 in float32 fields), and single-point sweeps stored as ConstValue (SYMBOLIC real -> float/double, SYMBOLIC int64, None, string), float32 / use_float64, all metadata kinds: documented field used, same assignments (real cirq iteration of the deserialized sweep vs the original values)',
        )
    )

    # nested sweeps: (name, builder(vals) -> (cirq sweep, oracle (keys, rows), expected class tree))
    def nest_menu():
        def L(key, s, e, n):
            return cirq.Linspace(key, s, e, n), PA.linspace(key, s, e, n)

        def P(key, vs):
            return cirq.Points(key, list(vs)), PA.points(key, list(vs))

        def build(name, v):
            x, y, z, w = v
            if name == 'product(L,P)':
                (a1, o1), (a2, o2) = L('a', x, y, 3), P('b', [z, w])
                return cirq.Product(a1, a2), PA.product(o1, o2)
            if name == 'zip(L,P)':
                (a1, o1), (a2, o2) = L('a', x, y, 2), P('b', [z, w, x])
                return cirq.Zip(a1, a2), PA.zip_(o1, o2)
            if name == 'ziplongest(P,L)':
                (a1, o1), (a2, o2) = P('a', [x, y, z]), L('b', w, x, 2)
                return cirq.ZipLongest(a1, a2), PA.zip_longest(o1, o2)
            if name == 'concat(P,L)':
                (a1, o1), (a2, o2) = P('a', [x, y]), L('a', z, w, 3)
                return cirq.Concat(a1, a2), PA.concat(o1, o2)
            if name == 'product(zip(P,P),P)':
                (a1, o1), (a2, o2), (a3, o3) = P('a', [x, y]), P('b', [z, w]), P('c', [w, x])
                return cirq.Product(cirq.Zip(a1, a2), a3), PA.product(PA.zip_(o1, o2), o3)
            if name == 'zip(product(P,P),L)':
                (a1, o1), (a2, o2), (a3, o3) = P('a', [x, y]), P('b', [z, w]), L('c', x, w, 4)
                return cirq.Zip(cirq.Product(a1, a2), a3), PA.zip_(PA.product(o1, o2), o3)
            if name == 'concat(zip,zip)':
                (a1, o1), (a2, o2), (a3, o3), (a4, o4) = P('a', [x, y]), P('b', [z, w]), P('a', [w, z]), P('b', [y, x])
                return cirq.Concat(cirq.Zip(a1, a2), cirq.Zip(a3, a4)), PA.concat(PA.zip_(o1, o2), PA.zip_(o3, o4))
            if name == 'product(const,L)':
                (a1, o1), (a2, o2) = P('a', [x]), L('b', y, z, 2)
                return cirq.Product(a1, a2), PA.product(o1, o2)
            if name == 'ziplongest(product,P)':
                (a1, o1), (a2, o2), (a3, o3) = P('a', [x, y]), P('b', [z, w]), P('c', [w])
                return cirq.ZipLongest(cirq.Product(a1, a2), a3), PA.zip_longest(PA.product(o1, o2), o3)
            if name == 'unit':
                return cirq.UnitSweep, PA.unit()
            if name == 'product()':
                return cirq.Product(), PA.product()
            if name == 'listsweep':
                ds = [{'a': x, 'b': y}, {'a': z, 'b': w}, {'a': w, 'b': x}]
                return cirq.ListSweep([cirq.ParamResolver(d) for d in ds]), PA.list_sweep(ds)
            raise KeyError(name)

        names = ['product(L,P)', 'zip(L,P)', 'ziplongest(P,L)', 'concat(P,L)', 'product(zip(P,P),P)', 'zip(product(P,P),L)', 'concat(zip,zip)', 'product(const,L)', 'ziplongest(product,P)', 'unit', 'product()', 'listsweep']
        return names, build

    NEST_NAMES, nest_build = nest_menu()

    def class_tree(sw):
        if isinstance(sw, (cirq.Product,)):
            return ('Product', tuple(class_tree(f) for f in sw.factors))
        if isinstance(sw, cirq.ZipLongest):
            return ('ZipLongest', tuple(class_tree(f) for f in sw.sweeps))
        if isinstance(sw, cirq.Zip):
            return ('Zip', tuple(class_tree(f) for f in sw.sweeps))
        if isinstance(sw, cirq.Concat):
            return ('Concat', tuple(class_tree(f) for f in sw.sweeps))
        if sw is cirq.UnitSweep:
            return ('Unit',)
        if isinstance(sw, cirq.ListSweep):
            return ('List',)
        return (type(sw).__name__, str(sw.key))

    def body_nest(cx, wrong=False):
        f64 = cx.choose('use_float64', 2) == 1
        name = NEST_NAMES[cx.choose('shape', len(NEST_NAMES))]
        v = [cx.real(f'v{i}', -BOX, BOX) for i in range(4)]
        sw, oracle = nest_build(name, v)
        msg = wire(cx, SW.sweep_to_proto(sw, use_float64=f64))
        back = SW.sweep_from_proto(msg)
        k = Cmp(cx, TOL)
        want_tree = class_tree(sw)
        if name == 'listsweep':  # documented: a ListSweep is sent as a Zip of one Points per key
            want_tree = ('Zip', (('Points', 'a'), ('Points', 'b')))
        if name == 'product(const,L)':
            pass
        k.cond(class_tree(back) == want_tree, f'{name}: sweep structure {class_tree(back)} vs {want_tree}')
        if name == 'product()':
            # Product() == the unit sweep: one point without assignments
            oracle = PA.unit()
        cmp_rows(k, rows_of(back), oracle, name)
        numeric = bool(k.nums)
        k.finish(f'nested sweep {name}', wrong and numeric)
        if wrong and not numeric:
            cx.check(len(rows_of(back)) == 7, 'twin')

    obs.append(
        Obligation(
            'msgs.sweep.nested',
            body_nest,
            twin=lambda cx: body_nest(cx, wrong=True),
            points=[{'choose:use_float64': i % 2, 'choose:shape': i % len(NEST_NAMES), 'v0': 0.1 * i, 'v1': -1.0 + 0.2 * i, 'v2': 2.5 - 0.25 * i, 'v3': 0.25} for i in range(2 * len(NEST_NAMES))],
            opts={'weight': 3},
            desc=f'sweep_to_proto / sweep_from_proto on nestings {NEST_NAMES} of Linspace / Points with SYMBOLIC reals, float32 and use_float64: same class tree (ListSweep documented as Zip of Points) and the deserialized sweep assigns, index by index (real cirq iteration), the values the sweep documentation of the ORIGINAL defines (oracles/param_algebra.py lists)',
        )
    )

    def body_frv(cx, wrong=False):
        seed = cx.int('seed', -(1 << 31), (1 << 31) - 1)
        length = cx.int('length', 1, (1 << 31) - 1)
        dist = [{1.0: 0.5, -1.0: 0.25, 0.0: 0.25}, {0.25: 1.0}, {2: 3.0, 3.5: 1.0}][cx.choose('distribution', 3)]
        md = make_metadata(cx, cx.choose('metadata', 3))
        sw = FiniteRandomVariable('r', distribution=dict(dist), seed=seed, length=length, metadata=md)
        msg = wire(cx, SW.sweep_to_proto(sw))
        rv = msg.single_sweep.random_variable
        k = Cmp(cx, TOL)
        k.cond(msg.single_sweep.WhichOneof('sweep') == 'random_variable' and rv.seed == seed and rv.length == length, 'random_variable message fields')
        back = SW.sweep_from_proto(msg)
        if k.cond(isinstance(back, FiniteRandomVariable) and back.key == 'r', f'comes back as {back!r}'):
            k.cond(back.seed == (seed + 1 if wrong else seed), 'seed')
            k.cond(back.length == length, 'length')
            k.cond({float(kk): float(vv) for kk, vv in back.distribution.items()} == {float(kk): float(vv) for kk, vv in dist.items()}, f'distribution {back.distribution} vs {dist}')
            cmp_metadata(k, back.metadata, md)
        k.finish('FiniteRandomVariable')

    obs.append(
        Obligation(
            'msgs.sweep.finite_random_variable',
            body_frv,
            twin=lambda cx: body_frv(cx, wrong=True),
            points=[{'seed': 5 * i - 7, 'length': 1 + 3 * i, 'choose:distribution': i % 3, 'choose:metadata': i % 3, 'choose:path': i % 2, 'choose:units': i % 3, 'idx': i - 1} for i in range(6)],
            desc='FiniteRandomVariable(distribution menu, seed SYMBOLIC int32, length SYMBOLIC positive int32, metadata kinds): message fields and the same distribution / seed / length / metadata back (the sampled values are a function of exactly these)',
        )
    )

    # ---- sweeps of quantities with units ------------------------------------------------------------------------------
    import tunits

    # SI conversion factors written here from the definitions of the prefixes (NOT taken from tunits)
    UNIT_MENU = [('ns', 'us', 1000.0), ('GHz', 'MHz', 1e-3), ('mV', 'V', 1000.0), ('us', 'us', 1.0)]

    def uval(cx, mag, uname):
        """quantity mag * unit: real tunits value in concrete mode, the harness model of tunits.Value in symbolic mode"""
        unit = getattr(tunits, uname)
        if cx.mode == 'concrete':
            return mag * unit
        from symx.tunits_model import SymValue

        return SymValue(mag, unit)

    UNIT_FORMS = ['linspace', 'points', 'const']

    def body_units(cx, wrong=False):
        f64 = cx.choose('use_float64', 2) == 1
        form = UNIT_FORMS[cx.choose('form', len(UNIT_FORMS))]
        u1, u2, factor = UNIT_MENU[cx.choose('units', len(UNIT_MENU))]  # 1 u2 = factor u1
        a_, b_, c_ = cx.real('a', -BOX, BOX), cx.real('b', -BOX, BOX), cx.real('c', -BOX, BOX)
        U1 = getattr(tunits, u1)
        k = Cmp(cx, TOL * max(1.0, factor))  # magnitudes are compared in the FIRST unit: |b * factor| <= BOX * factor
        if form == 'linspace':
            L = 1 + cx.choose('length', LMAX)
            sw = cirq.Linspace('t', uval(cx, a_, u1), uval(cx, b_, u2), L)
            oracle = PA.linspace('t', a_, b_ * factor, L)
        elif form == 'points':
            sw = cirq.Points('t', [uval(cx, a_, u1), uval(cx, b_, u2), uval(cx, c_, u1)])
            oracle = PA.points('t', [a_, b_ * factor, c_])
        else:
            sw = cirq.Points('t', [uval(cx, b_, u2)])
            oracle = PA.points('t', [b_ * factor])
        msg = wire(cx, SW.sweep_to_proto(sw, use_float64=f64))
        ss = msg.single_sweep
        # run_context.proto: Linspace.unit / Points.unit hold the unit of the numbers; ConstValue.with_unit_value the quantity
        if form == 'linspace':
            k.cond(ss.WhichOneof('sweep') == 'linspace' and ss.linspace.HasField('unit') and tunits.Value.from_proto(ss.linspace.unit) == U1, 'Linspace.unit is the unit of the start value')
        elif form == 'points':
            k.cond(ss.WhichOneof('sweep') == 'points' and ss.points.HasField('unit') and tunits.Value.from_proto(ss.points.unit) == U1, 'Points.unit is the unit of the first point')
        else:
            k.cond(ss.WhichOneof('sweep') == 'const_value' and ss.const_value.WhichOneof('value') == 'with_unit_value', 'const sweep with_unit_value')
        back = SW.sweep_from_proto(msg)
        rows = rows_of(back)
        if k.cond(len(rows) == len(oracle[1]), f'{len(rows)} points'):
            for i, (g, e) in enumerate(zip(rows, oracle[1])):
                (gk, gv), (_, ev) = g[0], e[0]
                k.cond(gk == 't', 'key')
                # same quantity: expressed in the first unit it has the expected magnitude (a value without a unit,
                # or in a unit of another dimension, raises here)
                k.num(gv[U1], ev, f'point[{i}] in {u1}')
        k.finish(f'sweep with units {form}', wrong)

    obs.append(
        Obligation(
            'msgs.sweep.units',
            body_units,
            twin=lambda cx: body_units(cx, wrong=True),
            points=[{'choose:use_float64': i % 2, 'choose:form': i % 3, 'choose:units': i % len(UNIT_MENU), 'choose:length': i % LMAX, 'a': 0.5 * i - 2, 'b': 1.25 - 0.25 * i, 'c': 0.1 * i} for i in range(12)],
            opts={'weight': 4},
            desc=f'Linspace / Points / single-point sweeps whose values are QUANTITIES with units (magnitudes SYMBOLIC, start and stop in different units of one dimension from {[(a, b) for a, b, _ in UNIT_MENU]}): unit sub-message names the unit of the stored numbers, and every point of the deserialized sweep is the same physical quantity as the documented point of the original (converted with SI factors written in the harness); float32 and use_float64. tunits.Value is modelled (symbolic magnitude x real unit) in symbolic mode and real in concrete mode',
        )
    )

    # ---- run contexts ----------------------------------------------------------------------------------------
    RC_FORMS = ['none', 'sweep', 'two_sweeps', 'dict', 'resolver', 'list_of_dicts', 'empty_resolver']

    def body_run_context(cx, wrong=False):
        f64 = cx.choose('use_float64', 2) == 1
        form = RC_FORMS[cx.choose('form', len(RC_FORMS))]
        entry = cx.choose('entry', 2)  # 0: run_context_to_proto, 1: sweepable_to_proto
        x, y = cx.real('x', -BOX, BOX), cx.real('y', -BOX, BOX)
        n = cx.int('n', -(1 << 62), 1 << 62)
        reps = cx.int('reps', 0, (1 << 31) - 1)
        reps2 = cx.int('reps2', 0, (1 << 31) - 1)
        lin, lin_o = cirq.Linspace('a', x, y, 3), PA.linspace('a', x, y, 3)
        pts, pts_o = cirq.Points('b', [y, x]), PA.points('b', [y, x])
        d = {'a': x, 'k': n, 's': 'str', 'z': None} if entry == 1 else {'a': x, 'k': n}
        d_o = ([kk for kk in d], [tuple((kk, vv) for kk, vv in d.items())])
        if form == 'none':
            sweepable, oracles = None, [PA.unit()]
        elif form == 'sweep':
            sweepable, oracles = cirq.Zip(lin, pts), [PA.zip_(lin_o, pts_o)]
        elif form == 'two_sweeps':
            sweepable, oracles = [lin, cirq.Product(pts, lin)], [lin_o, PA.product(pts_o, lin_o)]
        elif form == 'dict':
            sweepable, oracles = d, [d_o]
        elif form == 'resolver':
            sweepable, oracles = cirq.ParamResolver({'a': x, 'b': y}), [(['a', 'b'], [(('a', x), ('b', y))])]
        elif form == 'empty_resolver':
            sweepable, oracles = cirq.ParamResolver({}), [PA.unit()]
        else:
            sweepable, oracles = [{'a': x}, {'a': y, 'b': x}], [(['a'], [(('a', x),)]), (['a', 'b'], [(('a', y), ('b', x))])]
        per_sweep_reps = entry == 0 and cx.choose('repetitions_form', 2) == 1
        if entry == 0:
            rep_arg = [reps, reps2][: len(oracles)] if per_sweep_reps else reps
            if per_sweep_reps and len(oracles) == 1:
                rep_arg = [reps]
            msg = SW.run_context_to_proto(sweepable, rep_arg, use_float64=f64)
        else:
            msg = SW.sweepable_to_proto(sweepable, reps, out=run_context_pb2.RunContext(), use_float64=f64)
        msg = wire(cx, msg)
        k = Cmp(cx, TOL)
        if k.cond(len(msg.parameter_sweeps) == len(oracles), f'{form}: {len(msg.parameter_sweeps)} parameter sweeps instead of {len(oracles)}'):
            for i, (ps, orc) in enumerate(zip(msg.parameter_sweeps, oracles)):
                want = (reps2 if i == 1 else reps) if per_sweep_reps else reps
                k.cond(ps.repetitions == (want + 1 if wrong else want), f'{form}: repetitions of sweep {i}')
                back = SW.sweep_from_proto(ps.sweep)
                cmp_rows(k, rows_of(back), orc, f'{form}.sweep{i}')
        k.finish(f'run context {form}')

    obs.append(
        Obligation(
            'msgs.run_context',
            body_run_context,
            twin=lambda cx: body_run_context(cx, wrong=True),
            points=[{'choose:use_float64': i % 2, 'choose:form': i % len(RC_FORMS), 'choose:entry': (i // 2) % 2, 'choose:repetitions_form': (i // 3) % 2, 'x': 0.3 * i - 2, 'y': 1.5 - 0.1 * i, 'n': 10**i, 'reps': 1000 + i, 'reps2': 7 * i} for i in range(14)],
            opts={'weight': 4},
            desc=f'run_context_to_proto and sweepable_to_proto on sweepables {RC_FORMS} with SYMBOLIC reals, a SYMBOLIC int64 constant and SYMBOLIC repetition counts (one count or one per sweep): number of ParameterSweep entries, their repetitions, and each entry deserializes to a sweep with the assignments of the original (constants of dict sweepables: float32/double, int64, string, None)',
        )
    )

    # ---- api.v1 params -------------------------------------------------------------------------------------------
    V1_FORMS = ['unit', 'linspace', 'points', 'zip', 'product', 'product_of_zips']

    def body_v1(cx, wrong=False):
        form = V1_FORMS[cx.choose('form', len(V1_FORMS))]
        v = [cx.real(f'v{i}', -BOX, BOX) for i in range(4)]
        reps = cx.int('reps', 0, (1 << 31) - 1)
        length = cx.int('length', 1, LMAX)
        lin = lambda key, L: (cirq.Linspace(key, v[0], v[1], L), lambda Lc: PA.linspace(key, v[0], v[1], Lc))
        if form == 'unit':
            sw, orc = cirq.UnitSweep, lambda Lc: PA.unit()
        elif form == 'linspace':
            s0, o0 = lin('a', length)
            sw, orc = s0, o0
        elif form == 'points':
            sw, orc = cirq.Points('a', [v[0], v[1], v[2]]), lambda Lc: PA.points('a', [v[0], v[1], v[2]])
        elif form == 'zip':
            sw, orc = cirq.Zip(cirq.Points('a', [v[0], v[1]]), cirq.Points('b', [v[2], v[3]])), lambda Lc: PA.zip_(PA.points('a', [v[0], v[1]]), PA.points('b', [v[2], v[3]]))
        elif form == 'product':
            s0, o0 = lin('a', length)
            sw, orc = cirq.Product(s0, cirq.Points('b', [v[2], v[3]])), lambda Lc: PA.product(o0(Lc), PA.points('b', [v[2], v[3]]))
        else:
            sw = cirq.Product(cirq.Zip(cirq.Points('a', [v[0], v[1]]), cirq.Points('b', [v[2], v[3]])), cirq.Zip(cirq.Points('c', [v[3], v[0]])))
            orc = lambda Lc: PA.product(PA.zip_(PA.points('a', [v[0], v[1]]), PA.points('b', [v[2], v[3]])), PA.zip_(PA.points('c', [v[3], v[0]])))
        msg = wire(cx, P1.sweep_to_proto(sw, reps))
        k = Cmp(cx, TOL)
        k.cond(msg.repetitions == (reps + 1 if wrong else reps), 'v1 repetitions')
        back = P1.sweep_from_proto(msg)
        rows = rows_of(back)
        if form in ('linspace', 'product'):
            Lc = len(rows) if form == 'linspace' else len(rows) // 2
            k.cond(Lc == length, 'v1 linspace length')
        else:
            Lc = None
        cmp_rows(k, rows, orc(Lc), f'v1 {form}')
        k.finish(f'v1 sweep {form}')

    obs.append(
        Obligation(
            'msgs.v1.params',
            body_v1,
            twin=lambda cx: body_v1(cx, wrong=True),
            points=[{'choose:form': i % len(V1_FORMS), 'v0': 0.5 * i - 1, 'v1': 1.25, 'v2': -0.1 * i, 'v3': 3.0, 'reps': 10 * i, 'length': 1 + i % LMAX} for i in range(2 * len(V1_FORMS))],
            opts={'weight': 2},
            desc=f'api.v1 params.sweep_to_proto / sweep_from_proto on {V1_FORMS} (SYMBOLIC reals through float32, SYMBOLIC repetitions, SYMBOLIC Linspace length 1..{LMAX}): repetitions field and the assignments of the deserialized sweep equal those of the original',
        )
    )

    # ==================================================================================================
    # 3. CircuitSerializer
    # ==================================================================================================
    from cirq_google.experimental.ops import CouplerPulse
    from cirq_google.ops.calibration_tag import CalibrationTag
    from cirq_google.ops.dynamical_decoupling_tag import DynamicalDecouplingTag

    SER = cg.CircuitSerializer()

    QUBIT_KINDS = ['grid', 'line', 'named']

    def qubits_of(kind, n):
        if kind == 'grid':
            return [cirq.GridQubit(2, 3), cirq.GridQubit(2, 4), cirq.GridQubit(3, 3)][:n]
        if kind == 'line':
            return [cirq.LineQubit(5), cirq.LineQubit(6), cirq.LineQubit(0)][:n]
        return [cirq.NamedQubit('alice'), cirq.NamedQubit('bob'), cirq.NamedQubit('q_7')][:n]

    def roundtrip(cx, circuit):
        if cx.mode == 'concrete':
            msg = SER.serialize(circuit)
        else:
            # probabilities are validated against [0, 1] by the constructors: rounding is monotone at 0 and 1
            with pbsym.monotone_at(0.0, 1.0):
                msg = SER.serialize(circuit)
        cx.check(msg.language.gate_set == 'v2_5' and msg.WhichOneof('program') == 'circuit', 'Program header')
        return SER.deserialize(wire(cx, msg))

    # gate vocabulary: name -> (number of qubits, [(param, lo, hi)], builder(params dict, variant) -> gate, number of variants)
    def vocab():
        V = {}
        for nm, G in (('X', cirq.XPowGate), ('Y', cirq.YPowGate), ('Z', cirq.ZPowGate), ('H', cirq.HPowGate)):
            V[nm + 'Pow'] = (1, [('x', -BOX, BOX)], (lambda p, v, G=G: G(exponent=p['x'], global_shift=[0.0, -0.5][v])), 2)
        V['CZPow'] = (2, [('x', -BOX, BOX)], (lambda p, v: cirq.CZPowGate(exponent=p['x'], global_shift=[0.0, -0.5][v])), 2)
        V['ISwapPow'] = (2, [('x', -BOX, BOX)], (lambda p, v: cirq.ISwapPowGate(exponent=p['x'])), 1)
        V['PhasedXPow'] = (1, [('x', -BOX, BOX), ('y', -BOX, BOX)], (lambda p, v: cirq.PhasedXPowGate(exponent=p['x'], phase_exponent=p['y'])), 1)
        def pxz(p, v):
            # two of the three exponents symbolic per variant (the gate's canonicalisation branches on all of them)
            f = [p['x'], p['y']]
            f.insert(v, [0.25, -0.5, 1.0][v])
            return cirq.PhasedXZGate(x_exponent=f[0], z_exponent=f[1], axis_phase_exponent=f[2])

        V['PhasedXZ'] = (1, [('x', -BOX, BOX), ('y', -BOX, BOX)], pxz, 3)
        V['FSim'] = (2, [('x', -BOX, BOX), ('y', -BOX, BOX)], (lambda p, v: cirq.FSimGate(theta=p['x'], phi=p['y'])), 1)
        V['Wait'] = (1, [('x', 0.0, BOX)], (lambda p, v: cirq.WaitGate(cirq.Duration(nanos=p['x']), num_qubits=1 + v)), 2)
        V['Depolarize'] = (1, [('x', 0.0, 1.0)], (lambda p, v: cirq.DepolarizingChannel(p['x'], n_qubits=1 + v)), 2)
        V['RandomGate'] = (1, [('x', 0.0, 1.0), ('y', -BOX, BOX)], (lambda p, v: cirq.RandomGateChannel(sub_gate=[cirq.XPowGate, cirq.ZPowGate][v](exponent=p['y']), probability=p['x'])), 2)
        def coupler(p, v):
            # two of the six fields are symbolic per variant (each symbolic float32 argument triples the paths)
            f = {'hold_time': 10.0, 'rise_time': 2.5, 'padding_time': 0.0, 'coupling_mhz': 20.0, 'q0_detune_mhz': -3.5, 'q1_detune_mhz': 0.0}
            a, b = [('hold_time', 'coupling_mhz'), ('rise_time', 'q0_detune_mhz'), ('padding_time', 'q1_detune_mhz')][v]
            f[a], f[b] = p['x'], p['y']
            return CouplerPulse(hold_time=cirq.Duration(picos=f['hold_time']), rise_time=cirq.Duration(picos=f['rise_time']), padding_time=cirq.Duration(picos=f['padding_time']), coupling_mhz=f['coupling_mhz'], q0_detune_mhz=f['q0_detune_mhz'], q1_detune_mhz=f['q1_detune_mhz'])

        V['CouplerPulse'] = (2, [('x', 0.0, BOX), ('y', -BOX, BOX)], coupler, 3)
        V['Internal'] = (1, [('x', -BOX, BOX)], (lambda p, v: cg.InternalGate('IG', ['a.b', ''][v % 2], 1 + v // 2, theta=p['x'], label='L', n=3)), 4)
        return V

    VOCAB = vocab()
    FIXED_QUBIT_KIND = {'PhasedXZ', 'CouplerPulse'}  # qubit kind follows the variant instead of being a separate selector
    NQ = {'Wait': lambda v: 1 + v, 'Depolarize': lambda v: 1 + v, 'Internal': lambda v: 1 + v // 2}

    def mk_single(name):
        nq0, params, build, nvar = VOCAB[name]

        def body(cx, wrong=False):
            v = cx.choose('variant', nvar)
            qk = QUBIT_KINDS[v % 3] if name in FIXED_QUBIT_KIND else QUBIT_KINDS[cx.choose('qubits', len(QUBIT_KINDS))]
            p = {n: cx.real(n, lo, hi) for n, lo, hi in params}
            gate = build(p, v)
            nq = NQ[name](v) if name in NQ else nq0
            c = cirq.Circuit(gate.on(*qubits_of(qk, nq)))
            back = roundtrip(cx, c)
            k = Cmp(cx, TOL, strict_exponents=True)  # one operation: nothing is merged, the exponent itself must come back
            k.circuit(back, c, name)
            k.finish(name, wrong)

        pts = []
        for i, vals in enumerate(((0.25, -0.5, 1.0, 0.3, -0.2, 0.7), (1.0, 2.0, -1.0, 0.0, 1.5, -3.0), (0.1, 0.7, 3.3, -1.1, 2.2, 0.01), (0.5, 0.0, 0.0, 4.0, -4.0, 1.0), (0.999, 1.0, 0.125, 0.5, 0.5, 0.5), (0.0, 0.5, 0.0, 0.0, 0.0, 0.0), (1.0, -0.5, 1.0, 1.0, 1.0, 1.0))):
            env = {'choose:variant': i % nvar, 'choose:qubits': i % 3}
            for (n, lo, hi), val in zip(params, vals):
                env[n] = min(max(val, lo), hi)
            pts.append(env)
        return Obligation(
            f'msgs.circuit.gate[{name}]',
            body,
            twin=lambda cx: body(cx, wrong=True),
            points=pts,
            opts={'weight': 2 + len(params)},
            desc=f'CircuitSerializer.serialize / deserialize of a one-operation circuit with gate {name} ({nvar} variants), parameters {[(n, lo, hi) for n, lo, hi in params]} SYMBOLIC, on grid / line / named qubits: same moment structure, gate family, qubits, and parameters within the single-precision margin',
        )

    if not quick:
        VOCAB['PhasedXZ.all_symbolic'] = (1, [('x', -BOX, BOX), ('y', -BOX, BOX), ('z', -BOX, BOX)], (lambda p, v: cirq.PhasedXZGate(x_exponent=p['x'], z_exponent=p['y'], axis_phase_exponent=p['z'])), 1)
        FIXED_QUBIT_KIND.add('PhasedXZ.all_symbolic')
    for name in VOCAB:
        obs.append(mk_single(name))

    # ---- gates without real parameters + measurement (bounded exploration: only finite selectors) --------------
    def plain_ops(qs):
        q0, q1 = qs[0], qs[1]
        return [
            ('I', cirq.I(q0)),
            ('I2', cirq.IdentityGate(2)(q0, q1)),
            ('Reset', cirq.ResetChannel()(q0)),
            ('SYC', cg.SYC(q0, q1)),
            ('WILLOW', cg.WILLOW(q0, q1)),
            ('MLReset', cg.MultilevelResetViaResonator()(q0)),
            ('LZSReset', cg.LZSResetViaResonator()(q0)),
            ('Leakage+', cg.LeakageISWAP(phase_matched=True)(q0, q1)),
            ('Leakage-', cg.LeakageISWAP(phase_matched=False)(q0, q1)),
            ('Clifford.H', cirq.SingleQubitCliffordGate.H(q0)),
            ('Clifford.X_sqrt', cirq.SingleQubitCliffordGate.X_sqrt(q0)),
            ('Clifford.Y_nsqrt', cirq.SingleQubitCliffordGate.Y_nsqrt(q0)),
            ('M1', cirq.measure(q0, key='m')),
            ('M2inv', cirq.measure(q0, q1, key='result_key', invert_mask=(False, True))),
            ('M2short', cirq.measure(q0, q1, key='k', invert_mask=(True,))),
            ('X', cirq.X(q0)),
            ('CZ', cirq.CZ(q0, q1)),
            ('FSimModel', cirq.FSimGate(0.5, 0.25)(q0, q1).with_tags(cg.FSimViaModelTag())),
            ('FSimTwoPulse', cirq.FSimGate(0.5, 0.25)(q0, q1).with_tags(cg.TwoPulseFSimTag())),
        ]

    N_PLAIN = len(plain_ops(qubits_of('grid', 2)))

    def body_plain(cx, wrong=False):
        qk = QUBIT_KINDS[cx.choose('qubits', len(QUBIT_KINDS))]
        i = cx.choose('op', N_PLAIN)
        name, op = plain_ops(qubits_of(qk, 2))[i]
        c = cirq.Circuit(op)
        back = roundtrip(cx, c)
        k = Cmp(cx, TOL)
        k.circuit(back, c, name)
        if wrong:
            k.cond(len(back) == 2, 'twin')
        k.finish(name)
        cx.check(back == c, f'{name}: cirq equality of the parameter-free circuit')

    obs.append(
        Obligation(
            'msgs.circuit.plain_gates',
            body_plain,
            twin=lambda cx: body_plain(cx, wrong=True),
            points=[{'choose:qubits': i % 3, 'choose:op': i} for i in range(N_PLAIN)],
            desc=f'solver-driven BOUNDED exploration (finite selectors only): one-operation circuits over the parameter-free vocabulary {[n for n, _ in plain_ops(qubits_of("grid", 2))]} on three qubit kinds round-trip to an equal circuit (field-wise and by cirq equality)',
        )
    )

    # ---- symbol-valued gate arguments --------------------------------------------------------------------------
    SYM_GATES = [
        ('X**e', 1, lambda e1, e2: cirq.XPowGate(exponent=e1)),
        ('Z**e', 1, lambda e1, e2: cirq.ZPowGate(exponent=e1)),
        ('PhasedXPow(e1,e2)', 1, lambda e1, e2: cirq.PhasedXPowGate(exponent=e1, phase_exponent=e2)),
        ('PhasedXZ(e1,e2,a)', 1, lambda e1, e2: cirq.PhasedXZGate(x_exponent=e1, z_exponent=e2, axis_phase_exponent=a)),
        ('FSim(e1,e2)', 2, lambda e1, e2: cirq.FSimGate(theta=e1, phi=e2)),
        ('CZ**e', 2, lambda e1, e2: cirq.CZPowGate(exponent=e1)),
        ('ISWAP**e', 2, lambda e1, e2: cirq.ISwapPowGate(exponent=e1)),
        ('H**e', 1, lambda e1, e2: cirq.HPowGate(exponent=e1)),
    ]
    SYM_EXPRS = [e for n, e in EXPRS if n in ('a', 'a+b', '2*a', '0.5*a+0.25', '0.1*a+1/3', 'a*b*c+a', 'a**2', '-a', 'a-b')]

    def body_symbols(cx, wrong=False):
        gname, nq, build = SYM_GATES[cx.choose('gate', len(SYM_GATES))]
        i1 = cx.choose('e1', len(SYM_EXPRS))
        e1 = SYM_EXPRS[i1]
        e2 = SYM_EXPRS[(2 * i1 + 1) % len(SYM_EXPRS)]
        c = cirq.Circuit(build(e1, e2).on(*qubits_of('grid', nq)))
        back = roundtrip(cx, c)
        k = Cmp(cx, TOL, expr_tol=1e-5)
        k.circuit(back, c, gname)
        if wrong:
            k.exprs.append((k.symval('a'), k.symval('a') + 0.01, 'twin'))
        k.finish(gname)

    obs.append(
        Obligation(
            'msgs.circuit.symbolic_args',
            body_symbols,
            twin=lambda cx: body_symbols(cx, wrong=True),
            points=[{'choose:gate': i % len(SYM_GATES), 'choose:e1': i % len(SYM_EXPRS), 'sym_a': 0.3, 'sym_b': -0.8, 'sym_c': 1.1} for i in range(len(SYM_GATES) * 2)],
            opts={'weight': 3},
            desc=f'gates {[g for g, _, _ in SYM_GATES]} whose arguments are sympy formulas from {[str(e) for e in SYM_EXPRS]}: the deserialized gate has the same family and arguments that are the same FUNCTION of the symbols (both formulas evaluated at SYMBOLIC values of a, b, c)',
        )
    )

    # ---- tags -----------------------------------------------------------------------------------------------------
    def tag_menu(cx, y, n):
        q0, q1 = qubits_of('grid', 2)
        x = cx.real('x', -BOX, BOX)
        itag = cg.InternalTag('CustomTag', 'internal.pkg', amp=y, count=n, mode='fast', on=True)
        return [
            ('calibration', cirq.Circuit((cirq.X(q0) ** x).with_tags(CalibrationTag('token_7')))),
            ('physical_z', cirq.Circuit((cirq.Z(q0) ** x).with_tags(cg.PhysicalZTag()))),
            ('z_calibration_only', cirq.Circuit((cirq.Z(q0) ** x).with_tags(CalibrationTag('zc')), cirq.Z(q1) ** x)),
            ('physical_z+calibration', cirq.Circuit((cirq.Z(q0) ** x).with_tags(cg.PhysicalZTag(), CalibrationTag('t2')))),
            ('internal_tag', cirq.Circuit((cirq.X(q0) ** x).with_tags(itag))),
            ('dynamical_decoupling', cirq.Circuit(cirq.I(q0).with_tags(DynamicalDecouplingTag('X')), (cirq.Y(q1) ** x).with_tags(DynamicalDecouplingTag('XY4')))),
            ('compress_duration', cirq.Circuit((cirq.X(q0) ** x).with_tags(cg.CompressDurationTag()))),
            ('raw_values', cirq.Circuit((cirq.X(q0) ** x).with_tags('note', 7, y))),
            ('fsim_model+calibration', cirq.Circuit(cirq.FSimGate(x, 0.5)(q0, q1).with_tags(cg.FSimViaModelTag(), CalibrationTag('c')))),
            ('two_pulse_fsim', cirq.Circuit(cirq.FSimGate(0.25, x)(q0, q1).with_tags(cg.TwoPulseFSimTag()))),
            ('three_tags', cirq.Circuit((cirq.Y(q0) ** x).with_tags(CalibrationTag('a'), itag, 'z'))),
            ('moment_tags', cirq.Circuit(cirq.Moment([cirq.X(q0) ** x, cirq.Z(q1)], tags=('mtag', itag)))),
            ('circuit_tags', cirq.Circuit([cirq.X(q0) ** x, cirq.CZ(q0, q1)], tags=[CalibrationTag('whole'), 'ctag'])),
            ('same_tag_twice', cirq.Circuit((cirq.X(q0) ** x).with_tags(itag), (cirq.Y(q1) ** 0.5).with_tags(itag), (cirq.X(q0) ** 0.25).with_tags(CalibrationTag('k'), itag))),
        ]

    N_TAGS = 14

    def body_tags(cx, wrong=False):
        y = cx.real('y', -BOX, BOX)
        n = sym_int(cx, 'n', -F32_INT, F32_INT)
        menu = tag_menu(cx, y, n)
        assert len(menu) == N_TAGS
        name, c = menu[cx.choose('tags', N_TAGS)]
        back = roundtrip(cx, c)
        k = Cmp(cx, TOL)
        k.circuit(back, c, name)
        k.finish(f'tags {name}', wrong)

    obs.append(
        Obligation(
            'msgs.circuit.tags',
            body_tags,
            twin=lambda cx: body_tags(cx, wrong=True),
            points=[{'choose:tags': i, 'x': 0.3 * i - 2, 'y': 0.1 + 0.25 * i, 'n': 3 - 1000 * i} for i in range(N_TAGS)],
            opts={'weight': 4},
            desc='tags on ordinary operations, moments and circuits (CalibrationTag, PhysicalZTag, FSimViaModelTag / TwoPulseFSimTag, CompressDurationTag, DynamicalDecouplingTag, InternalTag with a SYMBOLIC real, a SYMBOLIC integer, string and bool arguments, raw string / int / SYMBOLIC real tags, the same tag object on several operations): same tags in the same order on the same operations, gate parameters SYMBOLIC',
        )
    )

    # ---- classical controls ------------------------------------------------------------------------------------------
    CTRL = ['key', 'key_path', 'bitmask', 'bitmask_nomask', 'sympy', 'key+bitmask', 'two_keys', 'key+sympy', 'three']

    def body_controls(cx, wrong=False):
        q0, q1, q2 = qubits_of('grid', 3)
        kind = CTRL[cx.choose('controls', len(CTRL))]
        x = cx.real('x', -BOX, BOX)
        i1 = sym_int(cx, 'i1', -(1 << 31), (1 << 31) - 1)
        i2 = sym_int(cx, 'i2', -(1 << 31), (1 << 31) - 1)
        t = sym_int(cx, 'target', 0, F32_INT)
        m = sym_int(cx, 'bitmask', 0, F32_INT)
        km, kb = cirq.MeasurementKey('m'), cirq.MeasurementKey('b')
        K1 = cirq.KeyCondition(km, index=i1)
        K2 = cirq.KeyCondition(kb, index=i2)
        KP = cirq.KeyCondition(cirq.MeasurementKey('m', path=('outer', '0')), index=i1)
        B = cirq.BitMaskKeyCondition(km, index=i2, target_value=t, equal_target=True, bitmask=m)
        BN = cirq.BitMaskKeyCondition(kb, index=i1, target_value=t, equal_target=False, bitmask=None)
        S = cirq.SympyCondition(sympy.Symbol('m') > sympy.Symbol('b'))
        conds = {'key': [K1], 'key_path': [KP], 'bitmask': [B], 'bitmask_nomask': [BN], 'sympy': [S], 'key+bitmask': [K1, B], 'two_keys': [K1, K2], 'key+sympy': [K2, S], 'three': [K1, BN, S]}[kind]
        op = (cirq.X(q2) ** x).with_classical_controls(*conds)
        c = cirq.Circuit(cirq.measure(q0, key='m'), cirq.measure(q1, key='b'), op)
        back = roundtrip(cx, c)
        k = Cmp(cx, TOL)
        k.circuit(back, c, kind)
        k.finish(f'classical control {kind}', wrong)

    obs.append(
        Obligation(
            'msgs.circuit.classical_control',
            body_controls,
            twin=lambda cx: body_controls(cx, wrong=True),
            points=[{'choose:controls': i % len(CTRL), 'x': 0.4 * i - 1.5, 'i1': [-1, 0, 2, -3][i % 4], 'i2': [0, -1, -2, 5][i % 4], 'target': i, 'bitmask': 3 * i} for i in range(len(CTRL))],
            opts={'weight': 4},
            desc=f'classically controlled operations ({CTRL}): KeyCondition with SYMBOLIC int32 index (also on a key with a path), BitMaskKeyCondition with SYMBOLIC index / target / bitmask, SympyCondition, one to three controls; the controls are compared as a SET, field by field; gate exponent SYMBOLIC',
        )
    )

    # ---- CircuitOperation ----------------------------------------------------------------------------------------------
    COP = ['plain', 'qubit_map', 'key_map', 'params_number', 'params_symbol', 'rep_ids', 'no_rep_ids', 'repeat_until', 'controlled', 'nested', 'two_ops_one_circuit']

    def body_circuit_op(cx, kind, wrong=False):
        q0, q1, q2 = qubits_of('grid', 3)
        x = cx.real('x', -BOX, BOX)
        y = cx.real('y', -BOX, BOX)
        unitary_sub = cirq.FrozenCircuit(cirq.X(q0) ** x, cirq.CZ(q0, q1) ** a)
        measured_sub = cirq.FrozenCircuit(cirq.X(q0) ** x, cirq.measure(q0, key='k'))
        if kind in ('plain', 'qubit_map', 'params_number', 'params_symbol', 'nested', 'two_ops_one_circuit'):
            reps = sym_int(cx, 'reps', -3, 3)
        elif kind == 'controlled':
            reps = sym_int(cx, 'reps', -3, 3)
        elif kind in ('key_map', 'no_rep_ids'):
            reps = sym_int(cx, 'reps', 0, 3)
        else:
            reps = None
        pre = []
        if kind == 'plain':
            op = cirq.CircuitOperation(unitary_sub, repetitions=reps)
        elif kind == 'qubit_map':
            op = cirq.CircuitOperation(unitary_sub, repetitions=reps, qubit_map={q0: q2, q1: q0})
        elif kind == 'key_map':
            op = cirq.CircuitOperation(measured_sub, repetitions=reps, measurement_key_map={'k': 'outer_k'}, use_repetition_ids=False)
        elif kind == 'params_number':
            op = cirq.CircuitOperation(unitary_sub, repetitions=reps, param_resolver={'a': 0.5, b: 0.1})
        elif kind == 'params_symbol':
            op = cirq.CircuitOperation(unitary_sub, repetitions=reps, param_resolver={a: b, 'c': sympy.Symbol('d')})
        elif kind == 'rep_ids':
            nrep = 1 + cx.choose('n_ids', 3)
            op = cirq.CircuitOperation(measured_sub, repetitions=nrep, repetition_ids=[f'r{i}' for i in range(nrep)], use_repetition_ids=True)
        elif kind == 'no_rep_ids':
            op = cirq.CircuitOperation(measured_sub, repetitions=reps, use_repetition_ids=[True, False][cx.choose('use_ids', 2)])
        elif kind == 'repeat_until':
            i1 = sym_int(cx, 'i1', -(1 << 31), (1 << 31) - 1)
            op = cirq.CircuitOperation(measured_sub, use_repetition_ids=False, repeat_until=cirq.KeyCondition(cirq.MeasurementKey('k'), index=i1))
        elif kind == 'controlled':
            i1 = sym_int(cx, 'i1', -(1 << 31), (1 << 31) - 1)
            pre = [cirq.measure(q2, key='m')]
            op = cirq.CircuitOperation(unitary_sub, repetitions=reps, use_repetition_ids=False).with_classical_controls(cirq.KeyCondition(cirq.MeasurementKey('m'), index=i1))
        elif kind == 'nested':
            inner = cirq.CircuitOperation(unitary_sub, repetitions=reps, qubit_map={q0: q1, q1: q0})
            op = cirq.CircuitOperation(cirq.FrozenCircuit(inner, cirq.Y(q2) ** y), repetitions=2, param_resolver={'a': 0.25})
        else:
            op = None
        if kind == 'two_ops_one_circuit':
            # the same sub-circuit constant referenced by two operations with different mappings
            c = cirq.Circuit(cirq.CircuitOperation(unitary_sub, repetitions=reps), cirq.CircuitOperation(unitary_sub, repetitions=2, qubit_map={q0: q2}), cirq.Y(q2) ** y)
        else:
            c = cirq.Circuit(pre + [op, cirq.Y(q2) ** y] if kind not in ('qubit_map', 'nested') else [op])
        back = roundtrip(cx, c)
        k = Cmp(cx, TOL)
        k.circuit(back, c, kind)
        k.finish(f'CircuitOperation {kind}', wrong)

    for ki, kind in enumerate(COP):
        obs.append(
            Obligation(
                f'msgs.circuit.circuit_op[{kind}]',
                (lambda cx, kind=kind: body_circuit_op(cx, kind)),
                twin=(lambda cx, kind=kind: body_circuit_op(cx, kind, wrong=True)),
                points=[{'x': 0.3 * i - 1.2 + 0.1 * ki, 'y': 2.5 - 0.4 * i, 'reps': [2, 0, 1, 3][i % 4], 'i1': [-1, 0, -2, 3][i % 4], 'choose:n_ids': i % 3, 'choose:use_ids': i % 2, 'sym_a': 0.4, 'sym_b': 0.6} for i in range(4)],
                opts={'weight': 4},
                desc=f'CircuitOperation form {kind} (of {COP}): repetitions SYMBOLIC in [-3,3] (unitary body) / [0,3] (measuring body), qubit / measurement-key / parameter maps (numbers and symbols), explicit repetition ids, use_repetition_ids, repeat_until and classical control with SYMBOLIC index, nesting, one sub-circuit constant shared by two operations; sub-circuit compared recursively with SYMBOLIC exponents',
            )
        )

    # ---- shared constants -------------------------------------------------------------------------------------------------
    SHARE = ['same_qubit_3', 'two_qubits', 'tag_vs_no_tag', 'moments_repeat', 'near_equal_gates', 'phased_pair', 'mixed_families', 'fsim_pair']

    def body_sharing(cx, kind, wrong=False):
        q0, q1, q2 = qubits_of(QUBIT_KINDS[cx.choose('qubits', 1 if quick else 2)], 3)
        x1, x2, x3 = cx.real('x1', -BOX, BOX), cx.real('x2', -BOX, BOX), cx.real('x3', -BOX, BOX)
        if kind == 'same_qubit_3':
            c = cirq.Circuit(cirq.X(q0) ** x1, cirq.X(q0) ** x2, cirq.X(q0) ** x3)
        elif kind == 'two_qubits':
            c = cirq.Circuit(cirq.Moment(cirq.X(q0) ** x1, cirq.X(q1) ** x2), cirq.Moment(cirq.X(q1) ** x1, cirq.X(q0) ** x3))
        elif kind == 'tag_vs_no_tag':
            # tagged before untagged and untagged before tagged, with exponents that may coincide
            c = cirq.Circuit((cirq.Z(q0) ** x1).with_tags(cg.PhysicalZTag()), cirq.Z(q0) ** x2, (cirq.Z(q0) ** x3).with_tags(CalibrationTag('t')), cirq.Z(q0) ** x1)
        elif kind == 'moments_repeat':
            c = cirq.Circuit(cirq.Moment(cirq.X(q0) ** x1, cirq.Y(q1) ** x2), cirq.Moment(cirq.X(q0) ** x3, cirq.Y(q1) ** x2), cirq.Moment(cirq.X(q0) ** x1, cirq.Y(q1) ** x2))
        elif kind == 'near_equal_gates':
            # same exponent in different gate families / with a global shift / on another qubit: must stay different operations
            c = cirq.Circuit(cirq.X(q0) ** x1, cirq.Y(q0) ** x1, cirq.XPowGate(exponent=x1, global_shift=-0.5)(q0), cirq.X(q1) ** x1)
        elif kind == 'phased_pair':
            c = cirq.Circuit(cirq.PhasedXPowGate(exponent=x1, phase_exponent=x2)(q0), cirq.PhasedXPowGate(exponent=x2, phase_exponent=x1)(q0))
        elif kind == 'mixed_families':
            c = cirq.Circuit(cirq.CZ(q0, q1) ** x1, cirq.CZ(q1, q0) ** x1, cirq.ISWAP(q0, q1) ** x1, cirq.CZ(q1, q2) ** x3)
        else:
            c = cirq.Circuit(cirq.FSimGate(x1, x2)(q0, q1), cirq.FSimGate(x2, x1)(q0, q1))
        msg = SER.serialize(c)
        back = SER.deserialize(wire(cx, msg))
        k = Cmp(cx, TOL)
        k.circuit(back, c, kind)
        k.finish(f'sharing {kind}', wrong)

    for kind in SHARE:
        obs.append(
            Obligation(
                f'msgs.circuit.shared_constants[{kind}]',
                (lambda cx, kind=kind: body_sharing(cx, kind)),
                twin=(lambda cx, kind=kind: body_sharing(cx, kind, wrong=True)),
                points=[{'choose:qubits': (i % 2) if not quick else 0, 'x1': v1, 'x2': v2, 'x3': v3} for i, (v1, v2, v3) in enumerate(((0.5, 0.5, 0.5), (0.5, 0.25, 0.5), (1.0, 1.0, 2.0), (0.1, 0.1, 0.3), (0.5, 0.5000001, 0.5), (0.0, 0.0, 0.0), (-1.0, 1.0, -1.0), (2.0, 0.0, 2.0), (0.25, 0.25, 0.5)))],
                opts={'weight': 8, 'max_paths': 60000},
                desc=f'circuit layout {kind} (of {SHARE}): 3-6 operations with SYMBOLIC exponents x1, x2, x3 that may coincide (the solver explores x1=x2, x1=x3, ... also modulo the gate period, as the constant-table lookups compare operations): operations that are equal share one constant, operations that differ in exponent, gate family, qubit order, tags or global shift do not; every operation comes back at its own place with its own exponent (per-operation comparison with the original, exponents modulo the period of the gate)',
            )
        )

    # ---- multi-program and circuit-function forms ---------------------------------------------------------------------------
    def body_multi(cx, wrong=False):
        q0, q1, _ = qubits_of('grid', 3)
        form = cx.choose('form', 2)  # 0: sequence, 1: mapping
        x1, x2 = cx.real('x1', -BOX, BOX), cx.real('x2', -BOX, BOX)
        c1 = cirq.Circuit(cirq.X(q0) ** x1, cirq.CZ(q0, q1))
        c2 = cirq.Circuit(cirq.X(q0) ** x2, cirq.CZ(q0, q1), cirq.measure(q0, key='m'))
        c3 = cirq.FrozenCircuit(cirq.X(q0) ** x1)
        progs = [c1, c2, c3] if form == 0 else {'first': c1, 'second': c2, 'k3': c3}
        msg = wire(cx, SER.serialize_multi_program(progs))
        out = SER.deserialize_multi_program(msg)
        k = Cmp(cx, TOL)
        if k.cond(len(out) == 3, f'{len(out)} circuits'):
            for (key, args, circ), (wkey, wc) in zip(out, zip(['', '', ''] if form == 0 else ['first', 'second', 'k3'], [c1, c2, c3])):
                k.cond(key == wkey and tuple(args) == (), f'key {key!r} args {args!r}')
                k.circuit(circ, wc, f'program {wkey!r}')
        k.finish('multi program', wrong)

    obs.append(
        Obligation(
            'msgs.circuit.multi_program',
            body_multi,
            twin=lambda cx: body_multi(cx, wrong=True),
            points=[{'choose:form': i % 2, 'x1': v1, 'x2': v2} for i, (v1, v2) in enumerate(((0.5, 0.5), (0.25, 1.5), (0.0, 1.0), (-2.0, -2.0)))],
            opts={'weight': 3},
            desc='serialize_multi_program / deserialize_multi_program on a sequence and on a mapping of three circuits sharing constants (SYMBOLIC exponents that may coincide): keys, empty args and each circuit as the original',
        )
    )

    def body_function(cx, form, wrong=False):
        q0, q1, _ = qubits_of('grid', 3)
        v1, v2 = cx.real('v1', -BOX, BOX), cx.real('v2', -BOX, BOX)
        w, n = 0.5, 3  # the second parameter takes concrete values (a real and an int)

        def fn_circuit(theta):
            return cirq.Circuit(cirq.X(q0) ** theta, cirq.CZ(q0, q1))

        def fn_map(theta, other):
            return {'main': cirq.Circuit(cirq.X(q0) ** theta, cirq.CZ(q0, q1)), 'aux': cirq.Circuit(cirq.Y(q1) ** other, cirq.CZ(q0, q1))}

        def fn_kw(**kw):
            return cirq.Circuit(cirq.Z(q0) ** kw['theta'], cirq.Y(q1) ** kw['other'])

        if form == 1:
            # every returned key repeats the point's args (each float32 read forks): one sweep point for the mapping form
            sweep = cirq.Zip(cirq.Points('theta', [v1]), cirq.Points('other', [w]))
        else:
            sweep = cirq.Zip(cirq.Points('theta', [v1, v2]), cirq.Points('other', [w, n]))
        fn = [fn_circuit, fn_map, fn_kw][form]
        msg = wire(cx, SER.serialize_circuit_function(fn, sweep))
        out = SER.deserialize_multi_program(msg)
        # documented: the function is unrolled for each combination of sweep parameters; args hold the parameters
        want = []
        for theta, other in (((v1, w),) if form == 1 else ((v1, w), (v2, n))):
            if form == 0:
                want.append(('', theta, other, fn_circuit(theta)))
            elif form == 1:
                for key, circ in fn_map(theta, other).items():
                    want.append((key, theta, other, circ))
            else:
                want.append(('', theta, other, fn_kw(theta=theta, other=other)))
        k = Cmp(cx, TOL)
        if k.cond(len(out) == len(want), f'{len(out)} keyed circuits instead of {len(want)}'):
            for (key, args, circ), (wkey, theta, other, wc) in zip(out, want):
                k.cond(key == wkey, f'key {key!r} vs {wkey!r}')
                d = dict(args)
                if k.cond(sorted(d) == ['other', 'theta'], f'args {sorted(d)}'):
                    k.num(d['theta'], theta, 'arg theta')
                    k.num(d['other'], other, 'arg other')
                k.circuit(circ, wc, f'unrolled {wkey!r}')
        k.finish('circuit function', wrong)

    for form, fname in enumerate(['circuit', 'mapping', 'kwargs']):
        obs.append(
            Obligation(
                f'msgs.circuit.function[{fname}]',
                (lambda cx, form=form: body_function(cx, form)),
                twin=(lambda cx, form=form: body_function(cx, form, wrong=True)),
                points=[{'v1': 0.25 * i, 'v2': 1.0 - 0.5 * i} for i in range(5)],
                opts={'weight': 6},
                desc=f'serialize_circuit_function (function returning a {fname}) over a two-point sweep of two parameters (theta: SYMBOLIC reals, other: 0.5 and the int 3): one keyed circuit per sweep point and returned key, args = the point\'s parameters, circuit = the function\'s result with SYMBOLIC exponents',
            )
        )

    # ==================================================================================================
    # 4. device specifications
    # ==================================================================================================
    from cirq_google.api.v2 import device_pb2

    # what each GateSpecification kind stands for (device.proto / GridDevice documentation): representative operations
    def probes_for(qa, qb):
        return {
            'syc': [cg.SYC(qa, qb)],
            'sqrt_iswap': [cirq.SQRT_ISWAP(qa, qb)],
            'cz': [cirq.CZ(qa, qb)],
            'phased_xz': [cirq.X(qa) ** 0.3, cirq.PhasedXZGate(x_exponent=0.1, z_exponent=0.2, axis_phase_exponent=0.3)(qb), cirq.PhasedXPowGate(phase_exponent=0.2)(qa) ** 0.5],
            'virtual_zpow': [cirq.Z(qa) ** 0.3],
            'physical_zpow': [(cirq.Z(qb) ** 0.3).with_tags(cg.PhysicalZTag())],
            'meas': [cirq.measure(qa, qb, key='m'), cirq.measure(qb, key='k')],
            'wait': [cirq.wait(qa, nanos=5)],
        }

    GATE_KINDS = ['syc', 'sqrt_iswap', 'cz', 'phased_xz', 'virtual_zpow', 'physical_zpow', 'meas', 'wait']
    TWO_QUBIT_KINDS = {'syc', 'sqrt_iswap', 'cz'}
    GATE_SUBSETS = [
        ['syc', 'phased_xz', 'virtual_zpow', 'meas'],
        ['sqrt_iswap', 'cz', 'phased_xz', 'physical_zpow', 'meas', 'wait'],
        ['cz'],
        ['phased_xz', 'virtual_zpow', 'physical_zpow'],
        list(GATE_KINDS),
        [],
    ]
    # (valid qubits (row, col), valid pairs)
    LAYOUTS = [
        ([(0, 0), (0, 1), (1, 0), (1, 1)], [((0, 0), (0, 1)), ((0, 0), (1, 0)), ((1, 0), (1, 1))]),
        ([(3, 4), (3, 5), (4, 4)], [((3, 4), (3, 5))]),
        ([(2, 2), (2, 3), (7, 7)], []),
    ]

    def body_device(cx, wrong=False):
        qs, pairs = LAYOUTS[cx.choose('layout', len(LAYOUTS))]
        kinds = GATE_SUBSETS[cx.choose('gates', len(GATE_SUBSETS))]
        with_attrs = cx.choose('qubit_attributes', 2) == 1
        spec = device_pb2.DeviceSpecification()
        spec.valid_qubits.extend(f'{r}_{c}' for r, c in qs)
        ts = spec.valid_targets.add()
        ts.name = '2_qubit_targets'
        ts.target_ordering = device_pb2.TargetSet.SYMMETRIC
        for (r0, c0), (r1, c1) in pairs:
            ts.targets.add().ids.extend([f'{r0}_{c0}', f'{r1}_{c1}'])
        dur = {}
        for gk in kinds:
            gs = spec.valid_gates.add()
            getattr(gs, gk).SetInParent()
            dur[gk] = sym_int(cx, f'picos_{gk}', 0, 1 << 40)
            gs.gate_duration_picos = dur[gk]
        freq = cx.real('freq', -BOX, BOX)
        aidx = cx.int('attr_int', -(1 << 40), 1 << 40)
        if with_attrs:
            at = spec.qubit_attributes[f'{qs[0][0]}_{qs[0][1]}'].attributes
            at['freq'].double_value = freq
            at['index'].int_value = aidx
            at['good'].bool_value = True
            at['label'].string_value = 'edge'
        spec = wire(cx, spec)
        dev = cg.GridDevice.from_proto(spec)
        k = Cmp(cx, TOL)
        Q = {cirq.GridQubit(r, c) for r, c in qs}
        P = {frozenset((cirq.GridQubit(*a_), cirq.GridQubit(*b_))) for a_, b_ in pairs}
        # (1) metadata
        k.cond(set(dev.metadata.qubit_set) == Q, f'qubit_set {set(dev.metadata.qubit_set)}')
        k.cond(set(dev.metadata.qubit_pairs) == P, f'qubit_pairs {set(dev.metadata.qubit_pairs)}')
        gd = dev.metadata.gate_durations or {}
        for gk in kinds:
            for op in probes_for(cirq.GridQubit(*qs[0]), cirq.GridQubit(*qs[1]))[gk]:
                fams = [f for f in gd if op in f]
                if k.cond(len(fams) >= 1, f'no gate duration entry accepts {op!r}'):
                    for f in fams:
                        k.cond(gd[f].total_picos() == (dur[gk] + 1 if wrong else dur[gk]), f'duration of {gk}')
        # (2) the device validates exactly what the specification lists
        qv = [cirq.GridQubit(r, c) for r, c in qs]
        outside = cirq.GridQubit(9, 9)
        placements = []
        if pairs:
            (a_, b_) = pairs[0]
            placements.append((cirq.GridQubit(*a_), cirq.GridQubit(*b_), True, True))
            placements.append((cirq.GridQubit(*b_), cirq.GridQubit(*a_), True, True))  # SYMMETRIC: either order
        unl = [(x_, y_) for x_ in qv for y_ in qv if x_ != y_ and frozenset((x_, y_)) not in P]
        if unl:
            placements.append((unl[0][0], unl[0][1], True, False))
        placements.append((qv[0], outside, False, False))
        for qa, qb, both_valid, pair_listed in placements:
            for gk, ops_ in probes_for(qa, qb).items():
                for op in ops_:
                    on_valid = all(q in Q for q in op.qubits)
                    want = gk in kinds and on_valid and (pair_listed or gk not in TWO_QUBIT_KINDS)
                    try:
                        dev.validate_operation(op)
                        ok = True
                    except ValueError:
                        ok = False
                    k.cond(ok == want, f'validate_operation({op!r}) {"accepts" if ok else "rejects"}; specification lists gates {kinds}, qubits {qs}, pairs {pairs}')
        # (3) back to a specification
        spec2 = wire(cx, dev.to_proto())
        k.cond(sorted(spec2.valid_qubits) == sorted(f'{r}_{c}' for r, c in qs), f'to_proto valid_qubits {list(spec2.valid_qubits)}')
        got_pairs = {frozenset(t.ids) for tset in spec2.valid_targets if tset.target_ordering == device_pb2.TargetSet.SYMMETRIC for t in tset.targets if len(t.ids) == 2}
        k.cond(got_pairs == {frozenset((f'{a_[0]}_{a_[1]}', f'{b_[0]}_{b_[1]}')) for a_, b_ in pairs}, f'to_proto pairs {got_pairs}')
        k.cond(sorted(g.WhichOneof('gate') for g in spec2.valid_gates) == sorted(kinds), f'to_proto gates {[g.WhichOneof("gate") for g in spec2.valid_gates]}')
        for g in spec2.valid_gates:
            if g.WhichOneof('gate') in dur:
                k.cond(g.gate_duration_picos == dur[g.WhichOneof('gate')], f'to_proto duration of {g.WhichOneof("gate")}')
        if with_attrs:
            qid = f'{qs[0][0]}_{qs[0][1]}'
            if k.cond(sorted(spec2.qubit_attributes) == [qid] and sorted(spec2.qubit_attributes[qid].attributes) == ['freq', 'good', 'index', 'label'], 'to_proto qubit_attributes keys'):
                at2 = spec2.qubit_attributes[qid].attributes
                k.num(at2['freq'].double_value, freq, 'attribute freq')
                k.cond(at2['index'].int_value == aidx, 'attribute index')
                k.cond(at2['good'].bool_value is True or IFF(at2['good'].bool_value, True), 'attribute good')
                k.cond(at2['label'].string_value == 'edge', 'attribute label')
            da = dict(dev.qubit_attributes).get(cirq.GridQubit(*qs[0]), {})
            if k.cond(sorted(da) == ['freq', 'good', 'index', 'label'], f'device qubit_attributes {sorted(da)}'):
                k.num(da['freq'], freq, 'device attribute freq')
                k.cond(da['index'] == aidx, 'device attribute index')
                k.cond(da['label'] == 'edge', 'device attribute label')
        else:
            k.cond(len(spec2.qubit_attributes) == 0, 'to_proto qubit_attributes empty')
        if wrong and not kinds:
            k.cond(len(spec2.valid_qubits) == 99, 'twin')
        k.finish('device specification')

    obs.append(
        Obligation(
            'msgs.device.specification',
            body_device,
            twin=lambda cx: body_device(cx, wrong=True),
            points=[dict({'choose:layout': i % len(LAYOUTS), 'choose:gates': i % len(GATE_SUBSETS), 'choose:qubit_attributes': i % 2, 'freq': 0.5 * i - 1, 'attr_int': 7 - 3 * i}, **{f'picos_{g}': 1000 * (j + 1) + i for j, g in enumerate(GATE_KINDS)}) for i in range(6)],
            opts={'weight': 4},
            desc=f'GridDevice.from_proto on DeviceSpecification messages (qubit / pair layouts {len(LAYOUTS)}, gate lists {GATE_SUBSETS}, gate_duration_picos SYMBOLIC int64 per gate, qubit attributes with a SYMBOLIC double and a SYMBOLIC int64): metadata qubit set, pair set and gate durations are the listed ones; validate_operation accepts a probe operation (representatives of every gate kind on listed / reversed / unlisted pairs and on a qubit outside the device) EXACTLY when its gate kind, qubits and pair are listed; to_proto gives back the same qubits, pairs, gate kinds, durations and attributes. Solver-driven bounded exploration plus symbolic durations / attributes',
        )
    )

    # ==================================================================================================
    # 5. qubit identifiers: api.v2.program proto ids and their uses (operations, measurement qubit lists,
    #    CircuitOperation qubit maps, device specifications)
    # ==================================================================================================
    # Coordinates are SOLVER variables (cx.int + an assumption that spans negative, zero, one- and two-digit and a few
    # large values); the id is a Python str, so each coordinate is concretised where the qubit is built (the explorer
    # enumerates every feasible value: one path per value) and the qubit that comes back is compared with the SYMBOLIC
    # term again (z3 decides got.row == row under the path condition row == value).
    from cirq_google.api.v2 import program as PRG
    from cirq_google.ops.coupler import Coupler

    FULL = ((-12, 12), [-(1 << 31) - 1, -100, 99, 1000, 1 << 31, (1 << 63) + 7])  # 31 values
    SHORT = ((-2, 2), [-11, 10, 1 << 40])  # 8 values
    TINY = ((-1, 1), [-11, 10])  # 5 values
    QID_OPTS = {'int_fork_limit': 64, 'max_paths': 20000}

    def coord(cx, name, dom):
        """(symbolic term, concrete value on this path) of a solver-chosen integer from dom = ((lo, hi), [extra values])"""
        (lo, hi), extra = dom
        v = cx.int(name, -(1 << 70), 1 << 70)
        cx.assume(OR([AND([v >= lo, v <= hi])] + [v == e for e in extra]))
        return (v, int(v))

    def shifted(co, d):
        return (co[0] + d, co[1] + d)

    # qubit descriptions (independent of the cirq objects): ('grid', row, col) / ('line', x) / ('named', str) / ('coupler', d0, d1);
    # row, col, x are (symbolic, concrete) pairs
    def q_make(d):
        if d[0] == 'grid':
            return cirq.GridQubit(d[1][1], d[2][1])
        if d[0] == 'line':
            return cirq.LineQubit(d[1][1])
        if d[0] == 'named':
            return cirq.NamedQubit(d[1])
        return Coupler(q_make(d[1]), q_make(d[2]))

    def q_ids(d):
        """the proto ids the docstring of qubit_to_proto_id allows for this qubit (a coupler is an unordered pair)"""
        if d[0] == 'grid':
            return ['%d_%d' % (d[1][1], d[2][1])]
        if d[0] == 'line':
            return ['%d' % d[1][1]]
        if d[0] == 'named':
            return [d[1]]
        return ['c_' + i0 + '_' + i1 for a_, b_ in ((d[1], d[2]), (d[2], d[1])) for i0 in q_ids(a_) for i1 in q_ids(b_)]

    def q_cond(got, d):
        """condition: `got` is the qubit described by d (exact class, documented attributes against the SYMBOLIC coordinates)"""
        if d[0] == 'grid':
            return type(got) is cirq.GridQubit and AND([got.row == d[1][0], got.col == d[2][0]])
        if d[0] == 'line':
            return type(got) is cirq.LineQubit and AND([got.x == d[1][0]])
        if d[0] == 'named':
            return type(got) is cirq.NamedQubit and got.name == d[1]
        if type(got) is not Coupler:
            return False
        return OR([AND([q_cond(got.qubit0, d[1]), q_cond(got.qubit1, d[2])]), AND([q_cond(got.qubit0, d[2]), q_cond(got.qubit1, d[1])])])

    def q_seq(k, got, ds, why):
        got = list(got)
        if k.cond(len(got) == len(ds), f'{why}: {len(got)} qubits instead of {len(ds)}'):
            for i, (g, d) in enumerate(zip(got, ds)):
                k.cond(q_cond(g, d), f'{why}[{i}]: {g!r} is not {q_ids(d)[0]!r}')

    def raises_value_error(f, *args):
        try:
            f(*args)
        except ValueError:
            return True
        return False

    # names that are NOT of the form of a grid / line / coupler id (the format cannot tell those apart: see the finding
    # obligation); several embed the symbolic coordinates so that they sit right next to the grid / line forms
    NAME_TEMPLATES = [
        ('alice', 0, lambda r, c: 'alice'),
        ('<empty>', 0, lambda r, c: ''),
        ('c_', 0, lambda r, c: 'c_'),
        ('q_7', 0, lambda r, c: 'q_7'),
        ('x{r}', 1, lambda r, c: 'x%d' % r),
        ('{r}x', 1, lambda r, c: '%dx' % r),
        ('q{r}', 1, lambda r, c: 'q%d' % r),
        ('{r}_', 1, lambda r, c: '%d_' % r),
        ('_{r}', 1, lambda r, c: '_%d' % r),
        ('{r}.0', 1, lambda r, c: '%d.0' % r),
        ('q_{r}_{c}', 2, lambda r, c: 'q_%d_%d' % (r, c)),
        ('{r}_{c}_{r}', 2, lambda r, c: '%d_%d_%d' % (r, c, r)),
        ('{r}__{c}', 2, lambda r, c: '%d__%d' % (r, c)),
        ('{r}_{c}q', 2, lambda r, c: '%d_%dq' % (r, c)),
        ('c{r}_{c}', 2, lambda r, c: 'c%d_%d' % (r, c)),
        ('c_{r}_{c}_{r}', 2, lambda r, c: 'c_%d_%d_%d' % (r, c, r)),
        ('{r}_{c}.5', 2, lambda r, c: '%d_%d.5' % (r, c)),
    ]

    def named_from(cx, ti, dom_r=FULL, dom_c=SHORT, suffix=''):
        _, nint, f = NAME_TEMPLATES[ti]
        r = coord(cx, 'r' + suffix, dom_r) if nint >= 1 else (0, 0)
        c = coord(cx, 'c' + suffix, dom_c) if nint >= 2 else (0, 0)
        return ('named', f(r[1], c[1]))

    ID_KINDS = ['grid', 'line', 'named', 'coupler_grid', 'coupler_line', 'coupler_named', 'qudit']

    def body_qid_functions(cx, kind, wrong=False):
        k = Cmp(cx, TOL)
        if kind == 'qudit':
            # qudits are not supported by the format: refused loudly
            x = coord(cx, 'x', FULL)
            dim = 3 + cx.choose('dimension', 2)
            q = [cirq.GridQid(x[1], 1 - x[1], dimension=dim), cirq.LineQid(x[1], dimension=dim), cirq.NamedQid('%d_%d' % (x[1], x[1]), dimension=dim)][cx.choose('class', 3)]
            k.cond(raises_value_error(PRG.qubit_to_proto_id, q), f'qubit_to_proto_id({q!r}) does not raise ValueError')
            return k.finish('qudit id', wrong)
        if kind == 'grid':
            d = ('grid', coord(cx, 'row', FULL), coord(cx, 'col', FULL))
        elif kind == 'line':
            d = ('line', coord(cx, 'x', FULL))
        elif kind == 'named':
            d = named_from(cx, cx.choose('name', len(NAME_TEMPLATES)))
        elif kind == 'coupler_grid':
            r, c = coord(cx, 'row', FULL), coord(cx, 'col', SHORT)
            dr, dc = [(0, 1), (1, 0), (0, -1), (-1, 0), (3, -7)][cx.choose('neighbour', 5)]
            d = ('coupler', ('grid', r, c), ('grid', shifted(r, dr), shifted(c, dc)))
        elif kind == 'coupler_line':
            x = coord(cx, 'x', FULL)
            d = ('coupler', ('line', x), ('line', shifted(x, [1, -1, 25][cx.choose('neighbour', 3)])))
        else:
            ti = [4, 5, 6, 9][cx.choose('name', 4)]  # one-integer templates without an underscore
            r = coord(cx, 'r', FULL)
            d = ('coupler', ('named', NAME_TEMPLATES[ti][2](r[1], 0)), ('named', ['bob', 'y%d' % (r[1] + 1)][cx.choose('second', 2)]))
        q = q_make(d)
        pid = PRG.qubit_to_proto_id(q)
        k.cond(type(pid) is str and pid in q_ids(d), f'qubit_to_proto_id({q!r}) = {pid!r}, documented {q_ids(d)}')
        back = PRG.qubit_from_proto_id(pid)
        k.cond(q_cond(back, d), f'qubit_from_proto_id({pid!r}) = {back!r}')
        # the specialised parsers
        if d[0] == 'grid':
            k.cond(q_cond(PRG.grid_qubit_from_proto_id(pid), d), f'grid_qubit_from_proto_id({pid!r})')
            k.cond(q_cond(PRG.grid_qubit_from_proto_id('q' + pid), d), f'grid_qubit_from_proto_id({"q" + pid!r}) (form [q]<int>_<int>)')
        elif d[0] == 'line':
            k.cond(q_cond(PRG.line_qubit_from_proto_id(pid), d), f'line_qubit_from_proto_id({pid!r})')
            k.cond(raises_value_error(PRG.grid_qubit_from_proto_id, pid), f'grid_qubit_from_proto_id({pid!r}) does not raise ValueError')
        elif d[0] == 'named':
            k.cond(q_cond(PRG.named_qubit_from_proto_id(pid), d), f'named_qubit_from_proto_id({pid!r})')
            k.cond(raises_value_error(PRG.grid_qubit_from_proto_id, pid), f'grid_qubit_from_proto_id({pid!r}) does not raise ValueError')
            k.cond(raises_value_error(PRG.line_qubit_from_proto_id, pid) or '_' in pid, f'line_qubit_from_proto_id({pid!r}) does not raise ValueError')
        else:
            k.cond(raises_value_error(PRG.grid_qubit_from_proto_id, pid) and raises_value_error(PRG.line_qubit_from_proto_id, pid), f'grid / line parsers accept the coupler id {pid!r}')
        k.finish(f'qubit id {kind}', wrong)

    def qid_points(kind):
        pts = []
        for i, (r, c) in enumerate(((-1, -2), (0, 0), (-12, 10), (7, -11), (1 << 31, 1), (-100, 2), ((1 << 63) + 7, -1), (12, 1 << 40), (99, 0), (-(1 << 31) - 1, -2))):
            pts.append({'row': r, 'col': c if kind != 'grid' or abs(c) <= 12 else 1000, 'x': r, 'r': r, 'c': c, 'choose:name': (3 * i + 1) % len(NAME_TEMPLATES), 'choose:neighbour': i % 3, 'choose:second': i % 2, 'choose:class': i % 3, 'choose:dimension': i % 2})
        return pts

    for kind in ID_KINDS:
        obs.append(
            Obligation(
                f'msgs.qubit_id.functions[{kind}]',
                (lambda cx, kind=kind: body_qid_functions(cx, kind)),
                twin=(lambda cx, kind=kind: body_qid_functions(cx, kind, wrong=True)),
                points=qid_points(kind),
                opts=dict(QID_OPTS, weight=3 if kind in ('grid', 'named', 'coupler_grid') else 1),
                desc=f'api.v2.program qubit_to_proto_id / qubit_from_proto_id (+ grid_/line_/named_qubit_from_proto_id) on qubit kind {kind} (of {ID_KINDS}): coordinates are SOLVER-chosen integers from -12..12 plus {FULL[1]} (second coordinate of couplers / names: -2..2 plus {SHORT[1]}), concretised where the id string is built (one path per value); names from {[n for n, _, _ in NAME_TEMPLATES]}; the id is the documented string, qubit_from_proto_id gives back the same class with the same coordinates / name (couplers: the same unordered pair), the specialised parsers accept their own form ([q]<int>_<int> for grids) and raise ValueError on the others; qudits are refused with ValueError',
            )
        )

    # ---- uses by CircuitSerializer ------------------------------------------------------------------------------------------
    QSETS = ['grid', 'line', 'named', 'coupler', 'mixed']

    def qset(cx, which):
        """four distinct qubit descriptions"""
        if which == 'grid':
            r, c = coord(cx, 'row', FULL), coord(cx, 'col', SHORT)
            # the last one swaps the roles of the two coordinates (and is never one of the others)
            return [('grid', r, c), ('grid', r, shifted(c, 1)), ('grid', shifted(r, -1), c), ('grid', shifted(c, -1), shifted(r, 100))]
        if which == 'line':
            x = coord(cx, 'x', FULL)
            return [('line', x), ('line', shifted(x, 1)), ('line', shifted(x, -1)), ('line', shifted(x, -13))]
        if which == 'named':
            r, c = coord(cx, 'r', FULL), coord(cx, 'c', TINY)
            # leading / trailing underscore and blank: nothing may be stripped or normalised on the way
            return [('named', 'q_%d_%d' % (r[1], c[1])), ('named', '%d_%d_' % (r[1], c[1])), ('named', '_%d' % r[1]), ('named', ' c%d_%d ' % (r[1], c[1]))]
        if which == 'coupler':
            r, c = coord(cx, 'row', FULL), coord(cx, 'col', TINY)
            return [
                ('coupler', ('grid', r, c), ('grid', r, shifted(c, 1))),
                ('coupler', ('grid', shifted(r, 1), c), ('grid', r, c)),
                ('coupler', ('line', r), ('line', shifted(r, -1))),
                ('coupler', ('named', 'a%d' % r[1]), ('named', 'b')),
            ]
        r, c = coord(cx, 'row', FULL), coord(cx, 'col', TINY)
        return [('grid', r, c), ('line', r), ('named', 'q_%d_%d' % (r[1], c[1])), ('coupler', ('grid', c, r), ('grid', shifted(c, 1), r))]

    CIRCUIT_FORMS = ['operations', 'operations_in_legacy_qubits_field', 'circuit_op', 'circuit_op_partial_map']

    def body_qid_circuit(cx, which, wrong=False):
        form = CIRCUIT_FORMS[cx.choose('form', len(CIRCUIT_FORMS))]
        ds = qset(cx, which)
        q = [q_make(d) for d in ds]
        k = Cmp(cx, TOL)
        if form.startswith('operations'):
            # one operation per moment: (gate, positions of its qubits in ds), qubit ORDER is part of every operation
            plan = [('X', (0,)), ('wait', (1, 0)), ('X', (3,)), ('measure', (2, 0, 3)), ('wait', (3, 2, 1)), ('measure', (1,))]
            ops_ = []
            for g, idx in plan:
                qs = [q[i] for i in idx]
                if g == 'X':
                    ops_.append(cirq.X(*qs))
                elif g == 'wait':
                    ops_.append(cirq.wait(*qs, nanos=5))
                else:
                    ops_.append(cirq.measure(*qs, key=f'm{len(idx)}', invert_mask=(True,) + (False,) * (len(idx) - 1)))
            c = cirq.Circuit(cirq.Moment([o]) for o in ops_)
            if form == 'operations':
                back = roundtrip(cx, c)
            else:
                # program.proto: Operation.qubits (deprecated in favour of qubit_constant_index, still read "in case the
                # constants table was not used"): the harness moves every qubit reference of the message into that field
                msg = SER.serialize(c)
                for const in msg.constants:
                    if const.WhichOneof('const_value') == 'operation_value':
                        ids_ = [msg.constants[i].qubit.id for i in const.operation_value.qubit_constant_index]
                        del const.operation_value.qubit_constant_index[:]
                        for id_ in ids_:
                            const.operation_value.qubits.add().id = id_
                back = SER.deserialize(wire(cx, msg))
            k.circuit(back, c, which)
            if k.cond(len(back.moments) == len(plan) and all(len(m.operations) == 1 for m in back.moments), 'one operation per moment'):
                for i, (g, idx) in enumerate(plan):
                    q_seq(k, back.moments[i].operations[0].qubits, [ds[j] for j in idx], f'moment {i} ({g}) qubits')
        else:
            sub_plan = [('X', (0,)), ('wait', (1, 0)), ('measure', (1, 0))]
            sub = cirq.FrozenCircuit(cirq.Moment([cirq.X(q[0])]), cirq.Moment([cirq.wait(q[1], q[0], nanos=5)]), cirq.Moment([cirq.measure(q[1], q[0], key='k')]))
            qmap = {0: 2, 1: 3} if form == 'circuit_op' else {1: 2}
            op = cirq.CircuitOperation(sub, qubit_map={q[i]: q[j] for i, j in qmap.items()})
            c = cirq.Circuit(cirq.Moment([op]), cirq.Moment([cirq.X(q[1])]))
            back = roundtrip(cx, c)
            k.circuit(back, c, which)
            bop = back.moments[0].operations[0] if len(back.moments) == 2 and len(back.moments[0].operations) == 1 else None
            if k.cond(isinstance(bop, cirq.CircuitOperation), f'first operation is {type(bop).__name__}'):
                items = list(bop.qubit_map.items())
                if k.cond(len(items) == len(qmap), f'qubit_map has {len(items)} entries instead of {len(qmap)}'):
                    for i, j in qmap.items():
                        k.cond(OR([AND([q_cond(kk, ds[i]), q_cond(vv, ds[j])]) for kk, vv in items]), f'qubit_map entry {q_ids(ds[i])[0]!r} -> {q_ids(ds[j])[0]!r} missing in {bop.qubit_map}')
                bm = list(bop.circuit.moments)
                if k.cond(len(bm) == 3 and all(len(m.operations) == 1 for m in bm), 'sub-circuit: one operation per moment'):
                    for i, (g, idx) in enumerate(sub_plan):
                        q_seq(k, bm[i].operations[0].qubits, [ds[j] for j in idx], f'sub-circuit moment {i} ({g}) qubits')
                # the qubits the operation acts on: the mapped ones
                outer = [ds[qmap.get(i, i)] for i in (0, 1)]
                got_outer = list(bop.qubits)
                if k.cond(len(got_outer) == 2, f'operation acts on {got_outer}'):
                    for d in outer:
                        k.cond(OR([q_cond(g, d) for g in got_outer]), f'operation does not act on {q_ids(d)[0]!r}: {got_outer}')
            q_seq(k, back.moments[1].operations[0].qubits if len(back.moments) == 2 else [], [ds[1]], 'second moment qubits')
        k.finish(f'qubit ids in a circuit ({which})', wrong)

    def qcirc_points():
        return [{'choose:form': i % 4, 'row': r, 'col': c, 'x': r, 'r': r, 'c': c} for i, (r, c) in enumerate(((-1, -1), (0, 0), (-12, 1), (7, -11), (1 << 31, 1), (-100, 0), ((1 << 63) + 7, -1), (12, 10), (99, 0)))]

    for which in QSETS:
        obs.append(
            Obligation(
                f'msgs.qubit_id.circuit[{which}]',
                (lambda cx, which=which: body_qid_circuit(cx, which)),
                twin=(lambda cx, which=which: body_qid_circuit(cx, which, wrong=True)),
                points=qcirc_points(),
                opts=dict(QID_OPTS, weight=4),
                desc=f'CircuitSerializer.serialize / deserialize with four qubits of kind {which} (of {QSETS}; grid (row, col), (row, col+1), (row-1, col), (col-1, row+100); line x, x+1, x-1, x-13; names "q_<r>_<c>", "<r>_<c>_", "_<r>", " c<r>_<c> "; couplers of grid / line / named qubits; mixed kinds in one circuit) whose coordinates are SOLVER-chosen (-12..12 plus large values; second coordinate -2..2 / -1..1 plus a few), in the forms {CIRCUIT_FORMS}: X / wait / measure operations with permuted qubit ORDER (measurement qubit lists of 1 and 3 qubits with an invert mask), the same message with every qubit reference moved to the deprecated Operation.qubits id list, and a CircuitOperation with a full / partial qubit_map onto the other qubits: every operation, sub-circuit operation and qubit_map entry comes back on the same qubits (exact class, coordinates compared with the symbolic terms) in the same order',
            )
        )

    # ---- result messages: qubit ids of the measured qubits --------------------------------------------------------------------
    def body_qid_results(cx, wrong=False):
        from cirq_google.api.v2 import result_pb2
        from cirq_google.api.v2 import results as RES

        r, c = coord(cx, 'row', FULL), coord(cx, 'col', SHORT)
        with_infos = cx.choose('measurements_given', 2) == 1
        # measurement order is not the sorted order; the last qubit swaps the roles of the coordinates
        ds = [('grid', r, shifted(c, 1)), ('grid', shifted(r, -1), c), ('grid', r, c), ('grid', shifted(c, -1), shifted(r, 100))]
        q = [q_make(d) for d in ds]
        circuit = cirq.Circuit(cirq.measure(*q, key='m'), cirq.measure(q[2], q[0], key='k'))
        infos = RES.find_measurements(circuit)
        # concrete record bits, one distinct column per measured qubit (the ids, not the bits, are the subject here)
        cols = {'m': [[1, 0, 0, 1, 1], [0, 1, 0, 1, 0], [0, 0, 1, 1, 1], [1, 1, 1, 0, 0]], 'k': [[1, 1, 0, 0, 1], [0, 1, 1, 0, 0]]}
        records = {key: np.array(v, dtype=np.uint8).T.reshape(5, 1, len(v)) for key, v in cols.items()}
        res = cirq.ResultDict(params=cirq.ParamResolver({}), records=records)
        msg = RES.results_to_proto([[res]], infos)
        if cx.mode == 'concrete':
            msg = result_pb2.Result.FromString(msg.SerializeToString())
        k = Cmp(cx, TOL)
        mrs = list(msg.sweep_results[0].parameterized_results[0].measurement_results)
        order = {'m': [0, 1, 2, 3], 'k': [2, 0]}
        if k.cond([m.key for m in mrs] == ['m', 'k'], f'measurement results {[m.key for m in mrs]}'):
            for mr in mrs:
                # result.proto: one QubitMeasurementResult per measured qubit, in measurement order, named by its id
                k.cond([x.qubit.id for x in mr.qubit_measurement_results] == [q_ids(ds[i])[0] for i in order[mr.key]], f'qubit ids of {mr.key}: {[x.qubit.id for x in mr.qubit_measurement_results]}')
        for info in infos:
            q_seq(k, info.qubits, [ds[i] for i in order[info.key]], f'find_measurements qubits of {info.key}')
        out = RES.results_from_proto(msg, infos if with_infos else None)
        if k.cond(len(out) == 1 and len(out[0]) == 1, 'one sweep, one result'):
            got = out[0][0].records
            if k.cond(sorted(got) == ['k', 'm'], f'record keys {sorted(got)}'):
                for key in ('m', 'k'):
                    k.cond(got[key].shape == records[key].shape and bool(np.all(np.asarray(got[key], dtype=int) == records[key])), f'records[{key}] {np.asarray(got[key]).tolist()}')
        k.finish('result message qubit ids', wrong)

    obs.append(
        Obligation(
            'msgs.qubit_id.results',
            body_qid_results,
            twin=lambda cx: body_qid_results(cx, wrong=True),
            points=[{'row': r, 'col': c, 'choose:measurements_given': i % 2} for i, (r, c) in enumerate(((-1, -1), (0, 0), (-12, 1), (7, -11), (1 << 31, 2), (-100, 0), ((1 << 63) + 7, -1), (12, 10), (99, 1 << 40)))],
            opts=dict(QID_OPTS, weight=3),
            desc=f'api.v2.results find_measurements / results_to_proto / results_from_proto for two measurements over four grid qubits (row, col+1), (row-1, col), (row, col), (col-1, row+100) with SOLVER-chosen coordinates (row: -12..12 plus {FULL[1]}, col: -2..2 plus {SHORT[1]}), measured in a non-sorted order, with and without MeasureInfo: the message names the qubits by the documented ids in measurement order, and the records come back column by column (record BITS are concrete here, one distinct column per qubit; symbolic bits are the subject of the bit part of C16)',
        )
    )

    # ---- device specifications ------------------------------------------------------------------------------------------------
    # device.proto: valid_qubits "must be in the form '<int>_<int>'"; the unchanged tree refuses a minus sign there (finding
    # below), so the healthy family has all coordinates >= 0 (0 is reached by the cell (row-1, col-1))
    DEV_ROW = ((1, 13), [99, 100, 1000, 1 << 31, (1 << 63) + 7])  # 18 values
    DEV_COL = ((1, 3), [10, 11, 1 << 40])  # 6 values

    def device_spec_for(ids, pair_idx, attr_id):
        spec = device_pb2.DeviceSpecification()
        spec.valid_qubits.extend(ids)
        ts = spec.valid_targets.add()
        ts.name = '2_qubit_targets'
        ts.target_ordering = device_pb2.TargetSet.SYMMETRIC
        for i, j in pair_idx:
            ts.targets.add().ids.extend([ids[i], ids[j]])
        for gk in ('cz', 'phased_xz', 'meas'):
            gs = spec.valid_gates.add()
            getattr(gs, gk).SetInParent()
            gs.gate_duration_picos = 1000
        if attr_id is not None:
            spec.qubit_attributes[attr_id].attributes['index'].int_value = 7
        return spec

    def device_names_qubits(k, dev, ds, pair_idx, attr_d):
        qset_ = list(dev.metadata.qubit_set)
        if k.cond(len(qset_) == len(ds), f'qubit_set {qset_}'):
            for d in ds:
                k.cond(OR([q_cond(g, d) for g in qset_]), f'{q_ids(d)[0]!r} missing in qubit_set {qset_}')
        pairs_ = [tuple(p) for p in dev.metadata.qubit_pairs]
        if k.cond(len(pairs_) == len(pair_idx) and all(len(p) == 2 for p in pairs_), f'qubit_pairs {pairs_}'):
            for i, j in pair_idx:
                k.cond(OR([OR([AND([q_cond(p[0], ds[i]), q_cond(p[1], ds[j])]), AND([q_cond(p[0], ds[j]), q_cond(p[1], ds[i])])]) for p in pairs_]), f'pair {q_ids(ds[i])[0]}-{q_ids(ds[j])[0]} missing in {pairs_}')
        attrs = dict(dev.qubit_attributes)
        k.cond(len(attrs) == 1 and all(dict(a_) == {'index': 7} for a_ in attrs.values()), f'qubit_attributes {attrs}')
        for g in attrs:
            k.cond(q_cond(g, attr_d), f'qubit_attributes key {g!r}')

    def body_qid_device(cx, wrong=False):
        r, c = coord(cx, 'row', DEV_ROW), coord(cx, 'col', DEV_COL)
        cells = [(0, 0), (0, 1), (1, 0), (-1, -1)]
        ds = [('grid', shifted(r, a_), shifted(c, b_)) for a_, b_ in cells]
        pair_idx = [(0, 1), (2, 0)]
        ids = [q_ids(d)[0] for d in ds]
        spec = wire(cx, device_spec_for(ids, pair_idx, ids[3]))
        dev = cg.GridDevice.from_proto(spec)
        k = Cmp(cx, TOL)
        device_names_qubits(k, dev, ds, pair_idx, ds[3])
        # the device accepts operations on exactly the listed qubits / pairs (qubits built by the harness)
        qv = [q_make(d) for d in ds]
        outside = [cirq.GridQubit(-r[1], c[1]), cirq.GridQubit(c[1], r[1] + 3), cirq.GridQubit(r[1] + 2, c[1] + 2), cirq.GridQubit(r[1], -c[1])]
        probes = [(cirq.X(qq), True) for qq in qv] + [(cirq.X(o), False) for o in outside if o not in qv]
        probes += [(cirq.CZ(qv[0], qv[1]), True), (cirq.CZ(qv[0], qv[2]), True), (cirq.CZ(qv[1], qv[2]), False), (cirq.CZ(qv[0], qv[3]), False), (cirq.measure(qv[3], qv[1], key='m'), True)]
        for op, want in probes:
            ok = not raises_value_error(dev.validate_operation, op)
            k.cond(ok == want, f'validate_operation({op!r}) {"accepts" if ok else "rejects"}')
        # back to a specification: the documented '<int>_<int>' strings
        spec2 = wire(cx, dev.to_proto())
        k.cond(sorted(spec2.valid_qubits) == sorted(ids), f'to_proto valid_qubits {list(spec2.valid_qubits)} vs {sorted(ids)}')
        got_pairs = {frozenset(t.ids) for tset in spec2.valid_targets if tset.target_ordering == device_pb2.TargetSet.SYMMETRIC for t in tset.targets if len(t.ids) == 2}
        k.cond(got_pairs == {frozenset((ids[i], ids[j])) for i, j in pair_idx}, f'to_proto pairs {got_pairs}')
        k.cond(sorted(spec2.qubit_attributes) == [ids[3]] and spec2.qubit_attributes[ids[3]].attributes['index'].int_value == 7, f'to_proto qubit_attributes {sorted(spec2.qubit_attributes)}')
        # ids that are not of the form <int>_<int> are refused (documented ValueError of from_proto)
        for bad_id in ('%d' % r[1], 'q' + ids[0], 'q_' + ids[0], ids[0] + '_' + ids[1], 'c_' + ids[0] + '_' + ids[1], ids[0] + '.5', ' ' + ids[0]):
            bad = device_pb2.DeviceSpecification()
            bad.valid_qubits.extend([ids[1], bad_id])
            k.cond(raises_value_error(cg.GridDevice.from_proto, bad), f'from_proto accepts valid_qubits {list(bad.valid_qubits)}')
        k.finish('device specification qubit ids', wrong)

    obs.append(
        Obligation(
            'msgs.qubit_id.device',
            body_qid_device,
            twin=lambda cx: body_qid_device(cx, wrong=True),
            points=[{'row': r, 'col': c} for r, c in ((1, 1), (2, 3), (9, 10), (10, 1), (13, 11), (99, 2), (100, 1 << 40), (1 << 31, 1), ((1 << 63) + 7, 3), (1000, 10))],
            opts=dict(QID_OPTS, weight=4),
            desc=f'GridDevice.from_proto / to_proto on a DeviceSpecification whose four valid qubits (row, col), (row, col+1), (row+1, col), (row-1, col-1) have SOLVER-chosen coordinates (row: 1..13 plus {DEV_ROW[1]}, col: 1..3 plus {DEV_COL[1]}, so that every coordinate is >= 0, 0 and digit-count changes included): qubit set, pair set and qubit attributes name exactly these qubits (coordinates compared with the symbolic terms), validate_operation accepts operations on the listed qubits / pairs and rejects qubits with negated / swapped coordinates, to_proto writes the documented <row>_<col> strings, and line / q-prefixed / named / three-field / coupler-shaped ids in valid_qubits are refused with ValueError',
        )
    )

    def body_f_device_negative(cx, wrong=False):
        which = cx.choose('negative', 3)
        r = coord(cx, 'row', ((-3, -1), [-12, -100])) if which != 1 else coord(cx, 'row', ((0, 2), [10]))
        c = coord(cx, 'col', ((-2, -1), [-11])) if which != 0 else coord(cx, 'col', ((0, 2), [10]))
        ds = [('grid', r, c), ('grid', r, shifted(c, 1)), ('grid', shifted(r, 1), c)]
        ids = [q_ids(d)[0] for d in ds]
        pair_idx = [(0, 1), (2, 0)]
        k = Cmp(cx, TOL)
        for i in ids:
            k.cond(q_cond(PRG.grid_qubit_from_proto_id(i), ds[ids.index(i)]), f'grid_qubit_from_proto_id({i!r})')
        dev = cg.GridDevice.from_proto(wire(cx, device_spec_for(ids, pair_idx, ids[2])))
        device_names_qubits(k, dev, ds, pair_idx, ds[2])
        spec2 = wire(cx, dev.to_proto())
        k.cond(sorted(spec2.valid_qubits) == sorted(ids), f'to_proto valid_qubits {list(spec2.valid_qubits)}')
        k.finish('device specification with negative coordinates', wrong)

    obs.append(
        Obligation(
            'msgs.finding.qubit_id.device_negative_coordinates',
            body_f_device_negative,
            twin=None,
            opts=dict(QID_OPTS),
            points=[],
            desc="FINDING (loud): GridDevice.from_proto (and to_proto) refuse valid_qubits such as '-1_2' with ValueError although the id is of the documented form <int>_<int>, is what qubit_to_proto_id writes for cirq.GridQubit(-1, 2) and is parsed by grid_qubit_from_proto_id: _validate_device_specification matches ^[0-9]+_[0-9]+$ (no sign); no twin: every path of this obligation ends in that exception",
        )
    )

    # ==================================================================================================
    # findings (defects of the unchanged tree; one obligation per finding, restricted to the failing family)
    # ==================================================================================================
    def body_f_qubit_name(cx, wrong=False):
        r, c = coord(cx, 'r', ((-3, -3), [])), coord(cx, 'c', ((2, 2), []))  # one value each: every failing NAME is reported once
        names = [
            '%d_%d' % (r[1], c[1]),  # looks like a grid id
            '%d' % r[1],  # looks like a line id
            'q%d_%d' % (r[1], c[1]),  # grid id with the optional q
            'c_%d_%d_3_4' % (r[1], c[1]),  # looks like a coupler of grid qubits
            'c_%d_%d' % (r[1], c[1]),  # looks like a coupler of line qubits
            'c_a_b',  # looks like a coupler of named qubits
            ' %d' % r[1],  # int() tolerates surrounding white space
            '+%d' % abs(r[1]),  # ... and a plus sign
        ]
        d = ('named', names[cx.choose('name', len(names))])
        q = q_make(d)
        k = Cmp(cx, TOL)
        back = PRG.qubit_from_proto_id(PRG.qubit_to_proto_id(q))
        k.cond(q_cond(back, d), f'{q!r} comes back as {back!r}')
        c_ = cirq.Circuit(cirq.X(q), cirq.measure(q, key='m'))
        k.circuit(roundtrip(cx, c_), c_, 'named qubit')
        k.finish('named qubit whose name looks like an id', wrong)

    obs.append(
        Obligation(
            'msgs.finding.qubit_id.named_looks_like_id',
            body_f_qubit_name,
            twin=lambda cx: body_f_qubit_name(cx, wrong=True),
            opts=dict(QID_OPTS, stop_on_violation=False),  # report every failing selector value
            points=[],
            desc="FINDING: a cirq.NamedQubit whose name has the form of a grid / line / coupler id ('1_2', '-3', 'q1_2', 'c_1_2_3_4', 'c_1_2', 'c_a_b', ' 3', '+3') is serialized under that name and comes back as GridQubit / LineQubit / Coupler: the program silently acts on different qubits (the id format does not record the qubit kind)",
        )
    )

    def body_f_coupler_mixed(cx, wrong=False):
        r, c = coord(cx, 'r', ((-3, -3), [])), coord(cx, 'c', ((2, 2), []))  # one value each: every failing NAME is reported once
        d = [
            ('coupler', ('grid', r, c), ('line', r)),  # c_<r>_<c>_<r>: four fields
            ('coupler', ('named', 'a_b'), ('named', 'z')),  # c_a_b_z: the inner underscore is not escaped
            ('coupler', ('grid', r, c), ('named', 'z')),
            ('coupler', ('named', 'a_b'), ('named', 'c_d')),  # five fields, not integers
        ][cx.choose('pair', 4)]
        q = q_make(d)
        k = Cmp(cx, TOL)
        back = PRG.qubit_from_proto_id(PRG.qubit_to_proto_id(q))
        k.cond(q_cond(back, d), f'{q!r} comes back as {back!r}')
        k.finish('coupler of qubits of different kinds / named qubits with underscores', wrong)

    obs.append(
        Obligation(
            'msgs.finding.qubit_id.coupler_not_parsed',
            body_f_coupler_mixed,
            twin=lambda cx: body_f_coupler_mixed(cx, wrong=True),
            opts=dict(QID_OPTS, stop_on_violation=False),
            points=[],
            desc="FINDING: qubit_to_proto_id accepts every Coupler, but the id c_<id0>_<id1> is only parsed back for two grid, two line or two underscore-free named qubits: Coupler(GridQubit(1, 2), LineQubit(1)) -> 'c_1_2_1' and Coupler(NamedQubit('a_b'), NamedQubit('z')) -> 'c_a_b_z' come back as NamedQubits of that name",
        )
    )

    def body_f_cop_tags(cx, wrong=False):
        q0, q1, _ = qubits_of('grid', 3)
        x = cx.real('x', -BOX, BOX)
        tagset = [('hello',), (CalibrationTag('t'),), ('a', cg.InternalTag('T', 'p', v=1.5))][cx.choose('tags', 3)]
        op = cirq.CircuitOperation(cirq.FrozenCircuit(cirq.X(q0) ** x, cirq.CZ(q0, q1))).with_tags(*tagset)
        c = cirq.Circuit(op)
        back = roundtrip(cx, c)
        k = Cmp(cx, TOL)
        k.circuit(back, c, 'tagged CircuitOperation')
        k.finish('tagged CircuitOperation', wrong)

    obs.append(
        Obligation(
            'msgs.finding.circuit_op_tags',
            body_f_cop_tags,
            twin=lambda cx: body_f_cop_tags(cx, wrong=True),
            opts={'stop_on_violation': False},  # report every failing selector value
            points=[],
            desc='FINDING: tags attached to a CircuitOperation are dropped by CircuitSerializer.serialize (it serializes op.untagged and never writes op.tags)',
        )
    )

    def body_f_confusion(cx, wrong=False):
        q0, q1, _ = qubits_of('grid', 3)
        which = cx.choose('map', 2)
        cm = [{(0,): np.array([[0.9, 0.1], [0.2, 0.8]])}, {(0, 1): np.array([[0.7, 0.1, 0.1, 0.1], [0, 1, 0, 0], [0, 0, 1, 0], [0, 0, 0, 1.0]])}][which]
        c = cirq.Circuit(cirq.measure(q0, q1, key='m', confusion_map=cm))
        back = roundtrip(cx, c)
        k = Cmp(cx, TOL)
        k.circuit(back, c, 'measurement with confusion map')
        if wrong:
            k.cond(len(back) == 2, 'twin')
        k.finish('measurement with confusion map')

    obs.append(
        Obligation(
            'msgs.finding.measurement_confusion_map',
            body_f_confusion,
            twin=lambda cx: body_f_confusion(cx, wrong=True),
            opts={'stop_on_violation': False},  # report every failing selector value
            points=[],
            desc='FINDING: the confusion_map of a MeasurementGate is silently dropped by the program format (serialize accepts the gate, the deserialized gate has no confusion map)',
        )
    )

    def body_f_key_path(cx, wrong=False):
        q0, _, _ = qubits_of('grid', 3)
        path = [('a',), ('outer', '1')][cx.choose('path', 2)]
        c = cirq.Circuit(cirq.measure(q0, key=cirq.MeasurementKey('m', path=path)))
        back = roundtrip(cx, c)
        k = Cmp(cx, TOL)
        k.circuit(back, c, 'measurement key with a path')
        if wrong:
            k.cond(len(back) == 2, 'twin')
        k.finish('measurement key with a path')

    obs.append(
        Obligation(
            'msgs.finding.measurement_key_path',
            body_f_key_path,
            twin=None,
            opts={'stop_on_violation': False},  # report every failing selector value
            points=[],
            desc='FINDING: a measurement whose key has a path (e.g. after unrolling a sub-circuit) is serialized as the string "path:name" and deserialize raises ValueError (Invalid key name); no twin: every path of this obligation ends in that exception',
        )
    )

    def body_f_int_arg(cx, wrong=False):
        # failing family: odd integers of 25 bits, both signs
        n = (F32_INT + 2 * cx.int('j', 0, (1 << 23) - 1) + 1) * [1, -1][cx.choose('sign', 2)]
        back = A.arg_from_proto(wire(cx, A.arg_to_proto(n)), required_arg_name='n')
        cx.check(back == (n + 5 if wrong else n), 'integer argument returned exactly')

    obs.append(
        Obligation(
            'msgs.finding.int_arg_beyond_24_bits',
            body_f_int_arg,
            twin=lambda cx: body_f_int_arg(cx, wrong=True),
            points=[],
            desc='FINDING: arg_to_proto writes a Python int into the float32 field float_value, so an integer argument with more than 24 significant bits (InternalGate / InternalTag / raw tag arguments) comes back rounded, e.g. 16777217 -> 16777216',
        )
    )

    def body_f_tag_order(cx, wrong=False):
        q0, q1, _ = qubits_of('grid', 3)
        which = cx.choose('case', 3)
        op = [
            cirq.Z(q0).with_tags(CalibrationTag('x'), cg.PhysicalZTag()),
            cirq.FSimGate(0.5, 0.25)(q0, q1).with_tags(CalibrationTag('x'), cg.FSimViaModelTag()),
            cirq.FSimGate(0.5, 0.25)(q0, q1).with_tags('first', cg.TwoPulseFSimTag()),
        ][which]
        c = cirq.Circuit(op)
        back = roundtrip(cx, c)
        k = Cmp(cx, TOL)
        k.circuit(back, c, 'tag order')
        if wrong:
            k.cond(len(back) == 2, 'twin')
        k.finish('tag order')

    obs.append(
        Obligation(
            'msgs.finding.tag_order',
            body_f_tag_order,
            twin=lambda cx: body_f_tag_order(cx, wrong=True),
            opts={'stop_on_violation': False},  # report every failing selector value
            points=[],
            desc='FINDING (equality only): PhysicalZTag / FSimViaModelTag / TwoPulseFSimTag are restored from a gate flag BEFORE the other tags, so an operation that carries one of them after another tag comes back with its tags reordered and compares unequal to the original',
        )
    )

    def body_f_tuple_arg(cx, wrong=False):
        q0, _, _ = qubits_of('grid', 3)
        which = cx.choose('case', 2)
        g = [cg.InternalGate('G', 'm', 1, t=(1, 2)), cg.InternalGate('G', 'm', 1, t=(1.5, 2.0))][which]
        c = cirq.Circuit(g(q0))
        back = roundtrip(cx, c)
        k = Cmp(cx, TOL)
        k.circuit(back, c, 'InternalGate tuple argument')
        if wrong:
            k.cond(len(back) == 2, 'twin')
        k.finish('InternalGate tuple argument')

    obs.append(
        Obligation(
            'msgs.finding.internal_gate_tuple_arg',
            body_f_tuple_arg,
            twin=lambda cx: body_f_tuple_arg(cx, wrong=True),
            opts={'stop_on_violation': False},  # report every failing selector value
            points=[],
            desc='FINDING (type only): a tuple of numbers given as InternalGate argument is written as RepeatedInt64 / RepeatedDouble and comes back as a list, so the gate compares unequal to the original',
        )
    )

    def body_f_module_none(cx, wrong=False):
        q0, _, _ = qubits_of('grid', 3)
        c = cirq.Circuit(cg.InternalGate('G', None, 1)(q0))
        back = roundtrip(cx, c)
        g = list(back.all_operations())[0].gate
        if wrong:
            cx.check(g.gate_module == 'some.module', 'twin')
        else:
            cx.check(g.gate_module is None, 'InternalGate(gate_module=None) keeps gate_module None')

    obs.append(
        Obligation(
            'msgs.finding.internal_gate_module_none',
            body_f_module_none,
            twin=lambda cx: body_f_module_none(cx, wrong=True),
            points=[],
            desc='FINDING (equality only): InternalGate(gate_module=None), the documented default, comes back with gate_module="" and compares unequal to the original',
        )
    )

    return obs


# --------------------------------------------------------------------------------------------------
LEVEL = (
    'Bounded symbolic execution of the real Quantum Engine (de)serializers, SMT-decided: the protobuf messages are the objects of the pure-Python protobuf '
    'backend, whose scalar stores are interposed harness-side so that symbolic integers, Booleans and reals (float32 fields: sound relative-error rounding model) '
    'live INSIDE the real message classes; arg_func_langs (arguments, formulas, classical conditions, InternalGate), api.v2.sweeps / api.v1.params (sweeps, run '
    'contexts), CircuitSerializer with op / tag (de)serializers and GridDevice.from_proto / to_proto / validate_operation run on them unmodified. Every round trip is compared with the ORIGINAL object field by field '
    '(structure by one Boolean VC, numbers by |got - expected| <= single-precision margin, formulas by evaluating both trees at symbolic symbol values); z3 decides '
    'for ALL values of the symbolic exponents / angles / probabilities / durations / sweep values / indices / repetition counts / bit masks in their boxes, '
    'including the coincidences (x1 = x2, also modulo the gate period) on which the constant table merges operations. Qubit identifiers (api.v2.program) and their uses by the '
    'circuit / result / device (de)serializers: coordinates are solver integers over negative, zero, multi-digit and a few large values, enumerated by the explorer where the id string is built '
    '(solver-driven bounded exploration). Shapes (gate family, tag set, sweep nesting, '
    'circuit layout) come from finite menus (solver-driven bounded exploration; obligations without a symbolic quantity are labelled as such).'
)

ASSUMPTIONS = [
    'protobuf runs with its PURE-PYTHON backend (PROTOCOL_BUFFERS_PYTHON_IMPLEMENTATION=python, checked at start: any other backend is a harness error, exit 2); the upb / C++ backends that users run by default are a different implementation of the same message semantics: they are exercised by nothing here (counterexamples were re-checked by hand under upb before being reported)',
    'scalar stores of the message classes are interposed in the symbolic workers (symx/pbsym.py, listed under stubs_installed): symbolic integers are range-checked symbolically and stored unchanged; symbolic reals are stored unchanged in double fields (exact real arithmetic, DESIGN.md section 3) and as x*(1+e), |e| <= 2**-24 with a fresh solver variable e in float32 fields (x = 0 or normal range; non-zero values below 2**-126 in magnitude and values beyond the float32 range are outside the claim), symbolic integers of magnitude <= 2**24 are stored exactly in float32 fields, rounding is monotone at 0 and 1 where constructors validate probabilities; implicit-presence clearing (value == 0) is decided by the solver; all other message machinery (oneofs, presence, repeated / map containers, MergeFrom, sub-message construction) is the unmodified pure-Python protobuf runtime',
    'in concrete mode (validation points, replays) no interposition is active: the real type checkers run and every message additionally passes through SerializeToString / FromString of the pure-Python backend; wire encoding of symbolic values is not modelled (it fails loudly)',
    'arg_func_langs.FLOAT_TYPES and cirq.circuits.circuit_operation.INT_CLASSES (isinstance tuples evaluated at import time) are extended by the symbolic classes; module-global float / int / round / math / np of the modules in SHIMS are the symx proxies (pass symbolic values, defer to the builtin otherwise)',
    f'symbolic real arguments range over [-{BOX}, {BOX}] (probabilities [0, 1], durations [0, {BOX}]); numbers are compared with the absolute margin {TOL:.3e} = {BOX} * 2**-24 (1 + 2**-10): a deviation below that margin is not detectable; formulas are compared at symbolic symbol values in [-2, 2] with tolerance 1e-5 (their constants pass through float32)',
    'the oracle of every round trip is the original object: documented constructor arguments read attribute by attribute in oracles/qe_format.py (gate families with their parameters, qubits, tags in order, classical controls as a set, CircuitOperation fields, moments as sets of operations on disjoint qubits), sweeps by the lists their class documentation defines (oracles/param_algebra.py); the global_shift of Pow gates is the global phase the format may normalise; exponents of X/Y/Z/H/CZ (period 2), ISWAP (period 4) and PhasedXPow (period 2) are compared modulo the period whenever more than one operation is serialized, because cirq equality identifies them and the constant table merges equal operations (one-operation obligations compare the exponent itself); FSim angles and PhasedXPow phase exponents modulo their documented canonicalisation period',
    'sympy formulas and Boolean conditions cannot hold solver values: their shape comes from menus, their constants are concrete; equality of the returned formula is decided at SYMBOLIC values of its symbols',
    'tunits.Value is a C extension: in the sweep obligations with units its values are MODELLED in symbolic mode (symx/tunits_model.py: symbolic magnitude x real tunits unit; conversion factors, unit messages and dimension checks are computed by the real tunits on the concrete unit) and real in concrete mode; the expected points use SI prefix factors written in the harness; AnalogDetune* gates, WaitGateWithUnit and value_with_unit arguments are outside',
    'device specifications: the oracle for validate_operation is the specification itself (gate kind listed, qubits listed, pair listed for two-qubit non-measurement gates), with one to three representative operations per GateSpecification kind taken from the GridDevice / device.proto documentation',
    'qubit identifiers (msgs.qubit_id.*): an id is a Python str, which cannot hold a solver term; each coordinate is a solver integer constrained to the stated value set and is concretised by the explorer at the point where the qubit is built (every feasible value is explored as its own path); the qubit that comes back is compared, class and attribute-wise, with the SYMBOLIC term under the path condition; the expected id strings are written by the harness from the docstring of qubit_to_proto_id with %-formatting; qubits are described by harness tuples, cirq equality of qubits is used only in addition',
    'z3 is trusted; cvc5 cross-check sampling as configured by the framework',
]

BOUNDS = {
    'symbolic reals': f'gate exponents / angles / FSim theta, phi / phases in [-{BOX},{BOX}]; probabilities in [0,1]; durations (ns, ps) in [0,{BOX}]; sweep start / stop / points in [-{BOX},{BOX}]; InternalGate / InternalTag / raw-tag real arguments in [-{BOX},{BOX}]; symbol values for formula comparison in [-2,2]',
    'symbolic integers': 'KeyCondition / BitMaskKeyCondition index: full int32; target_value, bitmask: [0, 2**24]; integer arguments through float32 fields: |n| <= 2**24; int64 lists and constants: |n| <= 2**40 / 2**62; DeviceParameter idx: |idx| <= 2**62 incl. 0; repetitions of run contexts: [0, 2**31-1]; CircuitOperation repetitions: [-3,3] (unitary body) / [0,3]; Linspace length 1..4 (quick) / 1..7 (thorough); FiniteRandomVariable seed int32, length positive int32',
    'menus': {
        'argument lists': 'ints, reals, int+real, bools, strings, mixed tuple, nested, empty list / tuple, string+int',
        'formulas': 'a, a+b, a*b, 2*a, a-b, a**2, b/(a+3), 0.5*a+0.25, 0.1*a+1/3, a*b*c+a, (a+b)*(a-c), a**3-2*b**2, pi*a, -a',
        'sympy conditions': 'a>b, a>=b, a<b, a<=1, a==b, a!=2, a+b>c, and / or / xor / not of relations, 2*a-b<=c*a',
        'sweep nestings': 'product(L,P), zip(L,P), ziplongest(P,L), concat(P,L), product(zip(P,P),P), zip(product(P,P),L), concat(zip,zip), product(const,L), ziplongest(product,P), unit, product(), listsweep; metadata none / DeviceParameter / Metadata',
        'sweepables': 'None, sweep, list of sweeps, dict, ParamResolver, list of dicts, empty resolver; one or per-sweep repetitions; use_float64 on/off',
        'gates with symbolic parameters': 'X/Y/Z/H/CZ Pow (global shift 0 / -0.5), ISwapPow, PhasedXPow, PhasedXZ (two of three exponents symbolic), FSim, WaitGate (1-2 qubits), DepolarizingChannel (1-2 qubits), RandomGateChannel(X/Z Pow), CouplerPulse (two of six fields symbolic), InternalGate',
        'parameter-free gates': 'I, 2-qubit identity, ResetChannel, SYC, WILLOW, MultilevelResetViaResonator, LZSResetViaResonator, LeakageISWAP, three single-qubit Cliffords, measurements with invert masks, X, CZ, FSim with FSimViaModelTag / TwoPulseFSimTag',
        'qubits': 'GridQubit, LineQubit, NamedQubit (3 each) in the gate / tag / control obligations; msgs.qubit_id.*: see "qubit identifiers"',
        'qubit identifiers': 'kinds grid, line, named, coupler of two grid / two line / two named qubits, qudits (refused); 17 name templates next to the id forms (q_<r>_<c>, <r>_<c>_<r>, <r>_, _<r>, q<r>, <r>x, c<r>_<c>, c_<r>_<c>_<r>, <r>.0, empty name, ...); uses: X / wait / measure operations with permuted qubit order, the deprecated Operation.qubits id list, CircuitOperation with a full / partial qubit_map, mixed kinds in one circuit, result messages (find_measurements / results_to_proto / results_from_proto, concrete bits), DeviceSpecification with four qubits, two pairs and one qubit attribute',
        'tags': '13 tag configurations on operations, moments, circuits',
        'classical controls': '10 configurations, 1-3 conditions',
        'CircuitOperation': '11 forms incl. nesting and a shared sub-circuit constant',
        'shared constants': '6 circuit layouts of 3-6 operations, 2 qubit kinds',
        'multi-program / circuit function': 'sequence and mapping of 3 circuits; function returning circuit / mapping / taking **kwargs over a 2-point sweep',
        'sweeps with units': 'Linspace / Points / const, unit pairs (ns,us) (GHz,MHz) (mV,V) (us,us)',
        'device specifications': '3 qubit / pair layouts, 6 gate lists over syc, sqrt_iswap, cz, phased_xz, virtual_zpow, physical_zpow, meas, wait; probes on listed / reversed / unlisted pairs and an outside qubit',
    },
    'qubit coordinates': 'solver-chosen integers, concretised where the id string is built (one path per value): -12..12 plus -2**31-1, -100, 99, 1000, 2**31, 2**63+7 (31 values) for the first coordinate, -2..2 plus -11, 10, 2**40 (8 values) or -1..1 plus -11, 10 (5 values) for the second; derived neighbours (+-1, +100, -13, +25, swapped roles); device specifications: all coordinates >= 0 (row 1..13 plus 99, 100, 1000, 2**31, 2**63+7; col 1..3 plus 10, 11, 2**40; cell (row-1, col-1) reaches 0)',
    'circuit size': '1-6 operations, 1-6 moments, 1-4 qubits',
    'outside': [
        'the upb / C++ protobuf backends and the wire encoding of symbolic values (concrete points and replays go through the pure-Python wire encoding only)',
        'non-zero real arguments of magnitude below 2**-126 or beyond the float32 range; rounding of IEEE doubles (exact real model)',
        'tunits-valued gate arguments: AnalogDetuneQubit, AnalogDetuneCouplerOnly, WaitGateWithUnit, value_with_unit arguments (sweeps with units are covered through the harness model of tunits.Value)',
        'ndarray / bytes / complex arguments (api.v2.ndarrays numeric arrays), CustomArg function_interpolation_data of InternalGate, stimcirq operations, custom op / tag (de)serializers passed to CircuitSerializer',
        'SingleQubitCliffordGate / CliffordTableau with symbolic tableau bits (three concrete gates only); MeasurementGate on qudits',
        'deprecated message forms read by the deserializer only (Operation.qubits other than in msgs.qubit_id.circuit, token_value / token_constant_index, Operation.tags, Circuit.moments, Moment.operations): never produced by the serializer, not generated here',
        'device specifications beyond the stated menus (3 layouts up to 4 qubits, 6 gate lists over 8 GateSpecification kinds): deprecated valid_gate_sets, couplers, cz_pow_gate / fsim_via_model / internal_gate / analog gate kinds, compilation target gatesets, _from_device_information; result messages beyond bit packing (see the bit-packing obligations of C16)',
        'FiniteRandomVariable distributions with symbolic weights; the sampled values themselves (function of the compared fields)',
        'qubit identifiers: NamedQubits whose name has the form of a grid / line / coupler id and couplers of qubits of different kinds or of named qubits with underscores (findings msgs.finding.qubit_id.*: the format cannot represent them), negative coordinates in device specifications (finding), names outside the 17 templates (other scripts, control characters), coordinates outside the enumerated values, np.integer coordinates, symbolic record bits together with symbolic qubit ids',
        'circuits larger than the stated menus; Python-level identity / caching effects; tags or gate arguments that are unhashable (lists inside InternalGate / InternalTag in a circuit: rejected by Python hashing before serialization)',
    ],
}


def main(tier, seed=0, replay=None, only=None, procs=None):
    be = pbsym.backend()
    if be != 'python':
        print(f'HARNESS-ERROR: protobuf backend is {be!r}, not the pure-Python one: symbolic values cannot enter messages (set PROTOCOL_BUFFERS_PYTHON_IMPLEMENTATION=python before protobuf is imported)')
        return 2
    return run_check(PID, tier, 'checks.C16_msgs', SHIMS, LEVEL, ASSUMPTIONS, BOUNDS, seed=seed, replay=replay, only=only, procs=procs)

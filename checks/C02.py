"""C02: measurement outcomes follow the Born rule exactly, incl. feed-forward."""
from __future__ import annotations

import itertools

import numpy as np

from checks.common import BASE_ASSUMPTIONS, CORE_SHIM_MODULES
from oracles import embed as EM
from oracles import gates_doc as D
from symx.explore import Obligation
from symx.run import run_check

PID = 'C02'
SHIMS = CORE_SHIM_MODULES + [
    'cirq.sim.clifford.stabilizer_state_ch_form',
    'cirq.protocols.act_on_protocol',
    'cirq.protocols.has_unitary_protocol',
    'cirq.protocols.decompose_protocol',
    'cirq.protocols.apply_channel_protocol',
    'cirq.protocols.apply_mixture_protocol',
    'cirq.ops.control_values',
    'cirq.ops.measurement_gate',
    'cirq.ops.classically_controlled_operation',
    'cirq.circuits.circuit',
    'cirq.circuits.moment',
    'cirq.qis.states',
    'cirq.sim.sparse_simulator',
    'cirq.sim.simulator_base',
    'cirq.sim.simulator',
    'cirq.sim.state_vector_simulation_state',
    'cirq.sim.simulation_state',
    'cirq.sim.simulation_state_base',
    'cirq.sim.simulation_product_state',
    'cirq.sim.state_vector',
    'cirq.sim.simulation_utils',
    'cirq.sim.state_vector_simulator',
    'cirq.sim.density_matrix_simulator',
    'cirq.sim.density_matrix_simulation_state',
    'cirq.sim.density_matrix_utils',
    'cirq.value.classical_data',
    'cirq.linalg.predicates',
    'cirq.qis.clifford_tableau',
    'cirq.ops.pauli_measurement_gate',
    'cirq.ops.dense_pauli_string',
    'cirq.ops.pauli_string',
]


def worker_setup():
    """np.clip(probs, 0, None) in cirq.sim.simulation_utils: for symbolic probabilities the clip is replaced by
    the ASSUMPTION probs >= 0 (true for |amplitude|^2 sums and for density matrices in the documented domain)"""
    import importlib

    from symx import ctx as C
    from symx import proxy

    class ClipNp(proxy.NpProxy):
        def clip(self, a, a_min=None, a_max=None, **k):
            cx = C._CUR[0]
            if cx is not None and proxy.is_sym(a) and a_min == 0 and a_max is None:
                for e in np.asarray(a, dtype=object).reshape(-1):
                    if hasattr(e, 't') and not e.is_const():
                        cx.assume(e >= 0, check=False)
                return a
            return np.clip(a, a_min, a_max, **k)

    importlib.import_module('cirq.sim.simulation_utils').__dict__['np'] = ClipNp()
    from checks import C13 as _C13

    # the CH-form measurement obligations shared with C13 need its Boolean-array stub
    return ['cirq.sim.simulation_utils.np.clip(probs, 0, None) on symbolic probabilities: identity + assumption probs >= 0'] + list(_C13.worker_setup() or [])


def make_prng(cx):
    """numpy RandomState stand-in handed to the code under test as `seed`: every draw is recorded together
    with the probability vector the code asked for, outcomes are chosen by the explorer (one path each)"""

    class Scripted(np.random.RandomState):
        def __init__(self):
            super().__init__(0)
            self.log = []
            self.n = 0

        def choice(self, a, size=None, replace=True, p=None):
            k = int(a) if not hasattr(a, '__len__') else len(a)
            vals = list(range(k)) if not hasattr(a, '__len__') else list(a)
            reps = 1 if size is None else int(np.prod(size))
            out = []
            for _ in range(reps):
                self.n += 1
                i = cx.choose(f'draw{self.n}', k)
                self.log.append((None if p is None else list(np.asarray(p, dtype=object).reshape(-1)), i))
                out.append(vals[i])
            if size is None:
                return out[0]
            return np.array(out).reshape(size)

        def random(self, size=None):
            raise NotImplementedError('symx: prng.random not scripted in C02')

        def randint(self, low, high=None, size=None, dtype=int):
            hi = low if high is None else high
            lo = 0 if high is None else low
            self.n += 1
            i = cx.choose(f'draw{self.n}', int(hi - lo))
            self.log.append((None, i))
            return lo + i

    return Scripted()


def cj(e):
    return e.conjugate() if hasattr(e, 'conjugate') else np.conj(e)


def re(e):
    return e.real if hasattr(e, 'real') else np.real(e)


def total_weight(psi):
    tot = 0
    for e in np.asarray(psi, dtype=object).reshape(-1):
        tot = tot + e * cj(e)
    return re(tot)


def born(psi, indices, outcome):
    """(unnormalised weight, projected unnormalised tensor) of `outcome` (tuple of bits for `indices`)"""
    shape = psi.shape
    proj = np.empty(shape, dtype=object)
    p = 0
    for idx in itertools.product(*[range(s) for s in shape]):
        if all(idx[i] == o for i, o in zip(indices, outcome)):
            proj[idx] = psi[idx]
            p = p + psi[idx] * cj(psi[idx])
        else:
            proj[idx] = 0
    return re(p), proj


def obligations(tier):
    import cirq

    obs = []
    NQ = 2 if tier == 'quick' else 3

    # ---- A: measure_state_vector / sample_state_vector -----------------------------------------------
    def msv_body(cx, wrong=False):
        from symx.snum import sqrt

        n = NQ
        subsets = [p for k in range(1, n + 1) for p in itertools.permutations(range(n), k)]
        indices = list(subsets[cx.choose('indices', len(subsets))])
        psi = EM.sym_tensor(cx, (2,) * n, 'A')
        prng = make_prng(cx)
        flat_in = psi.reshape(-1).copy()
        bits, out = cirq.measure_state_vector(flat_in, indices, seed=prng)
        pvec, k = prng.log[0]
        outcomes = list(itertools.product((0, 1), repeat=len(indices)))
        tot = total_weight(psi)
        exp_p = [born(psi, indices, o)[0] / tot for o in outcomes]
        if wrong:
            exp_p = exp_p[::-1]
        cx.close(np.array(pvec, dtype=object), np.array(exp_p, dtype=object), label='measure_state_vector: requested probabilities == Born marginals')
        cx.check(list(bits) == list(outcomes[k]), label='measure_state_vector: returned bits are the big-endian digits of the drawn outcome')
        pk, proj = born(psi, indices, outcomes[k])
        pk = pk / tot
        r = sqrt(pk) if cx.mode != 'concrete' else np.sqrt(pk)
        cx.close(np.asarray(out, dtype=object).reshape(-1) * r, proj.reshape(-1), label='measure_state_vector: post state * sqrt(p) == projected state')
        cx.close(flat_in, psi.reshape(-1), label='measure_state_vector: input state unchanged (out=None)')

    obs.append(Obligation('measure_state_vector', msv_body, twin=lambda cx: msv_body(cx, wrong=True), expected=(ZeroDivisionError,), opts={'weight': 5}, desc=f'cirq.measure_state_vector on an ARBITRARY symbolic {NQ}-qubit state, every ordered subset of measured indices, scripted generator: requested probability vector == Born marginals, bits layout, collapsed state == projection / sqrt(p), input untouched'))

    def ssv_body(cx, wrong=False):
        n = NQ
        subsets = [p for k in range(1, n + 1) for p in itertools.permutations(range(n), k)]
        indices = list(subsets[cx.choose('indices', len(subsets))])
        psi = EM.sym_tensor(cx, (2,) * n, 'A')
        prng = make_prng(cx)
        flat_in = psi.reshape(-1).copy()
        reps = 2
        res = cirq.sample_state_vector(flat_in, indices, repetitions=reps, seed=prng)
        outcomes = list(itertools.product((0, 1), repeat=len(indices)))
        tot = total_weight(psi)
        exp_p = [born(psi, indices, o)[0] / tot for o in outcomes]
        cx.check(np.asarray(res).shape == (reps, len(indices)), label='sample_state_vector: shape')
        for r_, (pvec, k) in enumerate(prng.log):
            cx.close(np.array(pvec, dtype=object), np.array(exp_p[::-1] if wrong else exp_p, dtype=object), label='sample_state_vector: requested probabilities == Born marginals')
            cx.check([int(b) for b in np.asarray(res)[r_]] == list(outcomes[k]), label='sample_state_vector: row = digits of the drawn outcome')
        cx.close(flat_in, psi.reshape(-1), label='sample_state_vector: sampling does not change the state')

    obs.append(Obligation('sample_state_vector', ssv_body, twin=lambda cx: ssv_body(cx, wrong=True), expected=(ZeroDivisionError,), opts={'weight': 5}, desc='cirq.sample_state_vector (2 repetitions) on an arbitrary symbolic state: probabilities, row layout, state unchanged'))

    # ---- B: density-matrix measurement -----------------------------------------------------------------
    def mdm_body(cx, wrong=False):
        from symx.snum import sqrt

        n = 2
        subsets = [p for k in range(1, n + 1) for p in itertools.permutations(range(n), k)]
        indices = list(subsets[cx.choose('indices', len(subsets))])
        rho = EM.sym_tensor(cx, (2,) * (2 * n), 'R')
        # documented domain: a density matrix has a real, non-negative diagonal (off-diagonals stay arbitrary)
        for idx in itertools.product((0, 1), repeat=n):
            rho[idx + idx] = cx.real('D' + ''.join(map(str, idx)), 0.0, 1.0) + 0j
        prng = make_prng(cx)
        rin = rho.copy()
        bits, out = cirq.measure_density_matrix(rin, indices, seed=prng)
        pvec, k = prng.log[0]
        outcomes = list(itertools.product((0, 1), repeat=len(indices)))

        def diag_p(o):
            tot = 0
            for idx in itertools.product((0, 1), repeat=n):
                if all(idx[i] == b for i, b in zip(indices, o)):
                    tot = tot + rho[idx + idx]
            return re(tot)

        tr = 0
        for idx in itertools.product((0, 1), repeat=n):
            tr = tr + rho[idx + idx]
        tr = re(tr)
        exp_p = [diag_p(o) / tr for o in outcomes]
        if wrong:
            exp_p = exp_p[::-1]
        cx.close(np.array(pvec, dtype=object), np.array(exp_p, dtype=object), label='measure_density_matrix: requested probabilities == diagonal marginals')
        cx.check(list(bits) == list(outcomes[k]), label='measure_density_matrix: bits')
        proj = np.empty(rho.shape, dtype=object)
        for idx in itertools.product((0, 1), repeat=2 * n):
            l, r_ = idx[:n], idx[n:]
            ok = all(l[i] == b for i, b in zip(indices, outcomes[k])) and all(r_[i] == b for i, b in zip(indices, outcomes[k]))
            proj[idx] = rho[idx] if ok else 0
        cx.close(np.asarray(out, dtype=object).reshape(-1) * (diag_p(outcomes[k]) / tr), proj.reshape(-1), label='measure_density_matrix: post state * p == P rho P')

    obs.append(Obligation('measure_density_matrix', mdm_body, twin=lambda cx: mdm_body(cx, wrong=True), expected=(ZeroDivisionError,), opts={'weight': 6}, desc='cirq.measure_density_matrix on an ARBITRARY symbolic 2-qubit density tensor: probabilities == diagonal marginals, bits, post state == P rho P / p'))

    # ---- C: act_on(measure) with invert mask and confusion map ----------------------------------------------
    def act_body(cx, wrong=False):
        n = 2
        q = cirq.LineQubit.range(n)
        which = cx.choose('kind', 2)
        psi = EM.sym_tensor(cx, (2,) * n, 'A')
        prng = make_prng(cx)
        mqs = [[q[0]], [q[1]], [q[1], q[0]], [q[0], q[1]]][cx.choose('qubits', 4)]
        inv = [(False,), (True,), (True, False), (False, True)][cx.choose('invert', 4)][: len(mqs)]
        if len(inv) < len(mqs):
            inv = inv + (False,) * (len(mqs) - len(inv))
        conf = {}
        use_conf = cx.choose('confusion', 3)  # 0: none, 1: one-index matrix on (0,), 2: JOINT matrix on (1, 0) (two measured qubits)
        c0 = cx.real('c0', 0.0, 1.0)
        c1 = cx.real('c1', 0.0, 1.0)
        J = None
        if use_conf == 1:
            cm = np.empty((2, 2), dtype=object)
            cm[0, 0], cm[0, 1], cm[1, 0], cm[1, 1] = 1 - c0, c0, c1, 1 - c1
            conf = {(0,): cm}
        elif use_conf == 2:
            if len(mqs) < 2:
                cx.assume(False)
            J = np.empty((4, 4), dtype=object if cx.mode != 'concrete' else float)
            for r_ in range(4):
                for c_ in range(4):
                    J[r_, c_] = cx.real(f'j{r_}{c_}', 0.0, 1.0)
            conf = {(1, 0): J}
        if which == 0:
            st = cirq.StateVectorSimulationState(initial_state=psi.copy(), qubits=q, prng=prng, dtype=np.complex128)
        else:
            # density-matrix state built from the (unnormalised) outer product psi psi^dag
            v = psi.reshape(-1)
            rho = np.empty((4, 4), dtype=object)
            for i in range(4):
                for j in range(4):
                    rho[i, j] = v[i] * cj(v[j])
            from symx.proxy import wrap

            rho_t = rho.reshape((2,) * 4)
            # the constructor validates trace 1 / hermiticity / PSD (eigvalsh, LAPACK): build the state object from
            # a basis state and inject the symbolic tensor directly (driver constructs the state, see assumptions)
            st = cirq.DensityMatrixSimulationState(initial_state=0, qubits=q, prng=prng, dtype=np.complex128)
            st._state._density_matrix = wrap(rho_t) if cx.mode != 'concrete' else rho_t.astype(complex)
        op = cirq.MeasurementGate(len(mqs), key='m', invert_mask=inv, confusion_map=conf).on(*mqs)
        # the measurement may reach the simulator through a key rewrite (sub-circuit key maps, repetition ids, key
        # paths): every rewrite must keep the qubits, the invert mask and the confusion map of the measurement
        rk = cx.choose('rekey', 6)
        key_out = 'm'
        if rk == 1:
            op, key_out = cirq.with_measurement_key_mapping(op, {'m': 'n'}), 'n'
        elif rk == 2:
            op, key_out = cirq.with_key_path_prefix(op, ('p',)), 'p:m'
        elif rk == 3:
            op, key_out = cirq.with_rescoped_keys(op, ('r', '0')), 'r:0:m'
        elif rk == 4:
            op, key_out = op.gate.with_key('n2').on(*mqs), 'n2'
        elif rk == 5:
            sub = cirq.CircuitOperation(cirq.FrozenCircuit(op), measurement_key_map={'m': 'k'})
            op, key_out = list(sub.mapped_circuit().all_operations())[0], 'k'
        cirq.act_on(op, st)
        rec = st.log_of_measurement_results[key_out]
        indices = [q.index(x) for x in mqs]
        outcomes = list(itertools.product((0, 1), repeat=len(indices)))
        pvec, k = prng.log[0]
        tot = total_weight(psi)
        exp_p = [born(psi, indices, o)[0] / tot for o in outcomes]
        if wrong:
            exp_p = exp_p[::-1]
        cx.close(np.array(pvec, dtype=object), np.array(exp_p, dtype=object), label='act_on(measure): requested probabilities == Born marginals')
        raw = list(outcomes[k])
        conf_bits = list(raw)
        if use_conf == 2:
            # documented: the matrix acts on the measured qubits with indices (1, 0), row / column = big-endian
            # integer of (bit of index 1, bit of index 0)
            pv2, k2 = prng.log[1]
            row = 2 * raw[1] + raw[0]
            cx.close(np.array(pv2, dtype=object), np.array(list(J[row]), dtype=object), label='act_on(measure): joint confusion draw uses the row of the actual outcome (big-endian over the listed indices)')
            conf_bits[1], conf_bits[0] = (k2 >> 1) & 1, k2 & 1
        elif use_conf:
            # confusion acts on the bit of qubit index 0 of the measured list (key (0,)): second draw
            pv2, k2 = prng.log[1]
            row = [1 - c0, c0] if raw[0] == 0 else [c1, 1 - c1]
            cx.close(np.array(pv2, dtype=object), np.array(row, dtype=object), label='act_on(measure): confusion draw uses the row of the actual outcome')
            conf_bits[0] = k2
        exp_rec = [b ^ int(m) for b, m in zip(conf_bits, inv)]
        cx.check([int(b) for b in rec] == exp_rec, label='act_on(measure): recorded bits = confused outcome xor invert mask')

    obs.append(Obligation('act_on_measure', act_body, twin=lambda cx: act_body(cx, wrong=True), expected=(ZeroDivisionError,), opts={'weight': 8}, desc='cirq.act_on(MeasurementGate(invert_mask, confusion_map), also after each public key rewrite: with_measurement_key_mapping, with_key_path_prefix, with_rescoped_keys, with_key, CircuitOperation key map) on state-vector and density-matrix simulation states with arbitrary symbolic amplitudes and symbolic confusion probabilities: Born probabilities, confusion row, recorded bits'))

    # ---- C2: Pauli-observable measurement: probabilities, record and post-measurement state ---------------------
    PSTR = [('XX', [1, 1]), ('ZZ', [3, 3]), ('XY', [1, 2]), ('YZ', [2, 3]), ('ZX', [3, 1]), ('X', [1]), ('Y', [2]), ('-XZ', [1, 3]), ('-Y', [2])]

    def pauli_meas_body(cx, wrong=False, dm=False):
        from symx.snum import sqrt

        n = 2
        q = cirq.LineQubit.range(n)
        name, letters = PSTR[cx.choose('observable', len(PSTR))]
        sign = -1 if name.startswith('-') else 1
        k = len(letters)
        places = list(itertools.permutations(range(n), k))
        pl = places[cx.choose('place', len(places))]
        PG = {1: cirq.X, 2: cirq.Y, 3: cirq.Z}
        PM = {1: D.PAULI['X'], 2: D.PAULI['Y'], 3: D.PAULI['Z']}
        obs_ = cirq.DensePauliString([PG[l] for l in letters], coefficient=sign)
        gate = cirq.PauliMeasurementGate(obs_, key='m')
        psi = EM.sym_tensor(cx, (2,) * n, 'A')
        prng = make_prng(cx)
        if dm:
            from symx.proxy import wrap

            v = psi.reshape(-1)
            rho = np.empty((4, 4), dtype=object)
            for i in range(4):
                for j in range(4):
                    rho[i, j] = v[i] * cj(v[j])
            rho_t = rho.reshape((2,) * 4)
            st = cirq.DensityMatrixSimulationState(initial_state=0, qubits=q, prng=prng, dtype=np.complex128)
            st._state._density_matrix = wrap(rho_t) if cx.mode != 'concrete' else rho_t.astype(complex)
        else:
            st = cirq.StateVectorSimulationState(initial_state=psi.copy(), qubits=q, prng=prng, dtype=np.complex128)
        cirq.act_on(gate.on(*[q[i] for i in pl]), st)
        rec = [int(b) for b in st.log_of_measurement_results['m']]
        out = st.target_tensor
        # reference: P = sign * tensor of Paulis on `pl`; record r means eigenvalue (-1)^r
        Pm = np.eye(1, dtype=complex)
        for l in letters:
            Pm = np.kron(Pm, PM[l])
        Pm = sign * Pm
        Ppsi = EM.apply_matrix_to_axes(Pm, psi, list(pl))
        r = rec[0]
        proj = (psi + (1 if r == 0 else -1) * Ppsi) * 0.5
        w = total_weight(proj)
        tot = total_weight(psi)
        pvec, kdraw = prng.log[0]
        cx.check(len(prng.log) == 1 and len(rec) == 1, label='pauli measurement: one draw, one recorded bit')
        # the probability requested for the drawn outcome is the Born weight of the recorded eigenvalue
        cx.close(pvec[kdraw], (w / tot) * (0.5 if wrong else 1.0), label=f'PauliMeasurementGate[{name}]: probability of the drawn outcome == <psi|(1 +- P)/2|psi>')
        if dm:
            pv = np.asarray(proj, dtype=object).reshape(-1)
            exp_rho = np.empty((4, 4), dtype=object)
            for i in range(4):
                for j in range(4):
                    exp_rho[i, j] = pv[i] * cj(pv[j])
            cx.close(np.asarray(out, dtype=object).reshape(-1) * (w / tot), exp_rho.reshape(-1), label=f'PauliMeasurementGate[{name}] (density matrix): post state * p == Pi rho Pi')
            return
        nrm = sqrt(w / tot) if cx.mode != 'concrete' else np.sqrt(w / tot)
        cx.close(np.asarray(out, dtype=object).reshape(-1) * nrm, np.asarray(proj, dtype=object).reshape(-1), label=f'PauliMeasurementGate[{name}]: post state * sqrt(p) == (1 +- P)/2 psi')

    obs.append(Obligation('pauli_measurement', pauli_meas_body, twin=lambda cx: pauli_meas_body(cx, wrong=True), expected=(ZeroDivisionError,), opts={'weight': 8, 'decide_timeout_ms': 300}, desc='cirq.act_on(PauliMeasurementGate(observable)) for 9 signed Pauli observables on 1-2 qubits (all placements) on an ARBITRARY symbolic 2-qubit state: probability of the drawn outcome == Born weight of the recorded eigenvalue, post-measurement state == projection onto that eigenspace (so a repeated measurement repeats the outcome)'))

    def pauli_sim_body(cx, wrong=False):
        from symx.snum import sqrt

        q = cirq.LineQubit.range(2)
        name, letters = PSTR[cx.choose('observable', len(PSTR))]
        sign = -1 if name.startswith('-') else 1
        places = list(itertools.permutations(range(2), len(letters)))
        pl = places[cx.choose('place', len(places))]
        PG = {1: cirq.X, 2: cirq.Y, 3: cirq.Z}
        PM = {1: D.PAULI['X'], 2: D.PAULI['Y'], 3: D.PAULI['Z']}
        gate = cirq.PauliMeasurementGate(cirq.DensePauliString([PG[l] for l in letters], coefficient=sign), key='m')
        t = cx.real('t', -4.0, 4.0)
        u = cx.real('u', -4.0, 4.0)
        split = bool(cx.choose('split', 2))
        prng = make_prng(cx)
        # product state prepared by one-qubit rotations: with split_untangled_states the two qubits are separate factors
        circuit = cirq.Circuit(cirq.X(q[0]) ** t, cirq.Y(q[1]) ** u, gate.on(*[q[i] for i in pl]))
        res = cirq.Simulator(seed=prng, dtype=np.complex128, split_untangled_states=split).simulate(circuit, qubit_order=q)
        rec = [int(b) for b in res.measurements['m']]
        psi = np.zeros((2, 2), dtype=object)
        psi[:] = 0
        psi[0, 0] = 1
        psi = EM.apply_matrix_to_axes(D.X(t), psi, [0])
        psi = EM.apply_matrix_to_axes(D.Y(u), psi, [1])
        Pm = np.eye(1, dtype=complex)
        for l in letters:
            Pm = np.kron(Pm, PM[l])
        Pm = sign * Pm
        proj = (psi + (1 if rec[0] == 0 else -1) * EM.apply_matrix_to_axes(Pm, psi, list(pl))) * 0.5
        w = total_weight(proj)
        cx.check(len(prng.log) == 1 and len(rec) == 1, label='Simulator(PauliMeasurementGate): one draw, one recorded bit')
        pvec, kdraw = prng.log[0]
        cx.close(pvec[kdraw], w * (0.5 if wrong else 1.0), label=f'Simulator(PauliMeasurementGate[{name}]): probability of the drawn outcome')
        nrm = sqrt(w) if cx.mode != 'concrete' else np.sqrt(w)
        cx.close(np.asarray(res.final_state_vector, dtype=object).reshape(-1) * nrm, np.asarray(proj, dtype=object).reshape(-1), label=f'Simulator(PauliMeasurementGate[{name}], split={split}): final state * sqrt(p) == (1 +- P)/2 psi (the measured qubits stay entangled)')

    obs.append(Obligation('pauli_measurement.simulator', pauli_sim_body, twin=lambda cx: pauli_sim_body(cx, wrong=True), expected=(ZeroDivisionError,), opts={'weight': 10, 'decide_timeout_ms': 300}, desc='cirq.Simulator(split_untangled_states on/off).simulate(X**t, Y**u, PauliMeasurementGate(observable)) with symbolic rotations: probability of the drawn outcome and the FINAL state vector equal the projection of the documented product state (the product-state container must not factor the measured qubits apart)'))

    obs.append(Obligation('pauli_measurement.dm', lambda cx: pauli_meas_body(cx, dm=True), twin=lambda cx: pauli_meas_body(cx, wrong=True, dm=True), expected=(ZeroDivisionError,), opts={'weight': 10, 'decide_timeout_ms': 300}, desc='the same law on a DensityMatrixSimulationState holding psi psi^dag: probability of the drawn outcome and post-measurement density matrix == Pi rho Pi / p (this path went through cirq.apply_channel, which used to apply the basis-change prefix of the decomposition before giving up)'))

    # the tableau measurement law (Clifford simulators) is decided by C13's obligation; it is part of this property too
    from checks import C13 as _C13

    obs += [o for o in _C13.obligations(tier) if o.name.startswith('tableau.measure') or (o.name.startswith('chform.measure.') and 'simulator' not in o.name)]  # the simulator_* obligations compare with cirq.Simulator under C13's own stub set and stay in C13

    # ---- D: Simulator.run / DensityMatrixSimulator.run: joint distribution of all records --------------------
    def programs():
        """(name, builder(q, t, u) -> list of spec items); spec: ('U', doc_matrix, positions, cirq_op) |
        ('M', key, positions, invert_mask, cirq_op) | ('CU', doc_matrix, positions, key, cirq_op)"""
        def P(name, f):
            return (name, f)

        return [
            P('terminal1', lambda q, t, u: [('U', D.X(t), [0], cirq.X(q[0]) ** t), ('M', 'a', [0], (False,), cirq.measure(q[0], key='a'))]),
            P('terminal2', lambda q, t, u: [('U', D.X(t), [0], cirq.X(q[0]) ** t), ('U', D.CX(1.0), [0, 1], cirq.CNOT(q[0], q[1])), ('U', D.X(u), [1], cirq.X(q[1]) ** u), ('M', 'a', [1, 0], (False, True), cirq.measure(q[1], q[0], key='a', invert_mask=(False, True)))]),
            P('two_keys', lambda q, t, u: [('U', D.H(1.0), [0], cirq.H(q[0])), ('U', D.X(t), [1], cirq.X(q[1]) ** t), ('M', 'a', [0], (False,), cirq.measure(q[0], key='a')), ('M', 'b', [1], (True,), cirq.measure(q[1], key='b', invert_mask=(True,)))]),
            P('feed_forward', lambda q, t, u: [('U', D.X(t), [0], cirq.X(q[0]) ** t), ('M', 'a', [0], (False,), cirq.measure(q[0], key='a')), ('CU', D.X(u), [1], 'a', (cirq.X(q[1]) ** u).with_classical_controls('a')), ('M', 'b', [1], (False,), cirq.measure(q[1], key='b'))]),
            P('mid_then_gate', lambda q, t, u: [('U', D.X(t), [0], cirq.X(q[0]) ** t), ('M', 'a', [0], (False,), cirq.measure(q[0], key='a')), ('U', D.H(1.0), [0], cirq.H(q[0])), ('U', D.CX(1.0), [0, 1], cirq.CNOT(q[0], q[1])), ('M', 'b', [0, 1], (False, False), cirq.measure(q[0], q[1], key='b'))]),
            P('repeated_key', lambda q, t, u: [('U', D.X(t), [0], cirq.X(q[0]) ** t), ('M', 'a', [0], (False,), cirq.measure(q[0], key='a')), ('U', D.X(u), [0], cirq.X(q[0]) ** u), ('M', 'a', [0], (False,), cirq.measure(q[0], key='a'))]),
        ]

    PROGS = [p_ for p_ in programs() if p_[0] != 'mid_then_gate']

    def run_body(cx, wrong=False, pi_=0):
        q = cirq.LineQubit.range(2)
        t = cx.real('t', -4.0, 4.0)
        u = cx.real('u', -4.0, 4.0)
        name, f = PROGS[pi_]
        spec = f(q, t, u)
        circuit = cirq.Circuit()
        for it in spec:
            circuit.append(it[-1], strategy=cirq.InsertStrategy.NEW)
        simk = cx.choose('simulator', 2)
        reps = 1 + (cx.choose('reps', 2) if name != 'repeated_key' else 0)
        prng = make_prng(cx)
        sim = cirq.Simulator(seed=prng, dtype=np.complex128) if simk == 0 else cirq.DensityMatrixSimulator(seed=prng, dtype=np.complex128)
        res = sim.run(circuit, repetitions=reps)
        # probability of this path = product of the probabilities the code requested for the outcomes drawn
        ppath = 1
        for pvec, k in prng.log:
            ppath = ppath * pvec[k]
        # reference: sequential projective measurement on the documented evolution, for the RECORDED outcomes
        pref = 1
        for r_ in range(reps):
            psi = np.zeros((2, 2), dtype=object)
            psi[:] = 0
            psi[0, 0] = 1
            seen = {}
            for it in spec:
                if it[0] == 'U':
                    psi = EM.apply_matrix_to_axes(it[1], psi, it[2])
                elif it[0] == 'CU':
                    key = it[3]
                    last = seen[key][-1]
                    if any(last):
                        psi = EM.apply_matrix_to_axes(it[1], psi, it[2])
                else:
                    _, key, pos, inv, _op = it
                    inst = len(seen.get(key, []))
                    rec = [int(b) for b in res.records[key][r_][inst]]
                    raw = tuple(b ^ int(m) for b, m in zip(rec, inv))
                    p, psi = born(psi, pos, raw)
                    seen.setdefault(key, []).append(rec)
            nrm = 0
            for e in psi.reshape(-1):
                nrm = nrm + e * cj(e)
            pref = pref * re(nrm)
        if wrong:
            pref = pref * 0.5
        cx.close(ppath, pref, label=f'run[{name}]: product of requested outcome probabilities == Born probability of the recorded results')

    # ---- D2: terminal-measurement sampling fast path with BOTH a confusion map and an invert mask ------------------
    # documented (MeasurementGate): the confusion map is "applied before invert_mask if both are provided"
    def run_confusion_body(cx, wrong=False):
        q = cirq.LineQubit.range(2)
        t = cx.real('t', -4.0, 4.0)
        c0 = cx.real('c0', 0.0, 1.0)
        c1 = cx.real('c1', 0.0, 1.0)
        inv = [(False, False), (False, True), (True, False), (True, True)][cx.choose('invert', 4)]
        cm = np.empty((2, 2), dtype=object if cx.mode != 'concrete' else float)
        cm[0, 0], cm[0, 1], cm[1, 0], cm[1, 1] = 1 - c0, c0, c1, 1 - c1
        # measured order (q1, q0); index 1 of the confusion map is q0, the rotated qubit
        circuit = cirq.Circuit(cirq.X(q[0]) ** t, cirq.measure(q[1], q[0], key='a', invert_mask=inv, confusion_map={(1,): cm}))
        simk = cx.choose('simulator', 2)
        prng = make_prng(cx)
        # split_untangled_states=False: one joint sampling draw over (q1, q0) instead of one draw per factor
        sim = cirq.Simulator(seed=prng, dtype=np.complex128, split_untangled_states=False) if simk == 0 else cirq.DensityMatrixSimulator(seed=prng, dtype=np.complex128, split_untangled_states=False)
        res = sim.run(circuit, repetitions=1)
        rec = [int(b) for b in res.records['a'][0][0]]
        cx.check(len(prng.log) == 2, label='run(terminal, confusion+invert): one sampling draw and one confusion draw')
        if len(prng.log) != 2:
            return
        (pv1, k1), (pv2, k2) = prng.log
        raw = list(itertools.product((0, 1), repeat=2))[k1]  # (q1, q0) big endian
        psi = np.zeros((2, 2), dtype=object)
        psi[:] = 0
        psi[0, 0] = 1
        psi = EM.apply_matrix_to_axes(D.X(t), psi, [0])
        exp_p = [born(psi, [1, 0], o)[0] for o in itertools.product((0, 1), repeat=2)]
        cx.close(np.array(pv1, dtype=object), np.array(exp_p, dtype=object), label='run(terminal, confusion+invert): sampling probabilities == Born marginals')
        row = [1 - c0, c0] if raw[1] == 0 else [c1, 1 - c1]
        if wrong:
            row = row[::-1]
        cx.close(np.array(pv2, dtype=object), np.array(row, dtype=object), label='run(terminal, confusion+invert): confusion draw uses the row of the ACTUAL outcome (confusion before invert mask)')
        cx.check(rec == [raw[0] ^ int(inv[0]), k2 ^ int(inv[1])], label='run(terminal, confusion+invert): record = confused outcome xor invert mask')

    obs.append(Obligation('run_terminal.confusion_invert', run_confusion_body, twin=lambda cx: run_confusion_body(cx, wrong=True), expected=(ZeroDivisionError,), opts={'weight': 8}, desc='Simulator.run / DensityMatrixSimulator.run on a circuit whose only measurement is terminal (sampling fast path, sample_measurement_ops) and has BOTH a confusion map (symbolic probabilities) and an invert mask (split_untangled_states=False so that the sampling draw is joint): the confusion row is that of the actual outcome and the invert mask is applied afterwards, as documented and as the mid-circuit path (act_on_measure obligation) does'))

    for pi_, (pname, _f) in enumerate(PROGS):
        obs.append(Obligation(f'run_joint_distribution.{pname}', lambda cx, pi_=pi_: run_body(cx, pi_=pi_), twin=lambda cx, pi_=pi_: run_body(cx, wrong=True, pi_=pi_), expected=(ZeroDivisionError,), opts={'weight': 20, 'max_paths': 100000}, desc='Simulator.run and DensityMatrixSimulator.run (1-2 repetitions, scripted generator, every outcome branch) with symbolic rotations: on every path the product of the probabilities the simulator requested for the drawn outcomes equals the Born-rule probability of the RECORDED results computed by sequential projection on the documented evolution (terminal sampling fast path, mid-circuit measurement, invert masks, repeated key, classically controlled gate)'))
    return obs


LEVEL = (
    'Bounded symbolic execution of the real measurement code with a SCRIPTED random generator, SMT-decided: amplitudes / density entries, gate '
    'parameters and confusion probabilities are symbolic; every random draw is a path (the explorer enumerates outcomes) and the probability vector the '
    'code asked for is recorded as a symbolic expression. z3 decides that each requested vector equals the Born marginals, that collapsed states equal '
    'projected states, that recorded bits have the documented layout (invert mask, confusion map), and that for whole runs the product of requested '
    'probabilities equals the quantum-mechanical probability of the recorded results - exact probabilities, no statistics.'
)


def main(tier, seed=0, replay=None, only=None, procs=None):
    bounds = {
        'qubits': '2 (quick) / 3 (thorough) for measure/sample_state_vector; 2 elsewhere',
        'programs': 5,
        'repetitions': '1..2',
        'amplitude_box': [-1, 1],
        'rotation_box': [-4, 4],
        'pauli_measurement': '9 signed observables on <=2 qubits, arbitrary symbolic state',
        'pauli_measurement.dm': 'same, density-matrix simulation state (rank-1 symbolic rho)',
        'clifford': 'CliffordTableau._measure from an arbitrary valid 2-qubit tableau (obligation shared with C13)',
        'outside': ['programs that measure, apply H + CNOT and measure two qubits again (mid_then_gate: the NRA equality of the probability products does not finish; left out, not claimed)', 'statistics of numpy generator itself', 'CH-form measurement beyond 2 qubits (chform.measure.* obligations shared with C13)', 'qudit measurements', 'complex64', 'more than 2 repetitions', 'sample_density_matrix'],
    }
    return run_check(PID, tier, 'checks.C02', SHIMS, LEVEL, BASE_ASSUMPTIONS, bounds, seed=seed, replay=replay, only=only, procs=procs)

"""C03: every library gate has the matrix its documentation defines."""
from __future__ import annotations

import math

import numpy as np

from checks.common import BASE_ASSUMPTIONS, CORE_SHIM_MODULES, TEST_VALUES, perturb, unitary_ob
from oracles import gates_doc as D
from symx.explore import Obligation
from symx.run import run_check
from symx.snum import SNum

PID = 'C03'
E = 4.0  # exponent box
S = 1.0  # global shift box
A = 7.0  # radian box


def obligations(tier):
    import cirq
    import cirq_google
    import cirq_ionq

    E_ = E if tier == 'quick' else 8.0
    A_ = A if tier == 'quick' else 13.0
    t = ('t', -E_, E_)
    s = ('s', -S, S)
    obs = []

    def eig(name, cls, doc):
        obs.append(unitary_ob(f'eigen.{name}', [t, s], lambda t, s: cls(exponent=t, global_shift=s), doc, desc=f'cirq.unitary({name}(exponent=t, global_shift=s)) vs documented closed form'))
        obs.append(unitary_ob(f'eigen.{name}.pow', [t], lambda t, _c=cls: _c() ** t, lambda t, _d=doc: _d(t), desc=f'cirq.unitary({name}()**t) vs documented closed form'))

    eig('XPowGate', cirq.XPowGate, D.X)
    eig('YPowGate', cirq.YPowGate, D.Y)
    eig('ZPowGate', cirq.ZPowGate, D.Z)
    eig('HPowGate', cirq.HPowGate, D.H)
    eig('CZPowGate', cirq.CZPowGate, D.CZ)
    eig('CXPowGate', cirq.CXPowGate, D.CX)
    eig('CYPowGate', cirq.CYPowGate, D.CY)
    eig('SwapPowGate', cirq.SwapPowGate, D.SWAP)
    eig('ISwapPowGate', cirq.ISwapPowGate, D.ISWAP)
    eig('XXPowGate', cirq.XXPowGate, D.XX)
    eig('YYPowGate', cirq.YYPowGate, D.YY)
    eig('ZZPowGate', cirq.ZZPowGate, D.ZZ)
    eig('CCZPowGate', cirq.CCZPowGate, D.CCZ)
    eig('CCXPowGate', cirq.CCXPowGate, D.CCX)
    if hasattr(cirq, 'CCYPowGate'):
        eig('CCYPowGate', cirq.CCYPowGate, D.CCY)

    # rotation constructors (radians)
    th = ('theta', -A_, A_)
    for nm, f, d in (('rx', cirq.rx, D.rx), ('ry', cirq.ry, D.ry), ('rz', cirq.rz, D.rz), ('cphase', cirq.cphase, D.cphase), ('riswap', cirq.riswap, D.riswap), ('givens', cirq.givens, D.givens), ('ms', cirq.ms, D.ms)):
        obs.append(unitary_ob(f'rot.{nm}', [th], lambda theta, _f=f: _f(theta), lambda theta, _d=d: _d(theta), desc=f'cirq.unitary(cirq.{nm}(theta)) vs exp(-i theta P/2)-style definition'))
    obs.append(unitary_ob('rot.Rx.class', [th], lambda theta: cirq.Rx(rads=theta), D.rx))
    obs.append(unitary_ob('rot.Ry.class', [th], lambda theta: cirq.Ry(rads=theta), D.ry))
    obs.append(unitary_ob('rot.Rz.class', [th], lambda theta: cirq.Rz(rads=theta), D.rz))

    # phased gates
    p = ('p', -2.0, 2.0)
    obs.append(unitary_ob('PhasedXPowGate', [t, p, s], lambda t, p, s: cirq.PhasedXPowGate(exponent=t, phase_exponent=p, global_shift=s), D.phased_x, desc='Z^p X^t Z^-p'))
    obs.append(unitary_ob('PhasedXZGate', [('x', -E_, E_), ('z', -E_, E_), ('a', -E_, E_)], lambda x, z, a: cirq.PhasedXZGate(x_exponent=x, z_exponent=z, axis_phase_exponent=a), D.phased_xz, desc='documented matrix of PhasedXZGate'))
    obs.append(unitary_ob('PhasedISwapPowGate', [p, t, s], lambda p, t, s: cirq.PhasedISwapPowGate(phase_exponent=p, exponent=t, global_shift=s), D.phased_iswap))
    # fsim family
    obs.append(unitary_ob('FSimGate', [th, ('phi', -A_, A_)], lambda theta, phi: cirq.FSimGate(theta, phi), D.fsim))
    obs.append(
        unitary_ob(
            'PhasedFSimGate',
            [th, ('zeta', -A_, A_), ('chi', -A_, A_), ('gamma', -A_, A_), ('phi', -A_, A_)],
            lambda theta, zeta, chi, gamma, phi: cirq.PhasedFSimGate(theta, zeta, chi, gamma, phi),
            D.phased_fsim,
        )
    )
    # pauli interaction: 36 finite configurations x symbolic exponent/shift
    PA = [cirq.X, cirq.Y, cirq.Z]
    PN = ['X', 'Y', 'Z']
    obs.append(
        unitary_ob(
            'PauliInteractionGate',
            [t],
            lambda t, p0, i0, p1, i1: cirq.PauliInteractionGate(PA[p0], bool(i0), PA[p1], bool(i1), exponent=t),
            lambda t, p0, i0, p1, i1: D.pauli_interaction(PN[p0], bool(i0), PN[p1], bool(i1), t),
            choices=[('p0', 3), ('i0', 2), ('p1', 3), ('i1', 2)],
        )
    )
    # global phase
    obs.append(unitary_ob('GlobalPhaseGate', [t], lambda t: cirq.GlobalPhaseGate(D.ph(t)), lambda t: D.global_phase(D.ph(t))))
    obs.append(unitary_ob('global_phase.from_phase_and_exponent', [t, p], lambda t, p: cirq.ops.global_phase_op.from_phase_and_exponent(p, t), lambda t, p: D.global_phase(D.ph(p * t)), desc='exp(i pi half_turns*exponent)'))

    # diagonal gates
    def diag_params(n):
        return [(f'a{i}', -A_, A_) for i in range(n)]

    obs.append(unitary_ob('DiagonalGate.1q', diag_params(2), lambda **k: cirq.DiagonalGate([k[f'a{i}'] for i in range(2)]), lambda *a: D.diagonal(list(a))))
    obs.append(unitary_ob('DiagonalGate.2q', diag_params(4), lambda **k: cirq.DiagonalGate([k[f'a{i}'] for i in range(4)]), lambda *a: D.diagonal(list(a))))
    obs.append(unitary_ob('TwoQubitDiagonalGate', diag_params(4), lambda **k: cirq.TwoQubitDiagonalGate([k[f'a{i}'] for i in range(4)]), lambda *a: D.diagonal(list(a))))
    obs.append(unitary_ob('ThreeQubitDiagonalGate', diag_params(8), lambda **k: cirq.ThreeQubitDiagonalGate([k[f'a{i}'] for i in range(8)]), lambda *a: D.diagonal(list(a))))
    for n in (1, 2, 3):
        obs.append(unitary_ob(f'PhaseGradientGate.n{n}', [t], lambda t, _n=n: cirq.PhaseGradientGate(num_qubits=_n, exponent=t), lambda t, _n=n: D.phase_gradient(_n, t)))

    # IonQ native gates
    ph_ = ('phi', -2.0, 2.0)
    obs.append(unitary_ob('ionq.GPIGate', [ph_], lambda phi: cirq_ionq.GPIGate(phi=phi), D.gpi))
    obs.append(unitary_ob('ionq.GPI2Gate', [ph_], lambda phi: cirq_ionq.GPI2Gate(phi=phi), D.gpi2))
    obs.append(unitary_ob('ionq.MSGate', [('phi0', -2.0, 2.0), ('phi1', -2.0, 2.0), ('theta', -1.0, 1.0)], lambda phi0, phi1, theta: cirq_ionq.MSGate(phi0=phi0, phi1=phi1, theta=theta), D.ionq_ms))
    obs.append(unitary_ob('ionq.ZZGate', [('theta', -2.0, 2.0)], lambda theta: cirq_ionq.ZZGate(theta=theta), D.ionq_zz))

    # named constants vs their families at the documented parameter values (no symbol: flagged concrete)
    consts = [
        ('X', lambda: cirq.X, lambda: D.X(1.0)),
        ('Y', lambda: cirq.Y, lambda: D.Y(1.0)),
        ('Z', lambda: cirq.Z, lambda: D.Z(1.0)),
        ('H', lambda: cirq.H, lambda: D.H(1.0)),
        ('S', lambda: cirq.S, lambda: D.Z(0.5)),
        ('T', lambda: cirq.T, lambda: D.Z(0.25)),
        ('CZ', lambda: cirq.CZ, lambda: D.CZ(1.0)),
        ('CNOT', lambda: cirq.CNOT, lambda: D.CX(1.0)),
        ('CX', lambda: cirq.CX, lambda: D.CX(1.0)),
        ('SWAP', lambda: cirq.SWAP, lambda: D.SWAP(1.0)),
        ('ISWAP', lambda: cirq.ISWAP, lambda: D.ISWAP(1.0)),
        ('SQRT_ISWAP', lambda: cirq.SQRT_ISWAP, lambda: D.ISWAP(0.5)),
        ('SQRT_ISWAP_INV', lambda: cirq.SQRT_ISWAP_INV, lambda: D.ISWAP(-0.5)),
        ('XX', lambda: cirq.XX, lambda: D.XX(1.0)),
        ('YY', lambda: cirq.YY, lambda: D.YY(1.0)),
        ('ZZ', lambda: cirq.ZZ, lambda: D.ZZ(1.0)),
        ('CCZ', lambda: cirq.CCZ, lambda: D.CCZ(1.0)),
        ('CCX', lambda: cirq.CCX, lambda: D.CCX(1.0)),
        ('TOFFOLI', lambda: cirq.TOFFOLI, lambda: D.CCX(1.0)),
        ('CSWAP', lambda: cirq.CSWAP, lambda: D.CSWAP()),
        ('FREDKIN', lambda: cirq.FREDKIN, lambda: D.CSWAP()),
        ('SYC', lambda: cirq_google.SYC, lambda: D.fsim(math.pi / 2, math.pi / 6)),
        ('WILLOW', lambda: cirq_google.WILLOW, lambda: D.fsim(math.pi / 2, math.pi / 9)),
        ('ionq.GPI', lambda: cirq_ionq.ionq_native_gates.GPI, lambda: D.gpi(0.0)),
        ('ionq.GPI2', lambda: cirq_ionq.ionq_native_gates.GPI2, lambda: D.gpi2(0.0)),
        ('ionq.MS', lambda: cirq_ionq.ionq_native_gates.MS, lambda: D.ionq_ms(0.0, 0.0, 0.25)),
        ('I', lambda: cirq.I, lambda: np.eye(2)),
        ('qft2', lambda: cirq.QuantumFourierTransformGate(2), lambda: D.qft(2)),
        ('qft3', lambda: cirq.QuantumFourierTransformGate(3), lambda: D.qft(3)),
        ('qft3.norev', lambda: cirq.QuantumFourierTransformGate(3, without_reverse=True), lambda: D.qft(3, True)),
        ('identity3', lambda: cirq.IdentityGate(3), lambda: np.eye(8)),
        ('identity.qutrit', lambda: cirq.IdentityGate(qid_shape=(3,)), lambda: np.eye(3)),
    ]
    for nm, g, d in consts:
        obs.append(unitary_ob(f'const.{nm}', [], lambda _g=g: _g(), lambda _d=d: _d(), desc='named constant vs documented matrix (concrete: no symbolic parameter)'))

    # ---- BooleanHamiltonianGate: diagonal phases exp(-i t/2 sum_k f_k(x)) up to a global phase ---------------------
    BH_MENU = [
        (['x0'], ['x0']),
        (['x0'], ['~x0']),
        (['x0', 'x1'], ['x0 & x1']),
        (['x0', 'x1'], ['x0 ^ x1']),
        (['x0', 'x1'], ['x0 | x1', 'x0']),
        (['x0', 'x1'], ['x0', 'x0']),
        (['x0', 'x1', 'x2'], ['x0 & x1', 'x0 & x2']),
        (['x0', 'x1', 'x2'], ['x0 ^ x1', 'x1 ^ x2', 'x0 ^ x2']),
        (['x0', 'x1', 'x2'], ['(x0 | ~x1) & x2', 'x1']),
        (['a', 'b', 'c'], ['a & b & c', 'a ^ c', '~b']),
    ]

    def bh_truth(expr, env):
        """independent evaluation of the Boolean expression (Python's own parser, bit operators on 0/1)"""
        import ast

        def ev(n):
            if isinstance(n, ast.Expression):
                return ev(n.body)
            if isinstance(n, ast.Name):
                return env[n.id]
            if isinstance(n, ast.UnaryOp) and isinstance(n.op, ast.Invert):
                return 1 - ev(n.operand)
            if isinstance(n, ast.BinOp):
                a, b = ev(n.left), ev(n.right)
                return {ast.BitAnd: a & b, ast.BitOr: a | b, ast.BitXor: a ^ b}[type(n.op)]
            raise ValueError(n)

        return ev(ast.parse(expr, mode='eval'))

    def bh_body(cx, wrong=False):
        import itertools as it_

        tt = cx.real('t', -A_, A_)
        names, exprs = BH_MENU[cx.choose('expressions', len(BH_MENU))]
        g = cirq.BooleanHamiltonianGate(names, exprs, tt)
        u = np.asarray(cirq.unitary(g), dtype=object)
        n = len(names)
        F = []
        for bits in it_.product((0, 1), repeat=n):
            env = dict(zip(names, bits))
            F.append(sum(bh_truth(e, env) for e in exprs))
        # up to a global phase: compare u[x, x] * conj(u[0, 0]) with exp(-i t/2 (F(x) - F(0))), off-diagonal 0, |u00| = 1
        got = np.empty((2**n, 2**n), dtype=object)
        exp = np.zeros((2**n, 2**n), dtype=object)
        c00 = u[0, 0].conjugate() if hasattr(u[0, 0], 'conjugate') else np.conj(u[0, 0])
        for i in range(2**n):
            for j in range(2**n):
                got[i, j] = u[i, j] * c00
            exp[i, i] = D.phr(-(F[i] - F[0]) * tt / 2 * (-1 if wrong else 1)) if (F[i] - F[0]) else 1
        cx.close(got, exp, label='BooleanHamiltonianGate: diagonal phases exp(-i t/2 sum_k f_k(x)) relative to |0..0>')

    obs.append(Obligation('BooleanHamiltonianGate', bh_body, twin=lambda cx: bh_body(cx, wrong=True), desc='cirq.unitary(BooleanHamiltonianGate(names, expressions, t)) for 10 expression lists (shared Z-terms, repeated clauses, negation, 1-3 variables) and SYMBOLIC angle t: diagonal with relative phases exp(-i t/2 (F(x) - F(0))), F = number of true expressions (independent evaluator)'))

    # ---- MatrixGate: the defining matrix, and it stays the defining matrix ------------------------------------------
    def mg_body(cx, wrong=False):
        from oracles import embed as EM_

        k = 1 + cx.choose('qubits', 2)
        M = EM_.sym_tensor(cx, (2**k, 2**k), 'm')
        if cx.mode == 'concrete':
            M = np.asarray(M, dtype=complex)
        g = cirq.MatrixGate(M.copy(), unitary_check=False)  # the gate gets its own array: M stays pristine
        u1 = cirq.unitary(g)
        cx.close(u1, M * (2 if wrong else 1), label='MatrixGate: cirq.unitary == defining matrix')
        # the returned array belongs to the caller: editing it must not change the gate (same for the operation)
        u1[0, 0] = u1[0, 0] + 1
        u2 = cirq.unitary(g.on(*cirq.LineQubit.range(k)))
        cx.close(u2, M, label='MatrixGate: matrix unchanged after the caller edited a returned array')
        u2[0, 1] = u2[0, 1] + 1
        cx.close(cirq.unitary(g), M, label='MatrixGate: matrix unchanged after the caller edited the array returned for the operation')

    obs.append(Obligation('MatrixGate', mg_body, twin=lambda cx: mg_body(cx, wrong=True), desc='cirq.unitary(MatrixGate(M)) for a fully SYMBOLIC 2x2 / 4x4 matrix M (unitary_check=False: the LAPACK-free constructor path): equals M, and still equals M after the caller modified previously returned arrays'))

    # ---- channels ---------------------------------------------------------------------------
    P01 = 1.0

    def kraus_ob(name, params, build, doc_kraus, assume=None):
        def body(cx, wrong=False):
            kw = {n: cx.real(n, lo, hi) for n, lo, hi in params}
            if assume:
                assume(cx, **kw)
            ks = cirq.kraus(build(**kw))
            dk = doc_kraus(**kw)
            cx.check(len(ks) == len(dk), label=f'{name}.count')
            for i, (k, d) in enumerate(zip(ks, dk)):
                cx.close(k, perturb(d) if (wrong and i == 0) else d, label=f'{name}.K{i}')
            # trace preservation  sum K^dag K = I
            tot = None
            for k in ks:
                k = np.asarray(k, dtype=object)
                term = _dag(k) @ k
                tot = term if tot is None else tot + term
            cx.close(tot, np.eye(len(ks[0])), label=f'{name}.trace_preserving')

        pts = [{n: v for (n, lo, hi), v in zip(params, vals)} for vals in ((0.0,) * 3, (0.25, 0.5, 0.1), (1.0, 1.0, 0.0), (0.3, 0.7, 0.2), (0.9, 0.05, 0.01))]
        return Obligation(f'channel.{name}', body, twin=lambda cx: body(cx, wrong=True), points=pts, desc='cirq.kraus(channel(params)) vs documented Kraus operators; sum K^dag K = I')

    def mixture_ob(name, params, build, doc_mix, assume=None):
        def body(cx, wrong=False):
            kw = {n: cx.real(n, lo, hi) for n, lo, hi in params}
            if assume:
                assume(cx, **kw)
            mx = cirq.mixture(build(**kw))
            dm = doc_mix(**kw)
            cx.check(len(mx) == len(dm), label=f'{name}.count')
            tot = 0
            for i, ((pr, u), (dp, du)) in enumerate(zip(mx, dm)):
                cx.close(pr, (dp + 0.01) if (wrong and i == 0) else dp, label=f'{name}.p{i}')
                cx.close(u, du, label=f'{name}.U{i}')
                tot = tot + pr
            cx.close(tot, 1.0, label=f'{name}.sum_p')

        pts = [{n: v for (n, lo, hi), v in zip(params, vals)} for vals in ((0.0,) * 3, (0.25, 0.5, 0.1), (0.3, 0.3, 0.3), (0.05, 0.7, 0.2))]
        return Obligation(f'channel.{name}', body, twin=lambda cx: body(cx, wrong=True), points=pts, desc='cirq.mixture(channel(params)) vs documented probabilities/unitaries; sum p = 1')

    g = ('g', 0.0, P01)
    pp = ('p', 0.0, P01)
    obs.append(kraus_ob('amplitude_damp', [g], lambda g: cirq.amplitude_damp(g), D.kraus_amplitude_damp))
    obs.append(kraus_ob('phase_damp', [g], lambda g: cirq.phase_damp(g), D.kraus_phase_damp))
    obs.append(kraus_ob('generalized_amplitude_damp', [pp, g], lambda p, g: cirq.generalized_amplitude_damp(p, g), D.kraus_generalized_amplitude_damp))
    obs.append(mixture_ob('depolarize', [pp], lambda p: cirq.depolarize(p), D.mixture_depolarize, assume=lambda cx, p: cx.assume(p <= 0.75) if False else None))
    obs.append(mixture_ob('bit_flip', [pp], lambda p: cirq.bit_flip(p), D.mixture_bit_flip))
    obs.append(mixture_ob('phase_flip', [pp], lambda p: cirq.phase_flip(p), D.mixture_phase_flip))
    obs.append(
        mixture_ob(
            'asymmetric_depolarize',
            [('px', 0.0, 1.0), ('py', 0.0, 1.0), ('pz', 0.0, 1.0)],
            lambda px, py, pz: cirq.asymmetric_depolarize(px, py, pz),
            D.mixture_asymmetric_depolarize,
            assume=lambda cx, px, py, pz: cx.assume(px + py + pz <= 1.0),
        )
    )
    obs.append(unitary_ob('channel.reset.kraus', [], lambda: cirq.ResetChannel(), lambda: np.array(D.kraus_reset(2)), getter=lambda g: np.array(cirq.kraus(g))))
    obs.append(unitary_ob('channel.reset.qutrit.kraus', [], lambda: cirq.ResetChannel(3), lambda: np.array(D.kraus_reset(3)), getter=lambda g: np.array(cirq.kraus(g))))
    return obs


def _dag(k):
    out = np.empty((k.shape[1], k.shape[0]), dtype=object)
    for i in range(k.shape[0]):
        for j in range(k.shape[1]):
            e = k[i, j]
            out[j, i] = e.conjugate() if hasattr(e, 'conjugate') else e
    return out


LEVEL = (
    'Bounded symbolic execution of the real gate code: each gate family is constructed with SYMBOLIC real parameters (exponent, global shift, '
    'angles, phases, probabilities) which flow through the real EigenGate._unitary_/_eigen_components, closed-form _unitary_/_kraus_/_mixture_ '
    'and canonicalisation code; the resulting matrix terms are compared entry-wise with the formula transcribed from the gate docstring, and z3 '
    'decides |difference| <= 1e-7 for ALL parameter values in the boxes. Counterexamples are replayed on the unmodified code.'
)


def main(tier, seed=0, replay=None, only=None, procs=None):
    bounds = {
        'exponent_box': [-E, E] if tier == 'quick' else [-8, 8],
        'global_shift_box': [-S, S],
        'radian_box': [-A, A] if tier == 'quick' else [-13, 13],
        'probabilities': [0, 1],
        'qudit_dimension': '<= 3 (reset, identity)',
        'register_size_concrete_gates': '<= 3 qubits (QFT, PhaseGradient)',
        'tolerance': 1e-7,
        'outside': ['UniformSuperpositionGate', 'StatePreparationChannel', 'MatrixGate constructed with unitary_check=True (unitarity validation via LAPACK)', 'BooleanHamiltonianGate beyond the 10 listed expression lists', 'complex64'],
    }
    return run_check(PID, tier, 'checks.C03', CORE_SHIM_MODULES + ['cirq.qis.states', 'cirq.ops.boolean_hamiltonian', 'cirq.protocols.decompose_protocol'], LEVEL, BASE_ASSUMPTIONS, bounds, seed=seed, replay=replay, only=only, procs=procs)

"""C15: analytical decompositions rebuild their input -- the closed-form kernels.

Claimed (symbolic interaction coefficients x, y, z in radians, all real values in the boxes):
  * cirq.kak_canonicalize_vector: canonical-form predicate on the returned coefficients (with the
    documented atol rule at the pi/4 face) and  g (a0 (x) a1) exp(i(x'XX+y'YY+z'ZZ)) (b0 (x) b1)
    = exp(i(xXX+yYY+zZZ)), through the returned fields and through KakDecomposition._unitary_;
  * two-qubit-to-CZ synthesis kernels (_xx/_xx_yy/_xx_yy_zz_interaction_via_full_czs, _parity_interaction,
    _non_local_part with allow_partial_czs in {True, False}, _kak_decomposition_to_operations with concrete
    local factors) and two-qubit-to-MS kernels: the emitted operations multiply (documented gate matrices,
    harness embedding) to exp(i(xXX+yYY+zZZ)) up to global phase; two-qubit gate counts per path;
  * the chain kak_canonicalize_vector -> _kak_decomposition_to_operations for arbitrary coefficients.
Outside: everything that needs eigendecomposition / SVD / np.angle of a symbolic matrix.
"""
from __future__ import annotations

import itertools
import math

import numpy as np

from checks.common import BASE_ASSUMPTIONS, CORE_SHIM_MODULES
from oracles import gates_doc as D
from symx.explore import Obligation
from symx.run import run_check
from symx.snum import SNum, cos, exp, sin

PID = 'C15'
PI = math.pi
Q = PI / 4
SHIMS = CORE_SHIM_MODULES + [
    'cirq.linalg.decompositions',
    'cirq.transformers.analytical_decompositions.two_qubit_to_cz',
    'cirq.transformers.analytical_decompositions.two_qubit_to_ms',
]

ATOL = 1e-8  # default atol of the synthesis routines
# tolerance of the synthesis products: every axis whose strength is within atol of 0 is dropped (error
# <= atol per axis) and within atol of +-pi/4 is rounded to a full CZ (error <= 4*atol per axis): the
# product may deviate from exp(i(xXX+yYY+zZZ)) by 12*atol; 25*atol leaves a factor two of head room
KTOL = 25 * ATOL

_X = np.array([[0, 1], [1, 0]], dtype=complex)
_Y = np.array([[0, -1j], [1j, 0]], dtype=complex)
_Z = np.array([[1, 0], [0, -1]], dtype=complex)
_PP = [np.kron(_X, _X), np.kron(_Y, _Y), np.kron(_Z, _Z)]
_I4 = np.eye(4, dtype=complex)


# ---- mode-agnostic boolean helpers (SBool in symbolic mode, bool in concrete mode) -------------
def AND(*cs):
    out = True
    for c in cs:
        if isinstance(c, (bool, np.bool_)):
            if not c:
                return False
            continue
        out = c if out is True else (out & c)
    return out


def OR(*cs):
    out = False
    for c in cs:
        if isinstance(c, (bool, np.bool_)):
            if c:
                return True
            continue
        out = c if out is False else (out | c)
    return out


def NOT(c):
    if isinstance(c, (bool, np.bool_)):
        return not c
    return ~c


# ---- oracle: exp(i(xXX+yYY+zZZ)) from cos/sin (XX, YY, ZZ commute) -------------------------------
def _sym(*vals):
    return any(isinstance(v, SNum) for v in vals)


def mat_mul(A, B):
    A = np.asarray(A, dtype=object)
    B = np.asarray(B, dtype=object)
    n, m = A.shape
    _, p = B.shape
    out = np.empty((n, p), dtype=object)
    for i in range(n):
        for j in range(p):
            tot = 0
            for l in range(m):
                a = A[i, l]
                if isinstance(a, (int, float, complex)) and a == 0:
                    continue
                b = B[l, j]
                if isinstance(b, (int, float, complex)) and b == 0:
                    continue
                tot = tot + a * b
            out[i, j] = tot
    return out


def _pauli_exp(P, a):
    """cos(a) I + i sin(a) P   (P^2 = I)"""
    c, s = cos(a), sin(a)
    out = np.empty((4, 4), dtype=object)
    for i in range(4):
        for j in range(4):
            out[i, j] = c * _I4[i, j] + 1j * s * P[i, j]
    return out


def interaction(x, y, z):
    """exp(i(x XX + y YY + z ZZ)) in closed form, object matrix (entries SNum or complex)"""
    return mat_mul(mat_mul(_pauli_exp(_PP[0], x), _pauli_exp(_PP[1], y)), _pauli_exp(_PP[2], z))


def kron2(a, b):
    a = np.asarray(a, dtype=object)
    b = np.asarray(b, dtype=object)
    out = np.empty((4, 4), dtype=object)
    for i in range(2):
        for j in range(2):
            for k in range(2):
                for l in range(2):
                    out[2 * i + k, 2 * j + l] = a[i, j] * b[k, l]
    return out


def dagger(m):
    m = np.asarray(m, dtype=object)
    out = np.empty((m.shape[1], m.shape[0]), dtype=object)
    for i in range(m.shape[0]):
        for j in range(m.shape[1]):
            e = m[i, j]
            out[j, i] = e.conjugate() if hasattr(e, 'conjugate') else e
    return out


def embed2(M, pos):
    """4x4 matrix of a 1- or 2-qubit matrix acting on positions `pos` of a 2-qubit big-endian register"""
    M = np.asarray(M, dtype=object)
    if len(pos) == 0:
        return np.asarray(_I4 * 1, dtype=object) * M[0, 0]
    if len(pos) == 1:
        i2 = np.eye(2, dtype=complex)
        return kron2(M, i2) if pos[0] == 0 else kron2(i2, M)
    if tuple(pos) == (0, 1):
        return M
    perm = [0, 2, 1, 3]  # swap the two qubits
    out = np.empty((4, 4), dtype=object)
    for i in range(4):
        for j in range(4):
            out[i, j] = M[perm[i], perm[j]]
    return out


def doc_matrix(gate):
    """documented matrix of an emitted gate (oracles/gates_doc.py formulas on the gate's parameters)"""
    import cirq

    if isinstance(gate, cirq.PhasedXPowGate):
        return D.phased_x(gate.exponent, gate.phase_exponent, gate.global_shift)
    for cls, doc in (
        (cirq.XXPowGate, D.XX),  # includes MSGate (global_shift -0.5)
        (cirq.CZPowGate, D.CZ),
        (cirq.XPowGate, D.X),
        (cirq.YPowGate, D.Y),
        (cirq.ZPowGate, D.Z),
        (cirq.HPowGate, D.H),
    ):
        if isinstance(gate, cls):
            return doc(gate.exponent, gate.global_shift)
    if isinstance(gate, cirq.GlobalPhaseGate):
        return D.global_phase(gate.coefficient)
    raise AssertionError(f'harness: no documented matrix for emitted gate {gate!r}')


def product_of(ops, qs):
    """ordered product (first operation right-most) of the documented matrices of `ops`"""
    tot = np.asarray(_I4 * 1, dtype=object)
    for op in ops:
        pos = [qs.index(q) for q in op.qubits]
        tot = mat_mul(embed2(doc_matrix(op.gate), pos), tot)
    return tot


def assert_equal_up_to_phase(cx, P, E, tol, label, small=None, wrong=False):
    """P = g*E for a unit complex g:  M = P E^dag  must be M00 * identity with |M00| = 1.
    wrong=True (vacuity twin): one off-diagonal entry of M is required to be 0.01 instead of 0."""
    Mx = mat_mul(P, dagger(E))
    R = np.empty((4, 4), dtype=object)
    for i in range(4):
        for j in range(4):
            R[i, j] = Mx[i, j] if i != j else Mx[i, i] - Mx[0, 0]
    R[0, 0] = Mx[0, 0] * (Mx[0, 0].conjugate() if hasattr(Mx[0, 0], 'conjugate') else np.conj(Mx[0, 0])) - 1
    R0 = R
    if small and cx.mode == 'sym':
        R = relax_small_angles(cx, R, small)
    target = np.zeros((4, 4))
    if wrong:
        target[1, 2] = 0.01
        if cx.mode == 'sym':
            # twin only: drop float-rounding residue (|coef| < 1e-9) so that the refutation of the wrong entry is an
            # exact linear query over the path condition (the model is then replayed on the real code)
            for idx in itertools.product(range(4), range(4)):
                R[idx] = SNum.coerce(R[idx]).pruned(1e-9)
    close_with_candidates(cx, R, target, tol, label, R0)


# ---- counterexample candidates (never part of a proof) ----------------------------------------------
_FRACS = (0.137, 0.377, 0.617, 0.883, 0.5, 0.271, 0.743)


def _candidate_envs(cx, limit=400):
    """points of the declared boxes (fixed fractions of every box, deviations at 0 / +-half / +-0.9 of their bound)
    that satisfy the path condition when it is EVALUATED numerically (abs atoms computed from their arguments)"""
    from symx.explore import _cond_holds

    names, grids = [], []
    for n, v in cx.vars.items():
        if v['kind'] != 'real' or n.startswith('_'):
            continue
        lo, hi = float(v['lo']), float(v['hi'])
        names.append(n)
        if hi - lo < 1e-6:
            grids.append([0.5 * (lo + hi) + f * 0.5 * (hi - lo) for f in (0.0, 0.5, -0.5, 0.9, -0.9)])
        else:
            grids.append([lo + f * (hi - lo) for f in _FRACS])
    out = []
    for ci, combo in enumerate(itertools.product(*grids)):
        if ci >= 4000 or len(out) >= limit:
            break
        env = dict(zip(names, combo))
        ok = True
        for key, val in cx.atoms.items():
            if key[0] == 'c15-relaxed':
                continue
            if key[0] != 'abs':
                return []
            arg = SNum(dict(key[1]))
            env[next(iter(val.variables()))] = abs(arg.eval(env).real)
        for c in cx.pc:
            if _cond_holds(cx, c, env) is not True:
                ok = False
                break
        if ok:
            out.append(env)
    return out


def close_with_candidates(cx, A, B, tol, label, A_unrelaxed=None):
    """cx.close(A, B) -- the SMT verdict -- with a cheaper route to a COUNTEREXAMPLE when the linear stage does not
    discharge the VC: the difference is evaluated numerically at points satisfying the path condition; a point that
    violates the assertion is raised as a violation candidate (the driver replays it on the real code in concrete
    mode before reporting it).  If no candidate is found the full lattice / non-linear solver stages run."""
    if cx.mode != 'sym':
        return cx.close(A, B, tol=tol, label=label)
    from symx.ctx import Violation
    from symx.vc import Inconclusive

    saved = {k: cx.opts.get(k) for k in ('lattices', 'vc_timeout_ms')}
    cx.opts['lattices'] = ()
    cx.opts['vc_timeout_ms'] = 12000
    try:
        cx.close(A, B, tol=tol, label=label)
        return
    except Inconclusive:
        pass
    finally:
        for k, v in saved.items():
            if v is None:
                cx.opts.pop(k, None)
            else:
                cx.opts[k] = v
    A0 = A if A_unrelaxed is None else A_unrelaxed
    flatA = [SNum.coerce(e) for e in np.asarray(A0, dtype=object).ravel()]
    flatB = [SNum.coerce(e) for e in np.asarray(B, dtype=object).ravel()]
    for env in _candidate_envs(cx):
        worst = max(abs(a.eval(env) - b.eval(env)) for a, b in zip(flatA, flatB))
        if worst > 10 * tol:
            model = {n: env[n] for n, v in cx.vars.items() if v['kind'] == 'real' and not n.startswith('_')}
            model.update({n: v.get('value', 0) for n, v in cx.vars.items() if v['kind'] == 'choice'})
            raise Violation(label, f'candidate from numeric evaluation at a point of the path condition (|diff| = {worst:.3g}); replayed on the real code by the driver', model)
    cx.close(A, B, tol=tol, label=label)


# ---- near-threshold regimes ---------------------------------------------------------------------
# The synthesis code compares each strength r with 0 and +-pi/4 within atol.  Each strength is therefore
# declared in one of len(centers)+1 REGIMES (finite selector): "far" (r ranges over the whole box minus the
# open (atol+EPS)-neighbourhoods of the centres) or "near a" (r = a + d with a symbolic deviation d in
# [-atol-2EPS, atol+2EPS]).  The regimes cover the box (they overlap by EPS).  In a near regime the matrices contain exp(i k d); before
# the VC is issued every such factor is replaced by (1 + c) + i s with FRESH variables
# c in [-(k atol)^2/2, 0], s in [-k atol, k atol]: for every real d in [-atol, atol] the true
# (cos(kd) - 1, sin(kd)) lies in that box, so validity of the relaxed VC implies validity of the original
# one (sound weakening), and the relaxed VC is decided by z3 in linear arithmetic.
# witness search for genuine violations: the "far" regimes exclude the pi/4 lattice points, so pi/6 and pi/12 lattices
# come first; 4 s per query and 900 s per obligation bound the time spent on a failing path (only reached when the linear stage fails)
SEARCH = {'lattices': (6, 12), 'vc_timeout_ms': 20000, 'max_seconds': 900}
EPS = 1e-12  # regimes overlap by EPS: comparisons of the code use float-rounded constants (1e-16 slivers)


def strength(cx, name, lo, hi, atol, centers=(0.0, Q, -Q), regime=None):
    """returns (value, small) ; small = {deviation variable name: bound} or {}"""
    reg = cx.choose(name + '_regime', len(centers) + 1) if regime is None else regime
    if reg == 0:
        r = cx.real(name, lo, hi)
        for a in centers:
            cx.assume(OR(r - a >= atol + EPS, a - r >= atol + EPS))
        return r, {}
    a = centers[reg - 1]
    if not (lo <= a <= hi):
        cx.assume(False)
    d = cx.real(name + '_d', -(atol + 2 * EPS), atol + 2 * EPS)
    return a + d, {name + '_d': atol + 2 * EPS}


def relax_small_angles(cx, R, small):
    cache = cx.__dict__.setdefault('_c15_relax', {})
    cx.atoms.setdefault(('c15-relaxed',), True)  # relaxed terms are not comparable with a concrete run

    def cs(var, k):
        key = (var, k)
        if key not in cache:
            b = float(k) * small[var]
            n = len(cache)
            c = cx.real(f'_rc{n}_{var}', -(b * b) / 2 - 1e-15, 0.0)
            s_ = cx.real(f'_rs{n}_{var}', -b - 1e-15, b + 1e-15)
            cache[key] = (c, s_)
        return cache[key]

    def relax(e):
        e = SNum.coerce(e)
        out = SNum.const(0)
        for (mono, ang), co in e.t.items():
            keep = []
            fac = SNum.const(1)
            for (am, unit), q in ang:
                vs = [n for n, _p in am if n in small]
                if not vs:
                    keep.append(((am, unit), q))
                    continue
                if len(am) != 1 or am[0][1] != 1:
                    raise AssertionError('harness: deviation variable inside a non-linear angle atom')
                k = abs(q) * (1 if unit == 'rad' else PI)
                c, s_ = cs(vs[0], k)
                fac = fac * ((1 + c) + (1j if q > 0 else -1j) * s_)
            out = out + SNum({(mono, tuple(keep)): co}) * fac
        return out

    out = np.empty(R.shape, dtype=object)
    for idx in itertools.product(*[range(n) for n in R.shape]):
        out[idx] = relax(R[idx])
    return out


def canonical_pred(x2, y2, z2, atol):
    """0 <= |z2| <= y2 <= x2 <= pi/4 (+atol, see report) and  x2 > pi/4 - atol  =>  z2 >= 0"""
    return AND(z2 <= y2, -z2 <= y2, y2 <= x2, x2 <= Q + atol, OR(x2 <= Q - atol, z2 >= 0))


# =================================================================================================
def obligations(tier):
    import cirq
    from cirq.linalg.decompositions import kak_canonicalize_vector
    from cirq.transformers.analytical_decompositions import two_qubit_to_cz as CZM
    from cirq.transformers.analytical_decompositions import two_qubit_to_ms as MSM

    obs = []
    q0, q1 = cirq.LineQubit.range(2)
    qs = [q0, q1]

    # ---- K: kak_canonicalize_vector ----------------------------------------------------------
    def kak_body(box, wrong=None):
        def body(cx):
            (xl, xh), (yl, yh), (zl, zh) = box
            x = cx.real('x', xl, xh)
            y = cx.real('y', yl, yh)
            z = cx.real('z', zl, zh)
            atol = cx.real('atol', 1e-12, 1e-3)
            k = kak_canonicalize_vector(x, y, z, atol)
            x2, y2, z2 = k.interaction_coefficients
            if wrong == 'pred':
                cx.check(AND(canonical_pred(x2, y2, z2, atol), x2 <= Q - 0.01), label='kak.canonical_form')
                return
            cx.check(canonical_pred(x2, y2, z2, atol), label='kak.canonical_form')
            b0, b1 = k.single_qubit_operations_before
            a0, a1 = k.single_qubit_operations_after
            for nm, m in (('b0', b0), ('b1', b1), ('a0', a0), ('a1', a1)):
                m = np.asarray(m, dtype=complex)
                cx.check(bool(np.allclose(m @ m.conj().T, np.eye(2), atol=1e-12)), label=f'kak.{nm}.unitary')
            cx.check(bool(abs(abs(complex(k.global_phase)) - 1) < 1e-12), label='kak.global_phase.unit')
            U = mat_mul(mat_mul(kron2(a0, a1), interaction(x2, y2, z2)), kron2(b0, b1)) * k.global_phase
            E = interaction(x + 0.3, y, z) if wrong == 'unitary' else interaction(x, y, z)
            close_with_candidates(cx, U, E, 1e-7, 'kak.reconstruct')
            # the library's own reconstruction (KakDecomposition._unitary_ / map_eigenvalues with symbolic phases)
            cx.close(cirq.unitary(k), E, label='kak.unitary_protocol')

        return body

    def add_kak(name, box, desc):
        obs.append(
            Obligation(
                name,
                kak_body(box),
                twin=kak_body(box, wrong='unitary'),
                opts={'weight': 5},
                points=[{'x': 0.3, 'y': -0.2, 'z': 0.1, 'atol': 1e-9}, {'x': Q, 'y': 0.5, 'z': -0.7, 'atol': 1e-8}, {'x': -0.6, 'y': 0.1, 'z': 0.78, 'atol': 1e-6}],
                desc=desc,
            )
        )

    # cube: all three coefficients in [-B, B], partitioned at +-pi/4 (closed sub-boxes; they overlap on faces)
    cuts = [-PI / 2, -Q, Q, PI / 2] if tier == 'quick' else [-PI, -3 * Q, -Q, Q, 3 * Q, PI]
    ivs = list(zip(cuts[:-1], cuts[1:]))
    for (i, bx), (j, by), (k_, bz) in itertools.product(enumerate(ivs), repeat=3):
        add_kak(f'kak.cube.{i}{j}{k_}', (bx, by, bz), f'kak_canonicalize_vector(x,y,z,atol), x in [{bx[0]:.3f},{bx[1]:.3f}], y in [{by[0]:.3f},{by[1]:.3f}], z in [{bz[0]:.3f},{bz[1]:.3f}], symbolic atol: canonical-form predicate + exact reconstruction')
    W = PI if tier == 'quick' else 2 * PI
    for ax in range(3):
        box = [(-Q, Q)] * 3
        box[ax] = (-W, W)
        add_kak(f'kak.axis{ax}', tuple(box), f'kak_canonicalize_vector with coefficient {ax} in [-{W:.3f},{W:.3f}] (shift loop unwound), the other two in [-pi/4,pi/4]')
    obs.append(
        Obligation('kak.pred_twin_probe', kak_body(((-Q, Q),) * 3), twin=kak_body(((-Q, Q),) * 3, wrong='pred'), desc='canonical-form predicate on [-pi/4,pi/4]^3; twin asserts a too-strong predicate (vacuity probe of the predicate VC)')
    )

    # ---- helpers for emitted operation lists ----------------------------------------------------
    def flat(tree):
        return list(cirq.flatten_op_tree(tree))

    def two_qubit_ops(ops):
        return [op for op in ops if len(op.qubits) == 2]

    def check_shape(cx, ops, two_q_cls, max_two_q, label, full=False, exact=None):
        """only 1-qubit gates and `two_q_cls` gates; at most max_two_q (exactly `exact`) two-qubit gates; full => CZ**1"""
        tq = two_qubit_ops(ops)
        cx.check(all(isinstance(op.gate, two_q_cls) for op in tq) and all(len(op.qubits) in (1, 2) for op in ops), label=f'{label}.gate_set')
        cx.check(len(tq) <= max_two_q, label=f'{label}.two_qubit_count<={max_two_q}')
        if exact is not None:
            cx.check(len(tq) == exact, label=f'{label}.two_qubit_count=={exact}')
        if full:
            for i, op in enumerate(tq):
                cx.check(op.gate.exponent == 1, label=f'{label}.full_cz[{i}]')
                cx.check(op.gate.global_shift == 0, label=f'{label}.full_cz_shift[{i}]')

    BX = PI if tier == 'quick' else 2 * PI
    PTS3 = [{'x': 0.3, 'y': 0.2, 'z': -0.1}, {'x': Q, 'y': Q, 'z': Q}, {'x': 0.7, 'y': 0.0, 'z': 0.0}, {'x': 0.5, 'y': 0.25, 'z': 0.0}, {'x': Q, 'y': 0.0, 'z': 0.0}]

    # ---- C1: the three full-CZ interaction kernels (algebraic identities: no range restriction) --
    def direct_body(which, wrong=False):
        def body(cx):
            x = cx.real('x', -BX, BX)
            y = cx.real('y', -BX, BX) if which != 'xx' else 0.0
            z = cx.real('z', -BX, BX) if which == 'xx_yy_zz' else 0.0
            if which == 'xx':
                ops, n = flat(CZM._xx_interaction_via_full_czs(q0, q1, x)), 2
            elif which == 'xx_yy':
                ops, n = flat(CZM._xx_yy_interaction_via_full_czs(q0, q1, x, y)), 2
            else:
                ops, n = flat(CZM._xx_yy_zz_interaction_via_full_czs(q0, q1, x, y, z)), 3
            check_shape(cx, ops, cirq.CZPowGate, 3, f'cz.{which}', full=True, exact=n)
            assert_equal_up_to_phase(cx, product_of(ops, qs), interaction(x, y, z), 1e-7, f'cz.{which}.product', wrong=wrong)

        return body

    for which in ('xx', 'xx_yy', 'xx_yy_zz'):
        obs.append(
            Obligation(
                f'cz.direct.{which}',
                direct_body(which),
                twin=direct_body(which, wrong=True),
                points=PTS3,
                desc=f'_{which}_interaction_via_full_czs with symbolic strengths in [-{BX:.2f},{BX:.2f}]: documented matrices of the emitted ops multiply to exp(i(xXX+yYY+zZZ)) up to global phase; exactly {2 if which != "xx_yy_zz" else 3} full CZ',
            )
        )

    # ---- C2/M2: parity interactions (one axis, framed by a basis change) -------------------------
    def parity_body(mod, wrong=False):
        def body(cx):
            f = cx.choose('frame', 3)
            r, small = strength(cx, 'r', -BX, BX, ATOL)
            if mod == 'cz':
                gate = [None, cirq.Y**-0.5, cirq.X**0.5][f]
                axis = [2, 0, 1][f]
                ops = flat(CZM._parity_interaction(q0, q1, r, ATOL, gate))
                check_shape(cx, ops, cirq.CZPowGate, 1, 'cz.parity')
            else:
                gate = [None, cirq.Z**-0.5, cirq.Y**0.5][f]
                axis = [0, 1, 2][f]
                ops = flat(MSM._parity_interaction(q0, q1, r, ATOL, gate))
                check_shape(cx, ops, cirq.XXPowGate, 1, 'ms.parity')
            v = [0.0, 0.0, 0.0]
            v[axis] = r
            assert_equal_up_to_phase(cx, product_of(ops, qs), interaction(*v), KTOL, f'{mod}.parity.product', small, wrong=wrong)

        return body

    PTSR = [{'r': v, 'choose:frame': f} for f in range(3) for v in (0.3, -1.1, 2.0)] + [{'choose:r_regime': g, 'r_d': d, 'choose:frame': f} for f in range(3) for g in (1, 2, 3) for d in (0.0, 5e-9, -1e-8)]
    for mod in ('cz', 'ms'):
        obs.append(
            Obligation(
                f'{mod}.parity',
                parity_body(mod),
                twin=parity_body(mod, wrong=True),
                points=PTSR,
                opts=dict(SEARCH),
                desc=f'two_qubit_to_{mod}._parity_interaction(rads symbolic in [-{BX:.2f},{BX:.2f}], atol=1e-8, frame in {{none, two basis changes}}): product equals exp(i rads PP) on the framed axis up to global phase within {KTOL:g}; at most one two-qubit gate',
            )
        )

    # ---- C3/M3: _non_local_part ---------------------------------------------------------------------
    HB = PI / 2

    def non_local_body(mod, partial, wrong=False):
        def body(cx):
            if mod == 'cz' and not partial:
                # documented precondition: "Assumes that the decomposition is canonical"
                x, sx = strength(cx, 'x', -1e-3, Q + 1e-3, ATOL)
                y, sy = strength(cx, 'y', -1e-3, Q + 1e-3, ATOL)
                z, sz = strength(cx, 'z', -Q - 1e-3, Q + 1e-3, ATOL)
                cx.assume(canonical_pred(x, y, z, ATOL))
            else:
                x, sx = strength(cx, 'x', -HB, HB, ATOL)
                y, sy = strength(cx, 'y', -HB, HB, ATOL)
                z, sz = strength(cx, 'z', -HB, HB, ATOL)
            small = {**sx, **sy, **sz}
            if mod == 'cz':
                ops = flat(CZM._non_local_part(q0, q1, (x, y, z), partial, ATOL))
                check_shape(cx, ops, cirq.CZPowGate, 3, f'cz.non_local[{partial}]', full=not partial)
                if not partial:
                    zsmall = AND(z < ATOL, -z < ATOL)
                    cx.check(OR(NOT(zsmall), len(two_qubit_ops(ops)) <= 2), label='cz.non_local.z~0=>at_most_2_cz')
            else:
                ops = flat(MSM._non_local_part(q0, q1, (x, y, z), ATOL))
                check_shape(cx, ops, cirq.XXPowGate, 3, 'ms.non_local')
            assert_equal_up_to_phase(cx, product_of(ops, qs), interaction(x, y, z), KTOL, f'{mod}.non_local.product', small, wrong=wrong)

        return body

    for mod, partial in (('cz', True), ('cz', False), ('ms', True)):
        nm = f'{mod}.non_local' + ('' if mod == 'ms' else ('.partial' if partial else '.full'))
        obs.append(
            Obligation(
                nm,
                non_local_body(mod, partial),
                twin=non_local_body(mod, partial, wrong=True),
                points=PTS3,
                opts={'weight': 6, **SEARCH},
                desc=f'two_qubit_to_{mod}._non_local_part' + (f'(allow_partial_czs={partial})' if mod == 'cz' else '') + ' with symbolic coefficients: product of documented matrices equals exp(i(xXX+yYY+zZZ)) up to global phase; <= 3 two-qubit gates',
            )
        )

    # ---- C4/M4: _kak_decomposition_to_operations: canonical symbolic coefficients, concrete local factors ------
    def u1(tx, tz, ty):
        return np.asarray(D.X(tx) @ D.Z(tz) @ D.Y(ty), dtype=complex)

    LOCALS = [
        # (global phase, (b0, b1), (a0, a1)): generic, pairwise different factors
        (np.exp(0.7j), (u1(0.37, 0.21, -0.4), u1(-0.8, 0.55, 0.1)), (u1(0.15, -0.62, 0.9), u1(0.48, 0.33, -0.27))),
        # special factors: identity / Hadamard / S / sqrt(X)
        (1j, (np.eye(2, dtype=complex), np.asarray(D.H(1.0), dtype=complex)), (np.asarray(D.Z(0.5), dtype=complex), np.asarray(D.X(0.5), dtype=complex))),
    ]

    def kak_ops_body(mod, partial, wrong=False):
        def body(cx):
            li = cx.choose('locals', len(LOCALS))
            x, sx = strength(cx, 'x', -1e-3, Q + 1e-3, ATOL)
            y, sy = strength(cx, 'y', -1e-3, Q + 1e-3, ATOL)
            z, sz = strength(cx, 'z', -Q - 1e-3, Q + 1e-3, ATOL)
            cx.assume(canonical_pred(x, y, z, ATOL))  # documented: "Assumes that the decomposition is canonical"
            g, (b0, b1), (a0, a1) = LOCALS[li]
            kak = cirq.KakDecomposition(global_phase=g, single_qubit_operations_before=(b0, b1), interaction_coefficients=(x, y, z), single_qubit_operations_after=(a0, a1))
            if mod == 'cz':
                ops = CZM._kak_decomposition_to_operations(q0, q1, kak, partial, ATOL)
                check_shape(cx, ops, cirq.CZPowGate, 3, f'cz.kak_ops[{partial}]', full=not partial)
            else:
                ops = MSM._kak_decomposition_to_operations(q0, q1, kak, ATOL)
                check_shape(cx, ops, cirq.XXPowGate, 3, 'ms.kak_ops')
            E = mat_mul(mat_mul(kron2(a0, a1), interaction(x, y, z)), kron2(b0, b1))
            assert_equal_up_to_phase(cx, product_of(ops, qs), E, KTOL, f'{mod}.kak_ops.product', {**sx, **sy, **sz}, wrong=wrong)

        return body

    PTSK = [dict(p, **{'choose:locals': i % 2}) for i, p in enumerate(PTS3)]
    for mod, partial in (('cz', True), ('cz', False), ('ms', True)):
        nm = f'{mod}.kak_ops' + ('' if mod == 'ms' else ('.partial' if partial else '.full'))
        obs.append(
            Obligation(
                nm,
                kak_ops_body(mod, partial),
                twin=kak_ops_body(mod, partial, wrong=True),
                points=PTSK,
                opts={'weight': 8, **SEARCH},
                desc=f'two_qubit_to_{mod}._kak_decomposition_to_operations on KakDecomposition(canonical SYMBOLIC coefficients, concrete local factors from a menu of {len(LOCALS)}): product equals (a0 (x) a1) exp(i(xXX+yYY+zZZ)) (b0 (x) b1) up to global phase; <= 3 two-qubit gates',
            )
        )

    # ---- chain: kak_canonicalize_vector -> _kak_decomposition_to_operations for arbitrary coefficients --------
    CB = PI / 2
    CCENT = tuple(j * Q for j in range(-2, 3))

    def chain_body(mod, partial, boxes, xr, max_near, wrong=False):
        def body(cx):
            vs, small = [], {}
            for nm, (lo, hi) in zip('xyz', boxes):
                cents = tuple(c for c in CCENT if lo <= c <= hi)
                v, s_ = strength(cx, nm, lo, hi, ATOL, centers=cents, regime=(xr if nm == 'x' else None))
                vs.append(v)
                small.update(s_)
                if len(small) > max_near:
                    cx.assume(False)
            x, y, z = vs
            k0 = kak_canonicalize_vector(x, y, z)  # atol default, as in cirq.kak_decomposition
            # representation change only: under the np proxy the (path-constant) local factors are object arrays of
            # constant SNum; the single-qubit synthesis (LAPACK / atan2, concrete here) needs complex128 arrays
            as_c = lambda m: np.asarray(m, dtype=complex)
            kak = cirq.KakDecomposition(
                global_phase=complex(k0.global_phase),
                single_qubit_operations_before=tuple(as_c(m) for m in k0.single_qubit_operations_before),
                interaction_coefficients=k0.interaction_coefficients,
                single_qubit_operations_after=tuple(as_c(m) for m in k0.single_qubit_operations_after),
            )
            if mod == 'cz':
                ops = CZM._kak_decomposition_to_operations(q0, q1, kak, partial, ATOL)
                check_shape(cx, ops, cirq.CZPowGate, 3, f'chain.cz[{partial}]', full=not partial)
            else:
                ops = MSM._kak_decomposition_to_operations(q0, q1, kak, ATOL)
                check_shape(cx, ops, cirq.XXPowGate, 3, 'chain.ms')
            assert_equal_up_to_phase(cx, product_of(ops, qs), interaction(x, y, z), KTOL, f'chain.{mod}.product', small, wrong=wrong)

        return body

    core = ((-Q, Q), (-Q, Q), (-Q, Q))
    chain_specs = [('core', core, xr, 1 if tier == 'quick' else 3) for xr in range(4)]
    for mod, partial in (('cz', False), ('cz', True), ('ms', True)):
        for tag, boxes, xr, max_near in chain_specs:
            nm = f'chain.{mod}' + ('' if mod == 'ms' else ('.partial' if partial else '.full')) + f'.{tag}.xr{xr}'
            obs.append(
                Obligation(
                    nm,
                    chain_body(mod, partial, boxes, xr, max_near),
                    twin=chain_body(mod, partial, boxes, xr, max_near, wrong=True),
                    points=PTS3[:3] if xr == 0 else [{'x_d': 3e-9, 'y': 0.2, 'z': -0.1}],
                    opts={'weight': 10, **SEARCH},
                    desc='kak_canonicalize_vector(x,y,z) (arbitrary, non-canonical coefficients) followed by '
                    + f'two_qubit_to_{mod}._kak_decomposition_to_operations'
                    + (f'(allow_partial_czs={partial})' if mod == 'cz' else '')
                    + f': product equals exp(i(xXX+yYY+zZZ)) up to global phase; <= 3 two-qubit gates. box {tag}, x regime {xr}, at most {max_near} strengths within atol of a multiple of pi/4',
                )
            )
    return obs


LEVEL = (
    'Bounded symbolic execution of the real closed-form decomposition kernels, SMT-decided: the interaction coefficients x, y, z (and atol of '
    'kak_canonicalize_vector) are symbolic reals; the shift/negate/swap loops and tolerance comparisons of the real code fork the exploration; '
    'on every feasible path z3 decides the canonical-form predicate and the entry-wise matrix identities against exp(i(xXX+yYY+zZZ)) built in '
    'the harness from cos/sin, for ALL values in the boxes. Factor-extraction code (eig/SVD/np.angle on symbolic matrices) is outside.'
)


def main(tier, seed=0, replay=None, only=None, procs=None):
    quick = tier == 'quick'
    bounds = {
        'symbolic': 'interaction coefficients x, y, z (radians), atol of kak_canonicalize_vector in [1e-12, 1e-3], deviations d of near-threshold strengths',
        'kak_canonicalize_vector_boxes': ('cube [-pi/2,pi/2]^3 (27 sub-boxes) and one coefficient in [-pi,pi] with the other two in [-pi/4,pi/4]' if quick else 'cube [-pi,pi]^3 (125 sub-boxes) and one coefficient in [-2pi,2pi] with the other two in [-pi/4,pi/4]') + '; shift loops unwound by the explorer (depth limit 400 = unwinding assertion)',
        'direct_kernel_box': [-PI, PI] if quick else [-2 * PI, 2 * PI],
        'parity_interaction_box': [-PI, PI] if quick else [-2 * PI, 2 * PI],
        'non_local_part_box': 'allow_partial_czs=True and MS: [-pi/2,pi/2]^3; allow_partial_czs=False and _kak_decomposition_to_operations: canonical region 0<=|z|<=y<=x<=pi/4+atol (documented precondition)',
        'synthesis_atol': ATOL,
        'tolerance': {'kak_canonicalize_vector (exact identities)': 1e-7, 'synthesis products (up to global phase)': KTOL, 'why': 'strengths within atol of 0 are dropped and within atol of +-pi/4 rounded to a full CZ: up to 12*atol deviation is built into the routines'},
        'regimes': 'every strength handed to a synthesis routine: far from {0, +-pi/4} (chain: from every multiple of pi/4 in the box) by >= atol+1e-12, or a + d with |d| <= atol+2e-12 (finite selector); exp(i k d) relaxed to fresh box variables (sound weakening) before the VC',
        'local_factor_menu': '2 concrete (b0,b1,a0,a1,g) tuples for _kak_decomposition_to_operations (single-qubit synthesis runs on concrete matrices); chain: the local factors produced by kak_canonicalize_vector',
        'chain': ('[-pi/4,pi/4]^3, at most one strength within atol of a multiple of pi/4' if quick else '[-pi/4,pi/4]^3, all regime combinations'),
        'finite_selectors': 'frame gate of _parity_interaction (3), regimes, local-factor menu, allow_partial_czs',
        'outside': [
            'kak_decomposition / kak_vector / _canonicalize_kak_vector (vectorised) / so4_to_magic_su2s / kron_factor_4x4_to_2x2s / bidiagonalize_* / unitary_eig on symbolic matrices / num_cnots_required / extract_right_diag (LAPACK, argsort, boolean masks)',
            'two_qubit_matrix_to_cz_operations / ..._to_diagonal_and_cz_operations / ..._to_ion_operations end to end (start with kak_decomposition); cleanup_operations / _merge_single_qubit_gates (single_qubit_matrix_to_phased_x_z: np.angle)',
            'single-qubit synthesis of SYMBOLIC matrices (single_qubit_matrix_to_gates/pauli_rotations/phased_x_z/phxz, PhasedXZGate.from_matrix, axis_angle, deconstruct_single_qubit_matrix_into_angles): inverse trigonometric; executed here only on concrete local factors',
            'two_qubit_to_sqrt_iswap, two_qubit_to_fsim, cphase_to_fsim (arccos/arcsin of symbolic values), two_qubit_gate_tabulation, two_qubit_to_sycamore',
            'three_qubit_matrix_to_operations (CS decomposition), quantum_shannon_decomposition, decompose_multi_controlled_x/rotation, two-qubit state preparation, single_to_two_qubit_isometry, Clifford-tableau synthesis',
            'KakDecomposition._decompose_ (PauliString exponentiation rejects symbolic coefficients)',
            'atol other than 1e-8 in the synthesis routines; float rounding; complex64',
        ],
    }
    return run_check(PID, tier, 'checks.C15', SHIMS, LEVEL, BASE_ASSUMPTIONS + [
        'near-threshold strengths: exp(i k d), |d| <= atol+2e-12, is replaced by (1+c) + i s with fresh c in [-(k b)^2/2 - 1e-15, 0], s in [-k b - 1e-15, k b + 1e-15] (b = atol+2e-12) before the VC: sound weakening, decided in linear arithmetic',
        'counterexample CANDIDATES may come from numeric evaluation at points satisfying the path condition (checks/C15.py close_with_candidates); they are replayed on the real code before being reported and never count towards a proof',
        'emitted operations are mapped to matrices by the documented formulas of oracles/gates_doc.py applied to the gate parameters (C03 ties cirq.unitary to the same formulas)',
    ], bounds, seed=seed, replay=replay, only=only, procs=procs)

"""C08: gate algebra and predicates are sound with respect to matrices."""
from __future__ import annotations

import itertools
import math

import numpy as np

from checks.C04 import _kron, _matmul, controlled_matrix
from checks.common import BASE_ASSUMPTIONS, CORE_SHIM_MODULES, perturb
from oracles import embed as EM
from oracles import gates_doc as D
from oracles import pauli as OP
from symx.explore import Obligation
from symx.run import run_check

PID = 'C08'
SHIMS = CORE_SHIM_MODULES + [
    'cirq.protocols.pow_protocol',
    'cirq.protocols.inverse_protocol',
    'cirq.protocols.phase_protocol',
    'cirq.protocols.commutes_protocol',
    'cirq.protocols.equal_up_to_global_phase_protocol',
    'cirq.protocols.approximate_equality_protocol',
    'cirq.protocols.has_stabilizer_effect_protocol',
    'cirq.protocols.pauli_expansion_protocol',
    'cirq.protocols.decompose_protocol',
    'cirq.protocols.has_unitary_protocol',
    'cirq.ops.control_values',
    'cirq.ops.pauli_gates',
    'cirq.linalg.predicates',
    'cirq.linalg.operator_spaces',
    'cirq.value.value_equality_attr',
    'cirq.value.linear_dict',
    'cirq.circuits.circuit',
    'cirq.circuits.moment',
    'cirq.qis.states',
]
BOX = 4.0


def worker_setup():
    """np.allclose inside cirq.ops.raw_types / cirq.linalg.predicates additionally records (on the current
    path) that the numeric matrix comparison decided a commutes() question"""
    import importlib

    from symx import ctx as C
    from symx import proxy

    class RecNp(proxy.NpProxy):
        def allclose(self, a, b, *r, **k):
            cx = C._CUR[0]
            if cx is not None and proxy.any_sym(a, b):
                # the numeric fallback's answer is over-approximated by a free Boolean (both answers are
                # explored); such paths are tautological and skipped by the harness anyway
                cx.notes.append('matrix-fallback')
                return bool(cx.bool(cx.fresh('fallback')))
            return proxy.NpProxy.allclose(self, a, b, *r, **k)

    rec = RecNp()
    for mn in ('cirq.ops.raw_types', 'cirq.linalg.predicates'):
        importlib.import_module(mn).__dict__['np'] = rec
    return ['cirq.ops.raw_types.np.allclose / cirq.linalg.predicates.np.allclose: returns a free Boolean for symbolic matrices and marks the path (answers of the numeric matrix fallback are over-approximated; such paths are not asserted)']


def used_fallback(cx):
    return 'matrix-fallback' in getattr(cx, 'notes', [])


def eig_menu():
    import cirq

    return [
        ('X', cirq.XPowGate, D.X, 1),
        ('Y', cirq.YPowGate, D.Y, 1),
        ('Z', cirq.ZPowGate, D.Z, 1),
        ('H', cirq.HPowGate, D.H, 1),
        ('CZ', cirq.CZPowGate, D.CZ, 2),
        ('CX', cirq.CXPowGate, D.CX, 2),
        ('CY', cirq.CYPowGate, D.CY, 2),
        ('SWAP', cirq.SwapPowGate, D.SWAP, 2),
        ('ISWAP', cirq.ISwapPowGate, D.ISWAP, 2),
        ('XX', cirq.XXPowGate, D.XX, 2),
        ('YY', cirq.YYPowGate, D.YY, 2),
        ('ZZ', cirq.ZZPowGate, D.ZZ, 2),
        ('CCZ', cirq.CCZPowGate, D.CCZ, 3),
        ('CCX', cirq.CCXPowGate, D.CCX, 3),
    ]


def dag(M):
    M = np.asarray(M, dtype=object)
    out = np.empty((M.shape[1], M.shape[0]), dtype=object)
    for i in range(M.shape[0]):
        for j in range(M.shape[1]):
            e = M[i, j]
            out[j, i] = e.conjugate() if hasattr(e, 'conjugate') else np.conj(e)
    return out


def close_up_to_phase(cx, A, B, label, tol=1e-7):
    """A = g*B for a unit complex g, without a phase variable: A B^dag has zero off-diagonals and equal
    diagonal entries (B unitary)"""
    P = _matmul(np.asarray(A, dtype=object), dag(B))
    n = P.shape[0]
    off = [P[i, j] for i in range(n) for j in range(n) if i != j]
    cx.close(np.array(off, dtype=object), np.zeros(len(off)), tol=tol, label=label + '.offdiag')
    dg = [P[i, i] - P[0, 0] for i in range(1, n)]
    if dg:
        cx.close(np.array(dg, dtype=object), np.zeros(len(dg)), tol=tol, label=label + '.diag')
    # and the phase has modulus 1
    cx.close(P[0, 0] * (P[0, 0].conjugate() if hasattr(P[0, 0], 'conjugate') else np.conj(P[0, 0])), 1.0, tol=tol, label=label + '.unit')


def obligations(tier):
    import cirq

    obs = []
    t_, p_, s_ = ('t', -BOX, BOX), ('p', -3.0, 3.0), ('s', -1.0, 1.0)

    # ---- 1. powers: (g(t,s))**p  == family at exponent t*p, same shift; powers add; inverse undoes ------
    for name, cls, doc, k in eig_menu():
        def body(cx, wrong=False, cls=cls, doc=doc, name=name):
            t = cx.real('t', -BOX, BOX)
            p = cx.real('p', -3.0, 3.0)
            s = cx.real('s', -1.0, 1.0)
            g = cls(exponent=t, global_shift=s)
            gp = cirq.pow(g, p)
            M = doc(t * p, s)
            cx.close(cirq.unitary(gp), perturb(M) if wrong else M, label=f'pow[{name}] == doc(t*p)')
            gi = cirq.inverse(g)
            n = M.shape[0]
            cx.close(_matmul(cirq.unitary(gi), cirq.unitary(g)), np.eye(n), label=f'inverse[{name}] undoes')
            # operation-level pow / inverse
            qs = cirq.LineQubit.range(cirq.num_qubits(g))
            cx.close(cirq.unitary(g.on(*qs) ** p), M, label=f'op pow[{name}]')

        obs.append(Obligation(f'pow.{name}', body, twin=lambda cx, b=body: b(cx, wrong=True), desc='cirq.pow(g(t,s), p) has the documented matrix at exponent t*p (same shift) for symbolic t, p, s; cirq.inverse undoes; operation ** p agrees'))

    # non-eigen families: self-consistency  U(g**p) U(g**q) = U(g**(p+q)),  g**1 = g, inverse undoes
    def nonlocal_menu():
        return [
            ('PhasedX', lambda a, b: cirq.PhasedXPowGate(exponent=a, phase_exponent=b), 2),
            ('PhasedXZ', lambda a, b: cirq.PhasedXZGate(x_exponent=a, z_exponent=b, axis_phase_exponent=0.25), 2),
            ('FSim', lambda a, b: cirq.FSimGate(a, b), 2),
            ('PhasedISwap', lambda a, b: cirq.PhasedISwapPowGate(phase_exponent=a, exponent=b), 2),
            ('rx', lambda a, b: cirq.rx(a), 1),
            ('GlobalPhase', lambda a, b: cirq.GlobalPhaseGate(D.ph(a)), 1),
        ]

    for name, build, npar in nonlocal_menu():
        def body(cx, wrong=False, build=build, name=name):
            a = cx.real('a', -2.0, 2.0)
            b = cx.real('b', -2.0, 2.0)
            g = build(a, b)
            U = cirq.unitary(g)
            n = U.shape[0]
            gi = cirq.inverse(g, None)
            if gi is not None:
                cx.close(_matmul(cirq.unitary(gi), U), np.eye(n) * (1.01 if wrong else 1.0), label=f'inverse[{name}] undoes')
            g1 = cirq.pow(g, 1, None)
            if g1 is not None:
                cx.close(cirq.unitary(g1), U, label=f'{name}**1 == g')
            gm = cirq.pow(g, -1, None)
            if gm is not None:
                cx.close(_matmul(cirq.unitary(gm), U), np.eye(n), label=f'{name}**-1 undoes')
            g2 = cirq.pow(g, 2, None)
            if g2 is not None and name not in ('FSim',):
                cx.close(cirq.unitary(g2), _matmul(U, U), label=f'{name}**2 == g g')

        obs.append(Obligation(f'pow.{name}', body, twin=lambda cx, b=body: b(cx, wrong=True), desc='inverse / **1 / **-1 / **2 consistent with matrix products for non-EigenGate families with symbolic parameters (FSim**2 excluded: canonicalisation of angles into [-pi,pi) makes it a different branch of the matrix power)'))

    # ---- 2. Gate.controlled() specialisations: block matrix on exactly the selected control states --------
    CTL = [
        ('1', 1, None, None, [2], {(1,)}),
        ('2', 2, None, None, [2, 2], {(1, 1)}),
        ('cv0', 1, [0], None, [2], {(0,)}),
        ('cv10', 2, [1, 0], None, [2, 2], {(1, 0)}),
        ('cv(01)1', 2, [(0, 1), 1], None, [2, 2], {(0, 1), (1, 1)}),
        ('qutrit', 1, [2], (3,), [3], {(2,)}),
        ('qutrit1', 1, None, (3,), [3], {(1,)}),
        ('sop', 2, 'xor', None, [2, 2], {(0, 1), (1, 0)}),
    ]
    CT_GATES = [
        ('X', lambda t, s: cirq.XPowGate(exponent=t, global_shift=s)),
        ('Y', lambda t, s: cirq.YPowGate(exponent=t, global_shift=s)),
        ('Z', lambda t, s: cirq.ZPowGate(exponent=t, global_shift=s)),
        ('CZ', lambda t, s: cirq.CZPowGate(exponent=t, global_shift=s)),
        ('CX', lambda t, s: cirq.CXPowGate(exponent=t, global_shift=s)),
        ('X0', lambda t, s: cirq.XPowGate(exponent=t)),
        ('Z0', lambda t, s: cirq.ZPowGate(exponent=t)),
        ('CZ0', lambda t, s: cirq.CZPowGate(exponent=t)),
        ('CX0', lambda t, s: cirq.CXPowGate(exponent=t)),
        ('Y0', lambda t, s: cirq.YPowGate(exponent=t)),
    ]
    for gname, build in CT_GATES:
        def body(cx, wrong=False, build=build, gname=gname):
            t = cx.real('t', -BOX, BOX)
            s = cx.real('s', -1.0, 1.0)
            g = build(t, s)
            cname, nc, cvals, cshape, cdims, sel = CTL[cx.choose('ctl', len(CTL))]
            if cvals == 'xor':
                cvals = cirq.SumOfProducts([[0, 1], [1, 0]])
            cg = g.controlled(num_controls=nc, control_values=cvals, control_qid_shape=cshape)
            U = cirq.unitary(g)
            exp = controlled_matrix(perturb(U) if wrong else U, cdims, sel)
            cx.check(cirq.qid_shape(cg) == tuple(cdims) + cirq.qid_shape(g), label=f'controlled[{gname},{cname}].qid_shape')
            cx.close(cirq.unitary(cg), exp, label=f'controlled[{gname},{cname}].unitary')

        obs.append(Obligation(f'controlled.{gname}', body, twin=lambda cx, b=body: b(cx, wrong=True), opts={'weight': 3}, desc='g.controlled(num_controls, control_values, control_qid_shape) incl. the CX/CCX/CZ/CCZ specialisations, qutrit controls and sum-of-products: unitary is the block matrix applying U exactly on the selected control states'))

    # qudit targets: the specialisation must not fire (regression for /repo fix f6fad33)
    def qudit_body(cx, wrong=False):
        t = cx.real('t', -BOX, BOX)
        which = cx.choose('g', 2)
        d = cx.choose('dim', 2) + 3
        g = (cirq.XPowGate if which == 0 else cirq.ZPowGate)(exponent=t, dimension=d)
        nc = cx.choose('nc', 2) + 1
        cg = g.controlled(num_controls=nc)
        U = cirq.unitary(g)
        cx.check(cirq.qid_shape(cg) == (2,) * nc + (d,), label='controlled.qudit.qid_shape')
        exp = controlled_matrix(perturb(U) if wrong else U, [2] * nc, {(1,) * nc})
        cx.close(cirq.unitary(cg), exp, label='controlled.qudit.unitary')

    obs.append(Obligation('controlled.qudit_override', qudit_body, twin=lambda cx: qudit_body(cx, wrong=True), desc='XPowGate/ZPowGate(dimension=3,4).controlled(1..2): qid shape and block matrix (must not collapse to the qubit CNOT/CZ)'))

    # control-value algebra: & is the product, | the union of the admitted control states (finite menus)
    CVM = [
        lambda: cirq.ProductOfSums([0, 0]), lambda: cirq.ProductOfSums([1, 1]), lambda: cirq.ProductOfSums([(0, 1), 1]), lambda: cirq.ProductOfSums([0, (0, 1)]),
        lambda: cirq.SumOfProducts([[0, 1], [1, 0]]), lambda: cirq.SumOfProducts([[1, 1]]), lambda: cirq.ProductOfSums([(0, 1), (0, 1)]),
    ]

    def cv_or_body(cx, wrong=False):
        a = CVM[cx.choose('a', len(CVM))]()
        b = CVM[cx.choose('b', len(CVM))]()
        got = set((a | b).expand())
        exp = set(a.expand()) | set(b.expand())
        if wrong:
            exp = exp | {(2, 2)}
        cx.check(got == exp, label='control_values.or_union')

    def cv_and_body(cx, wrong=False):
        a = CVM[cx.choose('a', len(CVM))]()
        b = CVM[cx.choose('b', len(CVM))]()
        got = set((a & b).expand())
        exp = {x + y for x in a.expand() for y in b.expand()}
        if wrong:
            exp = exp | {(2, 2, 2, 2)}
        cx.check(got == exp, label='control_values.and_product')

    obs.append(Obligation('control_values.or_union', cv_or_body, twin=None, opts={'stop_on_violation': False}, desc='(a | b).expand() == a.expand() U b.expand() for all pairs from a 7-entry menu of ProductOfSums / SumOfProducts on 2 qubits (finite exploration; KNOWN FINDING on the unchanged tree for ProductOfSums | ProductOfSums)'))
    obs.append(Obligation('control_values.and_product', cv_and_body, twin=lambda cx: cv_and_body(cx, wrong=True), desc='(a & b).expand() is the product of the admitted control states (finite exploration)'))

    # ---- 3. phase_by == conjugation by the Z rotation, up to global phase ---------------------------------
    PH = [
        ('X', lambda t, s: cirq.XPowGate(exponent=t, global_shift=s), 1),
        ('Y', lambda t, s: cirq.YPowGate(exponent=t, global_shift=s), 1),
        ('Z', lambda t, s: cirq.ZPowGate(exponent=t, global_shift=s), 1),
        ('rx', lambda t, s: cirq.rx(t), 1),
        ('ry', lambda t, s: cirq.ry(t), 1),
        ('PhasedX', lambda t, s: cirq.PhasedXPowGate(exponent=t, phase_exponent=s), 1),
        ('PhasedXZ', lambda t, s: cirq.PhasedXZGate(x_exponent=t, z_exponent=s, axis_phase_exponent=0.125), 1),
        ('CZ', lambda t, s: cirq.CZPowGate(exponent=t, global_shift=s), 2),
        ('ZZ', lambda t, s: cirq.ZZPowGate(exponent=t, global_shift=s), 2),
        ('ISWAP', lambda t, s: cirq.ISwapPowGate(exponent=t), 2),
        ('FSim', lambda t, s: cirq.FSimGate(t, s), 2),
        ('PhasedISwap', lambda t, s: cirq.PhasedISwapPowGate(phase_exponent=s, exponent=t), 2),
        ('CCZ', lambda t, s: cirq.CCZPowGate(exponent=t), 3),
        ('SWAP', lambda t, s: cirq.SwapPowGate(exponent=t), 2),
        ('XX', lambda t, s: cirq.XXPowGate(exponent=t), 2),
    ]
    for gname, build, k in PH:
        def body(cx, wrong=False, build=build, gname=gname, k=k):
            t = cx.real('t', -BOX, BOX)
            s = cx.real('s', -1.0, 1.0)
            pt = cx.real('pt', -1.0, 1.0)
            g = build(t, s)
            idx = cx.choose('qubit_index', k)
            ph = cirq.phase_by(g, pt, idx, None)
            if ph is None:
                cx.note('no _phase_by_')
                return
            U = cirq.unitary(g)
            Zr = D.Z(2 * pt * (1.0 if not wrong else 1.05) + (0.3 if wrong else 0.0))
            Zi = D.Z(-2 * pt * (1.0 if not wrong else 1.05) - (0.3 if wrong else 0.0))
            V = _matmul(_matmul(EM.embed_matrix(Zr, [idx], k), U), EM.embed_matrix(Zi, [idx], k))
            close_up_to_phase(cx, cirq.unitary(ph), V, f'phase_by[{gname},q{idx}]')

        obs.append(Obligation(f'phase_by.{gname}', body, twin=(lambda cx, b=body: b(cx, wrong=True)) if gname in ('X', 'Y', 'rx', 'PhasedX') else None, opts={'weight': 2}, desc='cirq.phase_by(g, phase_turns, qubit) equals Z^(2 phase_turns) g Z^(-2 phase_turns) on that qubit up to global phase, for symbolic gate parameters and symbolic phase_turns (fast paths at phase 0, 1/4, 1/2 are forks)'))

    # ---- 4. commutes(a, b) True  =>  matrices commute ----------------------------------------------------------
    CM = [
        ('X', lambda t: cirq.X**t, 1),
        ('Y', lambda t: cirq.Y**t, 1),
        ('Z', lambda t: cirq.Z**t, 1),
        ('H', lambda t: cirq.H**t, 1),
        ('CZ', lambda t: cirq.CZ**t, 2),
        ('CX', lambda t: cirq.CX**t, 2),
        ('ZZ', lambda t: cirq.ZZ**t, 2),
        ('XX', lambda t: cirq.XX**t, 2),
        ('SWAP', lambda t: cirq.SWAP**t, 2),
        ('ISWAP', lambda t: cirq.ISWAP**t, 2),
        ('CCZ', lambda t: cirq.CCZ**t, 3),
        ('PhasedX', lambda t: cirq.PhasedXPowGate(exponent=t, phase_exponent=0.25), 1),
        ('FSim', lambda t: cirq.FSimGate(t, 0.3), 2),
        ('I', lambda t: cirq.I, 1),
    ]
    NQ = 3
    for i, (n1, b1, k1) in enumerate(CM):
        def body(cx, wrong=False, b1=b1, k1=k1, n1=n1):
            t = cx.real('t', -BOX, BOX)
            u = cx.real('u', -BOX, BOX)
            j = cx.choose('second', len(CM))
            n2, b2, k2 = CM[j]
            qs = cirq.LineQubit.range(NQ)
            pl1 = list(itertools.permutations(range(NQ), k1))[0]
            places2 = list(itertools.permutations(range(NQ), k2))
            pl2 = places2[cx.choose('place2', len(places2))]
            a = b1(t).on(*[qs[x] for x in pl1])
            b = b2(u).on(*[qs[x] for x in pl2])
            r = cirq.commutes(a, b, default=None)
            r2 = cirq.definitely_commutes(a, b)
            if wrong:
                r = True  # twin: claim everything commutes
            if (r is True or r2) and (wrong or not used_fallback(cx)):
                A = EM.embed_matrix(cirq.unitary(a), list(pl1), NQ)
                B = EM.embed_matrix(cirq.unitary(b), list(pl2), NQ)
                cx.close(_matmul(A, B), _matmul(B, A), tol=1e-6, label=f'commutes[{n1},{n2}]=True => AB==BA')
            # gate-level predicate on same qubits
            if k1 == k2 and not wrong:
                n_before = len(cx.notes)
                rg = cirq.commutes(b1(t), b2(u), default=None)
                if rg is True and 'matrix-fallback' not in cx.notes[n_before:]:
                    A = cirq.unitary(b1(t))
                    B = cirq.unitary(b2(u))
                    cx.close(_matmul(A, B), _matmul(B, A), tol=1e-6, label=f'gate commutes[{n1},{n2}]=True => AB==BA')

        obs.append(Obligation(f'commutes.{n1}', body, twin=(lambda cx, b=body: b(cx, wrong=True)) if n1 in ('X', 'CZ') else None, opts={'weight': 6, 'max_paths': 100000, 'decide_timeout_ms': 400}, desc='on every path where cirq.commutes / definitely_commutes answers True for two operations with symbolic exponents (all placements of the second op on 3 qubits), the embedded matrices commute'))

    # known finding: SingleQubitCliffordGate._commutes_ ignores global phase
    CL = list(cirq.SingleQubitCliffordGate.all_single_qubit_cliffords)

    def cliff_body(cx, wrong=False):
        i = cx.choose('a', len(CL))
        j = cx.choose('b', len(CL))
        a, b = CL[i], CL[j]
        r = cirq.commutes(a, b, default=None)
        if r is True or wrong:
            A, B = cirq.unitary(a), cirq.unitary(b)
            cx.close(A @ B, B @ A, label='commutes.single_qubit_clifford')

    obs.append(Obligation('commutes.single_qubit_clifford', cliff_body, opts={'stop_on_violation': False}, desc='all 576 ordered pairs of single-qubit Clifford gates: commutes True => matrices commute (KNOWN FINDING on the unchanged tree: tableau comparison ignores global phase, e.g. X and Z)'))

    # ---- 5. equality predicates agree with matrices -------------------------------------------------------
    EQ = [('X', cirq.XPowGate, D.X), ('Y', cirq.YPowGate, D.Y), ('Z', cirq.ZPowGate, D.Z), ('H', cirq.HPowGate, D.H), ('CZ', cirq.CZPowGate, D.CZ), ('SWAP', cirq.SwapPowGate, D.SWAP), ('ISWAP', cirq.ISwapPowGate, D.ISWAP), ('ZZ', cirq.ZZPowGate, D.ZZ), ('CCX', cirq.CCXPowGate, D.CCX)]
    SH = [0.0, -0.5, 0.25]
    N_PRED = 3  # approx_eq / equal_up_to_global_phase need the Lipschitz lemmas (enabled when available)
    for name, cls, doc in EQ:
        def body(cx, wrong=False, cls=cls, doc=doc, name=name):
            e1 = cx.real('e1', -6.0, 6.0)
            e2 = cx.real('e2', -6.0, 6.0)
            sh = SH[cx.choose('shift', len(SH))]
            g1 = cls(exponent=e1, global_shift=sh)
            g2 = cls(exponent=e2, global_shift=sh)
            mode = cx.choose('pred', N_PRED if name not in ('H', 'ISWAP') else 1)
            if mode == 0:
                r = g1 == g2
                if wrong:
                    r = True
                if bool(r):
                    cx.close(doc(e1, sh), doc(e2, sh), tol=1e-6, label=f'{name}: g1 == g2 => equal matrices')
            elif mode == 1:
                r = cirq.approx_eq(g1, g2, atol=1e-9)
                if bool(r):
                    cx.close(doc(e1, sh), doc(e2, sh), tol=1e-6, label=f'{name}: approx_eq => equal matrices')
            else:
                r = cirq.equal_up_to_global_phase(g1, g2, atol=1e-9)
                if bool(r):
                    # documented: U(e, shift) = exp(i pi e shift) * U(e, 0), so equality of the shift-free
                    # matrices is equality up to global phase
                    cx.close(doc(e1, 0.0), doc(e2, 0.0), tol=1e-6, label=f'{name}: equal_up_to_global_phase => shift-free matrices equal')

        obs.append(Obligation(f'equality.{name}', body, twin=lambda cx, b=body: b(cx, wrong=True), opts={'weight': 2, 'vc_timeout_ms': 120000}, desc='g(e1) == g(e2) / approx_eq / equal_up_to_global_phase True on a path (periodic canonicalisation of symbolic exponents) implies the documented matrices agree (up to phase for the last)'))

    # ---- 5a'. value equality of the IonQ native gates (all constructor parameters are part of the value) -----------------
    def eq_ionq_body(cx, wrong=False):
        import cirq_ionq

        kind = cx.choose('gate', 4)
        a = [cx.real(f'a{i}', -1.0, 1.0) for i in range(3)]
        b = [cx.real(f'b{i}', -1.0, 1.0) for i in range(3)]
        if kind == 0:
            g1, g2, d1, d2 = cirq_ionq.GPIGate(phi=a[0]), cirq_ionq.GPIGate(phi=b[0]), D.gpi(a[0]), D.gpi(b[0])
        elif kind == 1:
            g1, g2, d1, d2 = cirq_ionq.GPI2Gate(phi=a[0]), cirq_ionq.GPI2Gate(phi=b[0]), D.gpi2(a[0]), D.gpi2(b[0])
        elif kind == 2:
            g1, g2 = cirq_ionq.MSGate(phi0=a[0], phi1=a[1], theta=a[2]), cirq_ionq.MSGate(phi0=b[0], phi1=b[1], theta=b[2])
            d1, d2 = D.ionq_ms(a[0], a[1], a[2]), D.ionq_ms(b[0], b[1], b[2])
        else:
            g1, g2, d1, d2 = cirq_ionq.ZZGate(theta=a[0]), cirq_ionq.ZZGate(theta=b[0]), D.ionq_zz(a[0]), D.ionq_zz(b[0])
        r = g1 == g2
        if wrong:
            r = True
        if bool(r):
            cx.check(hash(g1) == hash(g2), label='ionq gates: equal => equal hash')
            cx.close(d1, d2, tol=1e-6, label='ionq native gates: g1 == g2 => equal documented matrices')

    obs.append(Obligation('equality.ionq', eq_ionq_body, twin=lambda cx: eq_ionq_body(cx, wrong=True), opts={'weight': 2}, desc='cirq_ionq GPIGate / GPI2Gate / MSGate / ZZGate with all constructor parameters symbolic: g1 == g2 (and equal hash) implies equal documented matrices'))

    # ---- 5b. equality predicates on OPERATIONS: qubit order matters -----------------------------------------------------
    EQ_OPS = [('CX', cirq.CXPowGate, D.CX, 2), ('CZ', cirq.CZPowGate, D.CZ, 2), ('CY', cirq.CYPowGate, D.CY, 2), ('SWAP', cirq.SwapPowGate, D.SWAP, 2), ('CCX', cirq.CCXPowGate, D.CCX, 3), ('CCZ', cirq.CCZPowGate, D.CCZ, 3)]

    def eq_ops_body(cx, wrong=False):
        name, cls, doc, k = EQ_OPS[cx.choose('gate', len(EQ_OPS))]
        qs = cirq.LineQubit.range(k)
        perms = list(itertools.permutations(range(k)))
        p1 = perms[cx.choose('order1', len(perms))]
        p2 = perms[cx.choose('order2', len(perms))]
        e1 = cx.real('e1', -3.0, 3.0)
        e2 = cx.real('e2', -3.0, 3.0)
        tagged = cx.choose('tagged', 2)
        op1 = cls(exponent=e1).on(*[qs[i] for i in p1])
        op2 = cls(exponent=e2).on(*[qs[i] for i in p2])
        if tagged:
            op1, op2 = op1.with_tags('t'), op2.with_tags('t')
        mode = cx.choose('pred', 3)
        r = (op1 == op2) if mode == 0 else (cirq.approx_eq(op1, op2, atol=1e-9) if mode == 1 else cirq.equal_up_to_global_phase(op1, op2, atol=1e-9))
        if wrong:
            r = True
        if bool(r):
            # no global shift: all three predicates then mean equality of the operators on the fixed qubit order
            cx.close(EM.embed_matrix(doc(e1), list(p1), k), EM.embed_matrix(doc(e2), list(p2), k), tol=1e-6, label=f'{name}: predicate {mode} True on operations => same operator on (q0..q{k - 1})')

    # gates whose interchangeability of the two qubits DEPENDS on their (symbolic) parameters
    def eq_ops_param_body(cx, wrong=False):
        kind = cx.choose('gate', 3)
        qs = cirq.LineQubit.range(2)
        th = cx.real('theta', -4.0, 4.0)
        a, b, c = cx.real('a', -4.0, 4.0), cx.real('b', -4.0, 4.0), cx.real('c', -4.0, 4.0)
        special = cx.choose('theta_at', 5)  # generic, or pinned to the special angles at which sub-blocks vanish
        if special:
            th = [None, 0.0, math.pi / 2, -math.pi / 2, math.pi][special]
        if kind == 0:
            g = cirq.PhasedFSimGate(theta=th, zeta=a, chi=b, gamma=c, phi=cx.real('phi', -4.0, 4.0))
        elif kind == 1:
            g = cirq.FSimGate(theta=th, phi=a)
        else:
            g = cirq.PhasedISwapPowGate(phase_exponent=a, exponent=b)
        op1, op2 = g.on(qs[0], qs[1]), g.on(qs[1], qs[0])
        # (equal_up_to_global_phase on these operations first asks the same grouping question and then compares the
        # two equal gates numerically through ndarray.item(): not symbolic, and trivially true)
        mode = 0
        r = op1 == op2
        if wrong:
            r = True
        if bool(r):
            if not wrong:
                cx.check(hash(op1) == hash(op2), label='equal operations have equal hashes')
            U = np.asarray(cirq.unitary(g), dtype=object)
            cx.close(EM.embed_matrix(U, [0, 1], 2), EM.embed_matrix(U, [1, 0], 2), tol=1e-6, label=f'gate kind {kind}: g(a, b) == g(b, a) (predicate {mode}) => the matrix is symmetric under exchanging the qubits')

    obs.append(Obligation('equality.operations_exchange_param', eq_ops_param_body, twin=lambda cx: eq_ops_param_body(cx, wrong=True), opts={'weight': 6}, desc='PhasedFSimGate / FSimGate / PhasedISwapPowGate with symbolic angles (theta also pinned to 0, +-pi/2, pi): if g.on(a, b) == g.on(b, a), the gate matrix is invariant under exchanging its qubits (qubit_index_to_equivalence_group_key depends on the parameters)'))

    obs.append(Obligation('equality.operations_qubit_order', eq_ops_body, twin=lambda cx: eq_ops_body(cx, wrong=True), opts={'weight': 6}, desc='op1 == op2 / approx_eq / equal_up_to_global_phase on (tagged) gate OPERATIONS of 6 two/three-qubit gate families placed on every pair of qubit orders, symbolic exponents: a True answer implies the same operator on the fixed qubit order (asymmetric gates on exchanged qubits are different operations)'))

    # ---- 5c. equality of controlled operations with correlated control values ---------------------------------------------
    def cv_menu():
        SoP, PoS = cirq.SumOfProducts, cirq.ProductOfSums
        # (control_values object, allowed joint values of the LISTED controls, written out by hand)
        return [
            (PoS([(1,), (1,)]), {(1, 1)}),
            (PoS([(0,), (1,)]), {(0, 1)}),
            (PoS([(0, 1), (1,)]), {(0, 1), (1, 1)}),
            (PoS([(0, 1), (0, 1)]), {(0, 0), (0, 1), (1, 0), (1, 1)}),
            (SoP([(0, 0), (1, 1)]), {(0, 0), (1, 1)}),
            (SoP([(0, 1), (1, 0)]), {(0, 1), (1, 0)}),
            (SoP([(0, 0), (0, 1), (1, 0), (1, 1)]), {(0, 0), (0, 1), (1, 0), (1, 1)}),
            (SoP([(1, 1)]), {(1, 1)}),
            (SoP([(0, 1), (1, 1)]), {(0, 1), (1, 1)}),
            (SoP([(0, 1)]), {(0, 1)}),
        ]

    EQ_CVM = cv_menu()

    def eq_ctrl_body(cx, wrong=False):
        c0, c1, tq = cirq.LineQubit.range(3)
        t = cx.real('t', -3.0, 3.0)
        mats = []
        ops_ = []
        for side in (1, 2):
            cv, allowed = EQ_CVM[cx.choose(f'cv{side}', len(EQ_CVM))]
            swap = cx.choose(f'listed{side}', 2)  # controls listed as (c0, c1) or (c1, c0)
            ctrls = [c1, c0] if swap else [c0, c1]
            ops_.append(cirq.ControlledOperation(ctrls, cirq.X(tq) ** t, control_values=cv))
            # operator on (c0, c1, t): X**t on the control states allowed for the listed controls, identity elsewhere
            Mx = np.zeros((8, 8), dtype=object)
            Mx[:] = 0
            Xt = D.X(t)
            for a in (0, 1):
                for b in (0, 1):
                    listed = (b, a) if swap else (a, b)
                    blk = Xt if listed in allowed else np.eye(2)
                    for i in (0, 1):
                        for j in (0, 1):
                            Mx[4 * a + 2 * b + i, 4 * a + 2 * b + j] = blk[i][j] if not hasattr(blk, 'shape') else blk[i, j]
            mats.append(Mx)
        r = ops_[0] == ops_[1]
        if wrong:
            r = True
        if bool(r):
            cx.check(hash(ops_[0]) == hash(ops_[1]), label='controlled operations: equal => equal hash')
            cx.close(mats[0], mats[1], tol=1e-6, label='controlled operations: op1 == op2 => same operator (control values may be correlated)')

    obs.append(Obligation('equality.controlled_operations', eq_ctrl_body, twin=lambda cx: eq_ctrl_body(cx, wrong=True), opts={'weight': 6}, desc='ControlledOperation(controls, X(t)**e, control_values) == ControlledOperation(...) for all pairs from a menu of 10 ProductOfSums / SumOfProducts control values (correlated ones included), controls listed in both orders, symbolic exponent: equality (and equal hash) implies the same operator, written out from the allowed joint control states'))

    # ---- 5b. trace_distance_bound is an upper bound of the true maximal trace distance ----------------------------
    # A unitary whose eigenvalues are exp(i a) (several times) and exp(i (a + d)) moves a state by at most
    # sqrt(1 - min_p |p + (1 - p) e^{i d}|^2) = |sin(d / 2)| (attained at p = 1/2): the bound must not be smaller.
    TD = [('X', cirq.XPowGate), ('Y', cirq.YPowGate), ('Z', cirq.ZPowGate), ('CZ', cirq.CZPowGate), ('CX', cirq.CXPowGate), ('SWAP', cirq.SwapPowGate), ('ZZ', cirq.ZZPowGate), ('XX', cirq.XXPowGate), ('YY', cirq.YYPowGate), ('CCZ', cirq.CCZPowGate), ('CCX', cirq.CCXPowGate), ('H', cirq.HPowGate)]
    for name, cls in (TD if tier == 'thorough' else TD[:6]):
        def td_body(cx, wrong=False, cls=cls, name=name):
            t = cx.real('t', -BOX, BOX)
            s = cx.real('s', -1.0, 1.0)
            g = cls(exponent=t, global_shift=s)
            for which, obj in (('gate', g), ('op', g.on(*cirq.LineQubit.range(cirq.num_qubits(g))))):
                b = cirq.trace_distance_bound(obj)
                half = (t * (0.5 * math.pi))
                sn = half.sin() if hasattr(half, 'sin') else math.sin(half)
                if wrong:
                    sn = sn * 1.5
                cx.check(b * b - sn * sn >= -1e-7, label=f'trace_distance_bound[{name}.{which}]**2 >= sin(pi t / 2)**2 (the maximal trace distance of a two-eigenvalue unitary)')
                cx.check(b <= 1.0 + 1e-9, label=f'trace_distance_bound[{name}.{which}] <= 1')

        obs.append(Obligation(f'trace_distance.{name}', td_body, twin=lambda cx, b=td_body: b(cx, wrong=True), desc='cirq.trace_distance_bound(g(t, s)) (gate and operation; EigenGate._trace_distance_bound_ / the family override, trace_distance_from_angle_list with a symbolic sort) is at least |sin(pi t / 2)|, the maximal trace distance a unitary with eigenphases pi t s and pi t (s + 1) can cause, for symbolic exponent and shift'))

    # ---- 6. has_stabilizer_effect True => matrix maps Paulis to Paulis -------------------------------------------
    ST = [('X', lambda t: cirq.X**t, 1), ('Y', lambda t: cirq.Y**t, 1), ('Z', lambda t: cirq.Z**t, 1), ('H', lambda t: cirq.H**t, 1), ('CZ', lambda t: cirq.CZ**t, 2), ('CX', lambda t: cirq.CX**t, 2), ('SWAP', lambda t: cirq.SWAP**t, 2), ('ISWAP', lambda t: cirq.ISWAP**t, 2), ('ZZ', lambda t: cirq.ZZ**t, 2), ('XX', lambda t: cirq.XX**t, 2), ('YY', lambda t: cirq.YY**t, 2), ('PhasedX', lambda t: cirq.PhasedXPowGate(exponent=t, phase_exponent=0.5), 1), ('CY', lambda t: cirq.CY**t, 2)]
    for name, build, k in ST:
        def body(cx, wrong=False, build=build, name=name, k=k):
            from checks.C13 import value_of

            t = cx.real('t', -BOX, BOX)
            g = build(t)
            r = cirq.has_stabilizer_effect(g)
            if wrong:
                cx.assume(t == 0.3)
                r = True
            if bool(r):
                t0 = value_of(cx, 't', t)
                U = cirq.unitary(build(t0))
                ok = True
                try:
                    OP.conjugation_table(U, k)
                except ValueError:
                    ok = False
                cx.check(ok, label=f'has_stabilizer_effect[{name}] True but U(t={t0}) is not Clifford')

        obs.append(Obligation(f'stabilizer.{name}', body, twin=lambda cx, b=body: b(cx, wrong=True), desc='has_stabilizer_effect(g(t)) True on a path (the path pins t modulo the gate period) => cirq.unitary at a solver witness of that path maps every Pauli to a signed Pauli'))

    # ---- 7. pauli_expansion sums to the matrix ---------------------------------------------------------------------
    PE = [('X', cirq.XPowGate, D.X, 1), ('Y', cirq.YPowGate, D.Y, 1), ('Z', cirq.ZPowGate, D.Z, 1), ('H', cirq.HPowGate, D.H, 1), ('CZ', cirq.CZPowGate, D.CZ, 2), ('CX', cirq.CXPowGate, D.CX, 2), ('ZZ', cirq.ZZPowGate, D.ZZ, 2), ('XX', cirq.XXPowGate, D.XX, 2), ('YY', cirq.YYPowGate, D.YY, 2), ('SWAP', cirq.SwapPowGate, D.SWAP, 2), ('ISWAP', cirq.ISwapPowGate, D.ISWAP, 2), ('CCZ', cirq.CCZPowGate, D.CCZ, 3), ('CCX', cirq.CCXPowGate, D.CCX, 3)]
    for name, cls, doc, k in PE:
        def body(cx, wrong=False, cls=cls, doc=doc, name=name, k=k):
            t = cx.real('t', -BOX, BOX)
            s = cx.real('s', -1.0, 1.0)
            g = cls(exponent=t, global_shift=s)
            ex = cirq.pauli_expansion(g, default=None)
            if ex is None:
                cx.note('no closed-form expansion')
                return
            tot = np.zeros((2**k, 2**k), dtype=object)
            for name_, coef in ex.items():
                bits = []
                for ch in name_:
                    bits += {'I': [0, 0], 'X': [1, 0], 'Y': [1, 1], 'Z': [0, 1]}[ch]
                P = OP.pauli_matrix(bits)
                tot = tot + P * coef if not hasattr(coef, 't') else tot + _scale(P, coef)
            M = doc(t, s)
            cx.close(tot, perturb(M) if wrong else M, label=f'pauli_expansion[{name}] sums to the matrix')

        obs.append(Obligation(f'pauli_expansion.{name}', body, twin=lambda cx, b=body: b(cx, wrong=True), desc='sum_P cirq.pauli_expansion(g(t,s))[P] * P equals the documented matrix for symbolic t, s'))
    return obs


def _scale(P, coef):
    out = np.empty(P.shape, dtype=object)
    for i in range(P.shape[0]):
        for j in range(P.shape[1]):
            out[i, j] = coef * complex(P[i, j])
    return out


LEVEL = (
    'Bounded symbolic execution of the real gate-algebra code, SMT-decided: exponents, powers, global shifts, phase turns are symbolic reals flowing '
    'through EigenGate.__pow__/_with_exponent, cirq.pow/inverse, Gate.controlled overrides, _phase_by_ implementations, commutes / == / approx_eq / '
    'equal_up_to_global_phase / has_stabilizer_effect / pauli_expansion; every predicate is checked for SOUNDNESS: on each explored path where it answered '
    'True, z3 decides that the matrix fact (commutator zero, equal matrices, equal up to phase, Clifford) holds for all parameter values satisfying the path condition.'
)


def main(tier, seed=0, replay=None, only=None, procs=None):
    bounds = {
        'exponent_box': [-BOX, BOX],
        'power_box': [-3, 3],
        'shift_box': [-1, 1],
        'binary_predicates': '14 families x 14 families, second op on every placement on 3 qubits, both exponents symbolic',
        'control_specs': 8,
        'equality_shifts': [0.0, -0.5, 0.25],
        'commutes_fallback': 'paths on which the answer came from the numeric matrix comparison (np.allclose(AB, BA), rtol 1e-5) are tautological and not re-asserted; rule-based answers (_commutes_, _commutes_on_qids_, disjoint qubits, equal moments) are',
        'outside': ['approx_eq / equal_up_to_global_phase for HPowGate and ISwapPowGate (the NRA proof with irrational eigenvector entries does not finish: left out, not claimed)', 'has_stabilizer_effect of PhasedXZGate (round(x, ndigits) of a symbolic value) and of 3-qubit gates (unitary-based strategy)', 'trace_distance_bound of controlled / parallel / phased gates (eigenvalue angles of symbolic matrices through LAPACK; a diagonal-eigvals + principal-angle model exists in symx/proxy.py but the three-eigenspace VC with floor atoms was not decided within 14 min: not claimed); claimed only for the two-eigenvalue EigenGate families (trace_distance.*)', 'predicates answering False/None are not checked (they may be conservative)', 'MatrixGate powers (LAPACK)', 'FSimGate ** non-unit powers (canonicalised angle branch)'],
    }
    return run_check(PID, tier, 'checks.C08', SHIMS, LEVEL, BASE_ASSUMPTIONS, bounds, seed=seed, replay=replay, only=only, procs=procs)

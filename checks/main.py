"""bin/check entry point."""
import argparse
import importlib
import os
import sys


def main():
    ap = argparse.ArgumentParser()
    ap.add_argument('pid')
    ap.add_argument('--tier', default=os.environ.get('VERIF_TIER', 'quick'), choices=['quick', 'thorough'])
    ap.add_argument('--replay', default=None)
    ap.add_argument('--only', nargs='*', default=None)
    ap.add_argument('--procs', type=int, default=None)
    a = ap.parse_args()
    seed = int(os.environ.get('VERIF_SEED', '0') or 0)
    mod = importlib.import_module(f'checks.{a.pid}')
    rc = mod.main(a.tier, seed=seed, replay=a.replay, only=a.only, procs=a.procs)
    sys.exit(rc)


if __name__ == '__main__':
    main()

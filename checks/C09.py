"""C09: noisy and mixed-state simulation implements the channel semantics."""
from __future__ import annotations

import itertools
import math

import numpy as np

from checks.C04 import _kron, _matmul
from checks.C08 import dag
from checks.common import BASE_ASSUMPTIONS, CORE_SHIM_MODULES, perturb
from oracles import embed as EM
from oracles import gates_doc as D
from symx.explore import Obligation
from symx.run import run_check

PID = 'C09'
SHIMS = CORE_SHIM_MODULES + [
    'cirq.protocols.apply_channel_protocol',
    'cirq.protocols.apply_mixture_protocol',
    'cirq.protocols.act_on_protocol',
    'cirq.protocols.has_unitary_protocol',
    'cirq.protocols.decompose_protocol',
    'cirq.ops.kraus_channel',
    'cirq.ops.mixed_unitary_channel',
    'cirq.ops.random_gate_channel',
    'cirq.qis.channels',
    'cirq.qis.states',
    'cirq.circuits.circuit',
    'cirq.circuits.moment',
    'cirq.devices.noise_model',
    'cirq.sim.simulator_base',
    'cirq.sim.simulator',
    'cirq.sim.simulation_state',
    'cirq.sim.simulation_state_base',
    'cirq.sim.simulation_product_state',
    'cirq.sim.simulation_utils',
    'cirq.sim.density_matrix_simulator',
    'cirq.sim.density_matrix_simulation_state',
    'cirq.sim.density_matrix_utils',
    'cirq.sim.sparse_simulator',
    'cirq.sim.state_vector_simulation_state',
    'cirq.sim.state_vector_simulator',
    'cirq.sim.state_vector',
    'cirq.value.probability' if False else 'cirq.value.angle',
]


def worker_setup():
    """np.clip on symbolic probabilities (cirq.sim.simulation_utils): see checks/C02.worker_setup"""
    from checks.C02 import worker_setup as ws

    return ws()


def channel_menu():
    """(name, nparams, build(params)->gate, doc_kraus(params)->list of 2x2 matrices)"""
    import cirq

    def mix_to_kraus(mix):
        from symx.snum import sqrt

        return [D.M([[sqrt(p) * u[0, 0], sqrt(p) * u[0, 1]], [sqrt(p) * u[1, 0], sqrt(p) * u[1, 1]]]) for p, u in mix]

    return [
        ('amplitude_damp', 1, lambda g: cirq.amplitude_damp(g), D.kraus_amplitude_damp),
        ('phase_damp', 1, lambda g: cirq.phase_damp(g), D.kraus_phase_damp),
        ('generalized_amplitude_damp', 2, lambda p, g: cirq.generalized_amplitude_damp(p, g), D.kraus_generalized_amplitude_damp),
        ('depolarize', 1, lambda p: cirq.depolarize(p), lambda p: mix_to_kraus(D.mixture_depolarize(p))),
        ('bit_flip', 1, lambda p: cirq.bit_flip(p), lambda p: mix_to_kraus(D.mixture_bit_flip(p))),
        ('phase_flip', 1, lambda p: cirq.phase_flip(p), lambda p: mix_to_kraus(D.mixture_phase_flip(p))),
        ('reset', 0, lambda: cirq.ResetChannel(), lambda: D.kraus_reset(2)),
        ('X**t', 1, lambda t: cirq.X**t, lambda t: [D.X(t)]),
    ]


def apply_kraus(ks, rho, pos, n):
    """rho (2^n x 2^n object matrix) -> sum_k K rho K^dag with K embedded on `pos`"""
    tot = None
    for K in ks:
        Kf = EM.embed_matrix(np.asarray(K, dtype=object), pos, n)
        term = _matmul(_matmul(Kf, rho), dag(Kf))
        tot = term if tot is None else tot + term
    return tot


def params(cx, names, npar, lo=0.0, hi=1.0):
    return [cx.real(names[i], lo, hi) for i in range(npar)]


def obligations(tier):
    import cirq

    obs = []
    MENU = channel_menu()

    # ---- A: cirq.apply_channel on arbitrary left/right axes of an arbitrary symbolic tensor ----------------
    for name, npar, build, doc in MENU:
        def body(cx, wrong=False, build=build, doc=doc, npar=npar, name=name):
            ps = params(cx, ['p', 'g'], npar, 0.0, 1.0) if name != 'X**t' else params(cx, ['t'], 1, -4.0, 4.0)
            ch = build(*ps)
            layout = cx.choose('layout', 3)
            if layout == 0:
                shape, left, right = (2, 2), (0,), (1,)
            elif layout == 1:  # 2-qubit density tensor, channel on qubit 1
                shape, left, right = (2, 2, 2, 2), (1,), (3,)
            else:  # channel on qubit 0
                shape, left, right = (2, 2, 2, 2), (0,), (2,)
            T = EM.sym_tensor(cx, shape, 'R')
            B0 = EM.sym_tensor(cx, shape, 'B')
            B1 = B0.copy()
            B2 = B0.copy()
            ks = doc(*ps)
            if wrong:
                ks = [perturb(ks[0])] + list(ks[1:])
            exp = None
            for K in ks:
                K = np.asarray(K, dtype=object)
                Kc = np.empty(K.shape, dtype=object)
                for i in range(2):
                    for j in range(2):
                        e = K[i, j]
                        Kc[i, j] = e.conjugate() if hasattr(e, 'conjugate') else np.conj(e)
                term = EM.apply_matrix_to_axes(Kc, EM.apply_matrix_to_axes(K, T, list(left)), list(right))
                exp = term if exp is None else exp + term
            args = cirq.ApplyChannelArgs(target_tensor=T.copy(), out_buffer=B0, auxiliary_buffer0=B1, auxiliary_buffer1=B2, left_axes=left, right_axes=right)
            res = cirq.apply_channel(ch, args)
            cx.close(res, exp, label=f'apply_channel[{name}] layout={layout}')

        obs.append(Obligation(f'apply_channel.{name}', body, twin=lambda cx, b=body: b(cx, wrong=True), opts={'weight': 4}, desc='cirq.apply_channel(channel(symbolic params)) on left/right axes of an ARBITRARY symbolic density tensor (1 and 2 qubits, symbolic scratch buffers) vs sum_k K rho K^dag with the documented Kraus operators'))

    # ---- B: descriptions of one channel agree: kraus / mixture / superoperator / choi ------------------------
    for name, npar, build, doc in MENU:
        def body(cx, wrong=False, build=build, doc=doc, npar=npar, name=name):
            ps = params(cx, ['p', 'g'], npar, 0.0, 1.0) if name != 'X**t' else params(cx, ['t'], 1, -4.0, 4.0)
            ch = build(*ps)
            ks = [np.asarray(k, dtype=object) for k in cirq.kraus(ch)]
            # superoperator = sum K (x) conj(K)   (row-major vec)
            sup = None
            choi = None
            for K in ks:
                Kc = np.empty(K.shape, dtype=object)
                for i in range(2):
                    for j in range(2):
                        e = K[i, j]
                        Kc[i, j] = e.conjugate() if hasattr(e, 'conjugate') else np.conj(e)
                t1 = _kron(K, Kc)
                sup = t1 if sup is None else sup + t1
                v = K.reshape(-1)
                vc = Kc.reshape(-1)
                t2 = np.empty((4, 4), dtype=object)
                for a in range(4):
                    for b in range(4):
                        t2[a, b] = v[a] * vc[b]
                choi = t2 if choi is None else choi + t2
            if wrong:
                sup = perturb(sup)
            cx.close(cirq.kraus_to_superoperator(cirq.kraus(ch)), sup, label=f'{name}: kraus_to_superoperator')
            cx.close(cirq.kraus_to_choi(cirq.kraus(ch)), choi, label=f'{name}: kraus_to_choi')
            cx.close(cirq.operation_to_superoperator(ch.on(cirq.LineQubit(0))), sup, label=f'{name}: operation_to_superoperator')
            cx.close(cirq.operation_to_choi(ch.on(cirq.LineQubit(0))), choi, label=f'{name}: operation_to_choi')
            cx.close(cirq.choi_to_superoperator(cirq.kraus_to_choi(cirq.kraus(ch))), sup, label=f'{name}: choi_to_superoperator')
            cx.close(cirq.superoperator_to_choi(cirq.kraus_to_superoperator(cirq.kraus(ch))), choi, label=f'{name}: superoperator_to_choi')
            # Moment / Circuit superoperator of the single-op circuit
            q = cirq.LineQubit(0)
            cx.close(cirq.Circuit(ch.on(q))._superoperator_(), sup, label=f'{name}: Circuit._superoperator_')
            # trace preservation
            tot = None
            for K in ks:
                t3 = _matmul(dag(K), K)
                tot = t3 if tot is None else tot + t3
            cx.close(tot, np.eye(2), label=f'{name}: sum K^dag K = I')
            cx.check(cirq.has_kraus(ch) is True, label=f'{name}: has_kraus')
            if cirq.has_mixture(ch):
                mix = cirq.mixture(ch)
                msup = None
                for pr, u in mix:
                    u = np.asarray(u, dtype=object)
                    t4 = _kron(u, np.conj(np.asarray(u, dtype=complex)) if not _symb(u) else _conj(u)) * pr
                    msup = t4 if msup is None else msup + t4
                cx.close(msup, sup, label=f'{name}: mixture describes the same map as kraus')

        obs.append(Obligation(f'descriptions.{name}', body, twin=lambda cx, b=body: b(cx, wrong=True), desc='kraus / mixture / kraus_to_superoperator / kraus_to_choi / choi<->superoperator / operation_to_* / Circuit._superoperator_ describe the same trace-preserving map (symbolic channel parameters)'))

    # ---- C: DensityMatrixSimulator final state == ordered channel application ----------------------------------
    PREP = [('Xt0', lambda q, t: [cirq.X(q[0]) ** t]), ('bell', lambda q, t: [cirq.H(q[0]), cirq.CNOT(q[0], q[1])])]
    PREP_DOC = {'H0': lambda t: [(D.H(1.0), [0])], 'Xt0': lambda t: [(D.X(t), [0])], 'bell': lambda t: [(D.H(1.0), [0]), (D.CX(1.0), [0, 1])], 'HH': lambda t: [(D.H(1.0), [0]), (D.H(1.0), [1])]}
    MID = [('none', lambda q, u: [], lambda u: []), ('CNOT', lambda q, u: [cirq.CNOT(q[1], q[0])], lambda u: [(D.CX(1.0), [1, 0])])]  # (a CZ**u entangler with symbolic u was tried in the thorough tier: 20 of 2800 paths of dm_simulate.phase_flip stayed undecided in the NRA stage, so it is not part of the claim)
    # second channel: both tiers use 3 second channels; larger menus left VCs of dm_simulate.amplitude_damp / X**t undecided (exact / NRA stage unknown) (the full menu incl. generalized_amplitude_damp as SECOND channel
    # ran three obligations past 100 CPU-minutes each without finishing: products of several sqrt atoms)
    CH2 = [m for m in MENU if m[0] in ('amplitude_damp', 'depolarize', 'reset')]
    for name, npar, build, doc in [m for m in MENU if m[0] != 'generalized_amplitude_damp']:
        def body(cx, wrong=False, build=build, doc=doc, npar=npar, name=name):
            n = 2
            q = cirq.LineQubit.range(n)
            t = cx.real('t', -4.0, 4.0)
            u = cx.real('u', -4.0, 4.0)
            pi_ = cx.choose('prep', len(PREP))
            where1 = cx.choose('where1', 2)
            mi = cx.choose('mid', len(MID))
            c2 = cx.choose('ch2', len(CH2))
            where2 = cx.choose('where2', 2)
            split = bool(cx.choose('split', 2))
            ps1 = params(cx, ['p1', 'g1'], npar, 0.0, 1.0) if name != 'X**t' else params(cx, ['t1'], 1, -4.0, 4.0)
            n2, np2, b2, d2 = CH2[c2]
            ps2 = params(cx, ['p2', 'g2'], np2, 0.0, 1.0) if n2 != 'X**t' else params(cx, ['t2'], 1, -4.0, 4.0)
            ops = PREP[pi_][1](q, t) + [build(*ps1).on(q[where1])] + MID[mi][1](q, u) + [b2(*ps2).on(q[where2])]
            circuit = cirq.Circuit(ops)
            rho = np.zeros((4, 4), dtype=object)
            rho[:] = 0
            b0 = 0  # |00> (larger thorough menus - |11>, more preparations / second channels, a CZ**u entangler - left a few VCs undecided in the exact / NRA stages even on an idle machine, so both tiers use these menus)
            rho[b0, b0] = 1
            for Mx, pos in PREP_DOC[PREP[pi_][0]](t):
                rho = apply_kraus([Mx], rho, pos, n)
            k1 = doc(*ps1)
            rho = apply_kraus([perturb(k1[0])] + list(k1[1:]) if wrong else k1, rho, [where1], n)
            for Mx, pos in MID[mi][2](u):
                rho = apply_kraus([Mx], rho, pos, n)
            rho = apply_kraus(d2(*ps2), rho, [where2], n)
            sim = cirq.DensityMatrixSimulator(dtype=np.complex128, split_untangled_states=split)
            res = sim.simulate(circuit, qubit_order=q, initial_state=int(b0))
            cx.close(res.final_density_matrix, rho, label=f'DensityMatrixSimulator[{name}] split={split}')

        obs.append(Obligation(f'dm_simulate.{name}', body, twin=lambda cx, b=body: b(cx, wrong=True), opts={'weight': 12, 'max_paths': 200000}, desc='DensityMatrixSimulator.simulate on prep + channel + (entangler) + channel circuits over 2 qubits (all placements, split on/off, two basis initial states), all channel/gate parameters symbolic, vs ordered sum_k K rho K^dag with documented Kraus operators'))

    # ---- C1b: a multi-qubit Kraus channel OBJECT used several times (general einsum path; operators with complex entries) --
    def kraus2_body(cx, wrong=False):
        from symx.snum import sqrt as ssqrt

        n = 3
        q = cirq.LineQubit.range(n)
        p = cx.real('p', 0.0, 1.0)
        t = cx.real('t', -4.0, 4.0)
        uses = [[(0, 1)], [(0, 1), (1, 2)], [(0, 1), (1, 2), (2, 0)], [(1, 0), (1, 0)]][cx.choose('uses', 4)]
        # two-qubit mixed-unitary Kraus pair with genuinely complex entries: sqrt(1-p) I, sqrt(p) (S (x) T)(CZ)
        U = np.kron(np.diag([1, 1j]), np.diag([1, np.exp(0.25j * np.pi)])) @ np.diag([1, 1, 1, -1]).astype(complex)
        if cx.mode == 'concrete':
            a0, a1 = np.sqrt(1 - p), np.sqrt(p)
        else:
            a0, a1 = ssqrt(1 - p), ssqrt(p)
        K0 = np.asarray(np.eye(4, dtype=complex) * 1, dtype=object) * a0
        K1 = np.asarray(U, dtype=object) * a1
        if cx.mode == 'concrete':
            K0, K1 = K0.astype(np.complex128), K1.astype(np.complex128)
        else:
            from symx.proxy import wrap

            K0, K1 = wrap(K0), wrap(K1)
        ch = cirq.KrausChannel([K0, K1], validate=False)
        ops = [cirq.X(q[0]) ** t, cirq.H(q[1]), cirq.H(q[2])] + [ch.on(q[a], q[b]) for a, b in uses]
        rho = np.zeros((8, 8), dtype=object)
        rho[:] = 0
        rho[0, 0] = 1
        rho = apply_kraus([D.X(t)], rho, [0], n)
        rho = apply_kraus([D.H(1.0)], rho, [1], n)
        rho = apply_kraus([D.H(1.0)], rho, [2], n)
        Kd = [np.eye(4, dtype=complex) * a0, U * a1]
        for ui, (a, b) in enumerate(uses):
            ks = [perturb(Kd[0])] + Kd[1:] if (wrong and ui == len(uses) - 1) else Kd
            rho = apply_kraus(ks, rho, [a, b], n)
        res = cirq.DensityMatrixSimulator(dtype=np.complex128, split_untangled_states=bool(cx.choose('split', 2))).simulate(cirq.Circuit(ops), qubit_order=q)
        cx.close(res.final_density_matrix, rho, label=f'DensityMatrixSimulator with one two-qubit KrausChannel object used {len(uses)} time(s)')
        got = cirq.kraus(ch)
        cx.close(np.asarray(got[1], dtype=object), np.asarray(Kd[1], dtype=object), label='the channel object still has its Kraus operators after the simulation')

    obs.append(Obligation('dm_simulate.kraus2_reuse', kraus2_body, twin=lambda cx: kraus2_body(cx, wrong=True), opts={'weight': 8}, desc='DensityMatrixSimulator.simulate(X**t, H, H, then ONE two-qubit cirq.KrausChannel object with complex operators applied on 1-3 qubit pairs), symbolic p and t, split on/off: final state == ordered sum_k K rho K^dag (multi-qubit einsum path of apply_channel) and the channel object keeps its operators'))

    # ---- C2: zero-qubit operations (global phase) inside mixed-state simulation: no effect on the density matrix ------
    def gphase_body(cx, wrong=False):
        n = 2
        q = cirq.LineQubit.range(n)
        t = cx.real('t', -4.0, 4.0)
        u = cx.real('u', -2.0, 2.0)
        p = cx.real('p', 0.0, 1.0)
        split = bool(cx.choose('split', 2))
        where = cx.choose('where', 3)
        gp = cirq.global_phase_operation(D.ph(u))
        ops = [cirq.X(q[0]) ** t, cirq.CNOT(q[0], q[1]), cirq.amplitude_damp(p).on(q[1])]
        ops.insert(where, gp)
        rho = np.zeros((4, 4), dtype=object)
        rho[:] = 0
        rho[0, 0] = 1
        rho = apply_kraus([D.X(t)], rho, [0], n)
        rho = apply_kraus([D.CX(1.0)], rho, [0, 1], n)
        k = D.kraus_amplitude_damp(p)
        rho = apply_kraus([perturb(k[0])] + list(k[1:]) if wrong else k, rho, [1], n)
        sim = cirq.DensityMatrixSimulator(dtype=np.complex128, split_untangled_states=split)
        res = sim.simulate(cirq.Circuit(ops), qubit_order=q)
        cx.close(res.final_density_matrix, rho, label=f'DensityMatrixSimulator with a global phase operation, split={split}')

    obs.append(Obligation('dm_simulate.global_phase', gphase_body, twin=lambda cx: gphase_body(cx, wrong=True), opts={'weight': 6}, desc='DensityMatrixSimulator.simulate(X**t, CNOT, amplitude_damp(p)) with a global phase operation exp(i pi u) inserted at every position, split on/off, all parameters symbolic: the zero-qubit operation leaves the density matrix unchanged (regression: the qubit-free factor of the product state made apply_channel raise)'))

    # ---- D: simulating with a noise model == simulating the noisy circuit (incl. idle / extra qubits) -----------
    def noise_body(cx, wrong=False):
        p = cx.real('p', 0.0, 1.0)
        t = cx.real('t', -4.0, 4.0)
        q = cirq.LineQubit.range(3)
        shape = cx.choose('shape', 3)
        ops = [[cirq.X(q[0]) ** t], [cirq.H(q[0]), cirq.CNOT(q[0], q[1])], [cirq.X(q[1]) ** t, cirq.H(q[0])]][shape]
        docs = [[(D.X(t), [0])], [(D.H(1.0), [0]), (D.CX(1.0), [0, 1])], [(D.X(t), [1]), (D.H(1.0), [0])]][shape]
        circuit = cirq.Circuit(ops)
        order_kind = cx.choose('order', 2)  # 0: exactly the circuit's qubits, 1: a superset (extra idle qubit)
        used = sorted(circuit.all_qubits())
        order = used if order_kind == 0 else list(q)
        n = len(order)
        noise_kind = cx.choose('noise', 2)
        noise_gate = cirq.depolarize(p) if noise_kind == 0 else cirq.amplitude_damp(p)
        kdoc = (lambda: channel_menu()[3][3](p)) if noise_kind == 0 else (lambda: D.kraus_amplitude_damp(p))
        # documented semantics: after every moment, the noise gate acts on every qubit OF THE CIRCUIT
        rho = np.zeros((2**n, 2**n), dtype=object)
        rho[:] = 0
        # initial |1> on every qubit so that noise on an idle qubit is visible
        b0 = 2**n - 1
        rho[b0, b0] = 1
        pos_of = {qq: order.index(qq) for qq in order}
        for moment in circuit:
            for op in moment:
                Mx = [d for d in docs if True][0]
            # apply this moment's documented matrices
            for op in moment:
                idx = ops.index(op)
                Mx, _pos = docs[idx]
                rho = apply_kraus([Mx], rho, [pos_of[x] for x in op.qubits], n)
            for qq in (used if not wrong else order[::-1][:1]):
                rho = apply_kraus(kdoc(), rho, [pos_of[qq]], n)
        sim = cirq.DensityMatrixSimulator(dtype=np.complex128, noise=noise_gate)
        res = sim.simulate(circuit, qubit_order=order, initial_state=int(b0))
        cx.close(res.final_density_matrix, rho, label=f'DensityMatrixSimulator(noise=...) order_kind={order_kind}')
        res2 = cirq.DensityMatrixSimulator(dtype=np.complex128).simulate(circuit.with_noise(noise_gate), qubit_order=order, initial_state=int(b0))
        cx.close(res2.final_density_matrix, rho, label=f'simulate(circuit.with_noise(...)) order_kind={order_kind}')

    obs.append(Obligation('noise_model.constant', noise_body, twin=lambda cx: noise_body(cx, wrong=True), opts={'weight': 8}, desc='DensityMatrixSimulator(noise=gate) and simulate(circuit.with_noise(gate)) both equal: after every moment the documented Kraus map on every qubit of the circuit (and NOT on extra idle qubits present only in qubit_order); symbolic noise strength and gate parameter'))

    # ---- D2: noise model + measurements: Simulator(noise=N) must equal simulating circuit.with_noise(N) ---------------
    # The simulators split a circuit into a prefix and a general suffix (per qubit) and generate the noise of each
    # part separately.  Compared here, for the same scripted generator: probability vector of every draw, records,
    # final density matrix.  Shapes 0-1 (measurements in the last moment, every qubit busy in every earlier moment)
    # are the healthy family; shapes 2-3 are ragged and are the recorded finding.
    def noise_meas_body(cx, shapes, wrong=False):
        from checks.C02 import make_prng

        p = cx.real('p', 0.0, 1.0)
        t = cx.real('t', -4.0, 4.0)
        q = cirq.LineQubit.range(2)
        M = cirq.Moment
        menu = [
            [M(cirq.X(q[0]) ** t, cirq.H(q[1])), M(cirq.measure(q[0], key='a'), cirq.measure(q[1], key='b'))],
            [M(cirq.H(q[0]), cirq.X(q[1]) ** t), M(cirq.CNOT(q[0], q[1])), M(cirq.measure(q[0], q[1], key='a'))],
            [M(cirq.H(q[0])), M(cirq.H(q[0]), cirq.measure(q[1], key='b'))],
            [M(cirq.X(q[0]) ** t, cirq.measure(q[1], key='b')), M(cirq.X(q[0]) ** t), M(cirq.measure(q[0], key='a'))],
        ]
        circuit = cirq.Circuit(menu[shapes[cx.choose('shape', len(shapes))]])
        noise_kind = cx.choose('noise', 2)
        noise_gate = cirq.depolarize(p) if noise_kind == 0 else cirq.amplitude_damp(p)
        b0 = 3  # |11>: noise on an idle qubit is visible
        outs = []
        for variant in (0, 1):
            prng = make_prng(cx)
            prng.n = 100 * variant  # separate draw names: the second run replays the outcomes of the first below
            if variant == 0:
                sim = cirq.DensityMatrixSimulator(dtype=np.complex128, noise=noise_gate, seed=prng)
                res = sim.simulate(circuit, initial_state=b0)
            else:
                sim = cirq.DensityMatrixSimulator(dtype=np.complex128, seed=prng)
                res = sim.simulate(circuit.with_noise(noise_gate), initial_state=b0)
            outs.append((prng.log, {k: [int(b) for b in v] for k, v in res.measurements.items()}, res.final_density_matrix))
        (logA, recA, rhoA), (logB, recB, rhoB) = outs
        cx.check(len(logA) == len(logB), label='noise+measurement: same number of random draws')
        # only compare branches in which both runs drew the same outcomes
        if [k for _p, k in logA] != [k for _p, k in logB]:
            cx.assume(False)
        for i, ((pa, _ka), (pb, _kb)) in enumerate(zip(logA, logB)):
            pb_ = list(pb)
            if wrong:
                pb_ = pb_[::-1]
            cx.close(np.array(pa, dtype=object), np.array(pb_, dtype=object), label=f'noise+measurement: probabilities of draw {i} agree between Simulator(noise=N) and with_noise(N)')
        cx.check(recA == recB, label='noise+measurement: records agree')
        # post-measurement states are normalised by the outcome probability: compare cross-multiplied by it
        cx.close(rhoA, rhoB, label='noise+measurement: final density matrices agree')

    obs.append(Obligation('noise_model.terminal_measurement', lambda cx: noise_meas_body(cx, (0, 1)), twin=lambda cx: noise_meas_body(cx, (0, 1), wrong=True), expected=(ZeroDivisionError,), opts={'weight': 8}, desc='DensityMatrixSimulator(noise=channel).simulate(circuit with terminal measurements) == simulate(circuit.with_noise(channel)) draw by draw (scripted generator): requested probability vectors, records, final density matrix; symbolic noise strength and gate exponent'))
    obs.append(Obligation('finding.noise_model.ragged_measurement', lambda cx: noise_meas_body(cx, (2, 3)), expected=(ZeroDivisionError,), opts={'weight': 8}, desc='the same comparison for circuits whose measurements are NOT aligned in the last moment (recorded finding: prefix/suffix splitting generates noise separately for both parts)'))

    # ---- E: state-vector trajectories are an exact unravelling (scripted PRNG) ------------------------------------
    class Scripted:
        """stands for the numpy RandomState handed to the simulator: outcomes are solver-chosen"""

        def __init__(self, cx):
            self.cx = cx
            self.log = []
            self.n = 0

        def choice(self, a, size=None, replace=True, p=None):
            k = len(a) if hasattr(a, '__len__') else int(a)
            self.n += 1
            i = self.cx.choose(f'draw{self.n}', k)
            self.log.append(('choice', p, i))
            return (list(a)[i] if hasattr(a, '__len__') else i)

        def random(self, size=None):
            self.n += 1
            r = self.cx.real(f'r{self.n}', 0.0, 1.0)
            self.log.append(('random', r))
            return r

        def randint(self, *a, **k):
            raise NotImplementedError('symx: randint not scripted here')

    def traj_body(cx, wrong=False):
        from symx.snum import cos, sin

        q = cirq.LineQubit.range(1)
        a = cx.real('a', -4.0, 4.0)
        b = cx.real('b', -2.0, 2.0)
        ci = cx.choose('channel', 5)
        name, npar, build, doc = [m for m in MENU if m[0] in ('amplitude_damp', 'phase_damp', 'depolarize', 'bit_flip', 'generalized_amplitude_damp')][ci]
        ps = params(cx, ['p', 'g'], npar, 0.0, 1.0)
        psi = np.array([cos(a), D.ph(b) * sin(a)], dtype=object)
        if cx.mode != 'concrete':
            from symx.proxy import wrap

            psi = wrap(psi)
        else:
            psi = psi.astype(complex)
        prng = Scripted(cx)
        st = cirq.StateVectorSimulationState(initial_state=psi.copy(), qubits=q, prng=prng, dtype=np.complex128)
        cirq.act_on(build(*ps).on(q[0]), st)
        out = st.target_tensor.reshape(-1)
        ks = doc(*ps)
        # which branch was taken?
        if prng.log and prng.log[0][0] == 'choice':
            _, pvec, k = prng.log[0]
            # mixture: requested probabilities are the documented ones; state is U_k psi
            mix = [(m_[0], m_[1]) for m_ in _doc_mixture(name, ps)]
            cx.close(np.array(list(pvec), dtype=object), np.array([m_[0] for m_ in mix], dtype=object), label=f'trajectory[{name}] requested probabilities')
            Uk = np.asarray(mix[k][1], dtype=object)
            exp = _matmul(Uk, psi.reshape(2, 1)).reshape(-1)
            if wrong:
                exp = exp * 1.01
            cx.close(out, exp, label=f'trajectory[{name}] branch {k} state')
        else:
            # Kraus channel: branch k selected by the uniform draw r; state = K_k psi / sqrt(w_k)
            r = prng.log[0][1]
            ws = []
            vs = []
            for K in ks:
                v = _matmul(np.asarray(K, dtype=object), psi.reshape(2, 1)).reshape(-1)
                vs.append(v)
                ws.append((v[0] * _cj(v[0]) + v[1] * _cj(v[1])))
            # determine the branch from the result: out * sqrt(w_k) == v_k for exactly the branch whose
            # interval [sum_{j<k} w_j, sum_{j<=k} w_j) contains r
            lo = 0
            conds = []
            for k, (v, w) in enumerate(zip(vs, ws)):
                hi = lo + w
                inside = (_re(lo) <= r) & (r < _re(hi)) if cx.mode != 'concrete' else (np.real(lo) <= r < np.real(hi))
                if cx.mode == 'concrete':
                    if inside:
                        expk = v / np.sqrt(np.real(w))
                        cx.close(out, expk * (1.01 if wrong else 1.0), label=f'trajectory[{name}] branch state')
                else:
                    if bool(inside):
                        from symx.snum import sqrt

                        nrm = sqrt(_re(w))
                        cx.close(np.array([out[0] * nrm, out[1] * nrm], dtype=object), v * (1.01 if wrong else 1.0), label=f'trajectory[{name}] branch {k}: out*sqrt(w_k) == K_k psi')
                lo = hi

    obs.extend(_qudit_reset_obligations(tier))
    obs.extend(_moment_obligations(tier))
    obs.append(Obligation('trajectory.one_qubit', traj_body, twin=lambda cx: traj_body(cx, wrong=True), opts={'weight': 6, 'vc_timeout_ms': 60000}, desc='cirq.act_on(channel, StateVectorSimulationState) with a SCRIPTED generator: for mixtures the requested probability vector equals the documented one and branch k applies U_k; for Kraus channels the branch selected by the symbolic uniform draw r is the one whose cumulative-weight interval contains r and the state is K_k psi / sqrt(w_k); input state normalised by construction (2 symbolic angles)'))
    return obs



# ---- helpers of the qudit-reset and moment-description obligations ------------------------------------------------
def _embed_dims(K, pos, dims):
    """K (on the qudits at positions `pos`, big-endian) embedded into the register with dimensions `dims`"""
    return EM.embed_matrix(np.asarray(K, dtype=object), list(pos), len(dims), dims=list(dims))


def _apply_kraus_dims(ks, rho, pos, dims):
    tot = None
    for K in ks:
        Kf = _embed_dims(K, pos, dims)
        term = _matmul(_matmul(Kf, rho), dag(Kf))
        tot = term if tot is None else tot + term
    return tot


def _sym_density(cx, N, prefix='R', unit_trace=False):
    """N x N matrix of arbitrary complex entries; the diagonal is real in [0, 1] (documented domain of a density
    matrix; np.clip(probs, 0) of the measurement code is the identity there); with unit_trace the last diagonal
    entry is 1 - (sum of the others), so that the trace is 1 syntactically"""
    rho = np.empty((N, N), dtype=object)
    acc = 0
    for i in range(N):
        for j in range(N):
            if i == j:
                if unit_trace and i == N - 1:
                    rho[i, i] = (1 - acc) + 0j
                else:
                    v = cx.real(f'{prefix}d{i}', 0.0, 1.0)
                    acc = acc + v
                    rho[i, i] = v + 0j
            else:
                rho[i, j] = cx.real(f'{prefix}{i}_{j}r', -1.0, 1.0) + 1j * cx.real(f'{prefix}{i}_{j}i', -1.0, 1.0)
    return rho


def _inject_dm_state(cx, cirq, rho, qs, prng=None, classical_data=None):
    """DensityMatrixSimulationState whose tensor is the symbolic rho (the constructor validates with eigvalsh:
    the state object is built from a basis state and the tensor is injected, as in checks/C02)"""
    dims = tuple(q.dimension for q in qs)
    kw = {} if classical_data is None else {'classical_data': classical_data}
    st = cirq.DensityMatrixSimulationState(initial_state=0, qubits=qs, prng=prng, dtype=np.complex128, **kw)
    t = np.asarray(rho, dtype=object).reshape(dims + dims)
    if cx.mode != 'concrete':
        from symx.proxy import wrap

        st._state._density_matrix = wrap(t.copy())
    else:
        st._state._density_matrix = t.astype(np.complex128)
    return st


def _as_state(cx, psi):
    if cx.mode != 'concrete':
        from symx.proxy import wrap

        return wrap(np.asarray(psi, dtype=object).copy())
    return np.asarray(psi).astype(np.complex128)


def _qudit_reset_obligations(tier):
    import cirq

    from checks.C02 import make_prng, total_weight

    obs = []
    DIMS1 = (2, 3, 4)

    # ---- E2: reset of ONE qudit with every level populated: exact unravelling of the documented Kraus set ------------
    def qreset1_body(cx, wrong=False):
        from symx.snum import sqrt

        d = DIMS1[cx.choose('dim', len(DIMS1))]
        q = cirq.LineQid(0, dimension=d)
        psi = EM.sym_tensor(cx, (d,), 'A')
        prng = make_prng(cx)
        route = cx.choose('route', 2)
        op = cirq.ResetChannel(dimension=d).on(q) if route == 0 else cirq.reset(q)
        cx.check(cirq.reset(q) == cirq.ResetChannel(dimension=d).on(q), label='cirq.reset(qudit) is ResetChannel(dimension of the qudit)')
        if route == 0:
            st = cirq.StateVectorSimulationState(initial_state=psi.copy(), qubits=[q], prng=prng, dtype=np.complex128)
            cirq.act_on(op, st)
            out = np.asarray(st.target_tensor, dtype=object).reshape(-1)
        else:
            res = cirq.Simulator(seed=prng, dtype=np.complex128).simulate(cirq.Circuit(op), initial_state=psi.copy(), qubit_order=[q])
            out = np.asarray(res.final_state_vector, dtype=object).reshape(-1)
        kdoc = D.kraus_reset(d)
        got = cirq.kraus(op)
        cx.check(len(got) == d, label=f'd={d}: cirq.kraus(reset) has d operators')
        for a, b in zip(got, kdoc):
            cx.close(np.asarray(a, dtype=object), np.asarray(b, dtype=object), label=f'd={d}: cirq.kraus(reset)[k] == |0><k|')
        cx.check(len(prng.log) == 1, label=f'd={d}: reset of a qudit draws exactly once')
        pvec, k = prng.log[0]
        tot = total_weight(psi)
        ws = [_re(psi[j] * _cj(psi[j])) for j in range(d)]
        exp_p = [w / tot for w in ws]
        if wrong:
            exp_p = exp_p[1:] + exp_p[:1]
        cx.close(np.array(pvec, dtype=object), np.array(exp_p, dtype=object), label=f'd={d}: branch probabilities == tr(K_k rho K_k^dag) for every level')
        pk = ws[k] / tot
        r = sqrt(pk) if cx.mode != 'concrete' else np.sqrt(pk)
        vk = _matmul(np.asarray(kdoc[k], dtype=object), np.asarray(psi, dtype=object).reshape(d, 1)).reshape(-1)
        cx.close(out * r, vk, label=f'd={d} route={route}: post state * sqrt(p_k) == K_k psi (qudit back in |0>, phase of the populated level kept)')

    obs.append(Obligation('trajectory.qudit_reset', qreset1_body, twin=lambda cx: qreset1_body(cx, wrong=True), expected=(ZeroDivisionError,), opts={'weight': 6}, desc='reset of ONE qudit (d = 2, 3, 4; cirq.ResetChannel(d).on(q) and cirq.reset(q)) in state-vector trajectories (cirq.act_on on a StateVectorSimulationState and cirq.Simulator.simulate), ALL d complex amplitudes symbolic, scripted generator: one draw, requested probability of EVERY level == |psi_k|^2 / <psi|psi>, post state * sqrt(p_k) == K_k psi with K_k = |0><k|, cirq.kraus(reset) == the documented operators'))

    # ---- E3: the same channel in mixed-state simulation on an arbitrary symbolic density matrix ------------------------
    DM_SHAPES = [((3,), 0), ((4,), 0), ((3, 2), 0), ((3, 2), 1), ((2, 3), 1)] + ([((3, 3), 0), ((2, 4), 1)] if tier != 'quick' else [])

    def qreset_dm_body(cx, wrong=False):
        dims, tgt = DM_SHAPES[cx.choose('shape', len(DM_SHAPES))]
        n = len(dims)
        N = int(np.prod(dims))
        qs = [cirq.LineQid(i, dimension=dd) for i, dd in enumerate(dims)]
        d = dims[tgt]
        op = cirq.ResetChannel(dimension=d).on(qs[tgt])
        route = cx.choose('route', 4 if n > 1 else 3)
        rho = _sym_density(cx, N, unit_trace=(route == 3))
        kdoc = D.kraus_reset(d)
        exp = _apply_kraus_dims([perturb(kdoc[0])] + list(kdoc[1:]) if wrong else kdoc, rho, [tgt], dims)
        if route == 0:  # cirq.apply_channel on the tensor
            T = _as_state(cx, rho.reshape(dims + dims))
            bval = cx.real('Bv', -1.0, 1.0) + 1j * cx.real('Bw', -1.0, 1.0)
            bufs = []
            for _ in range(3):
                bb = np.empty(dims + dims, dtype=object)
                bb[...] = bval
                bufs.append(_as_state(cx, bb))
            args = cirq.ApplyChannelArgs(target_tensor=T, out_buffer=bufs[0], auxiliary_buffer0=bufs[1], auxiliary_buffer1=bufs[2], left_axes=(tgt,), right_axes=(n + tgt,))
            got = np.asarray(cirq.apply_channel(op, args), dtype=object).reshape(N, N)
        elif route == 1:  # act_on on the simulation state
            st = _inject_dm_state(cx, cirq, rho, qs)
            cirq.act_on(op, st)
            got = np.asarray(st.target_tensor, dtype=object).reshape(N, N)
        else:  # the simulator; route 3: product-state container, the reset qudit is factored out afterwards
            if route == 2:
                init = _inject_dm_state(cx, cirq, rho, qs)
            else:
                cd = cirq.ClassicalDataDictionaryStore()
                st = _inject_dm_state(cx, cirq, rho, qs, classical_data=cd)
                empty = cirq.DensityMatrixSimulationState(initial_state=0, qubits=(), dtype=np.complex128, classical_data=cd)
                m = {qq: st for qq in qs}
                m[None] = empty
                init = cirq.SimulationProductState(m, qs, True, classical_data=cd)
            sim = cirq.DensityMatrixSimulator(dtype=np.complex128, split_untangled_states=(route == 3))
            res = sim.simulate(cirq.Circuit(op), initial_state=init, qubit_order=qs)
            got = np.asarray(res.final_density_matrix, dtype=object).reshape(N, N)
        cx.close(got, exp, label=f'dims={dims} target={tgt} route={route}: reset of a qudit == sum_k |0><k| rho |k><0| on that qudit')

    obs.append(Obligation('dm_simulate.qudit_reset', qreset_dm_body, twin=lambda cx: qreset_dm_body(cx, wrong=True), opts={'weight': 6}, desc='cirq.ResetChannel(d) on a qutrit / ququart alone and inside 2-qudit registers of mixed dimensions ((3,2), (2,3); thorough also (3,3), (2,4)), ARBITRARY symbolic density matrix (real diagonal in [0,1]): cirq.apply_channel, cirq.act_on(DensityMatrixSimulationState), DensityMatrixSimulator.simulate and the product-state container with split_untangled_states (unit trace made syntactic there) all equal sum_k K_k rho K_k^dag with the documented K_k = |0><k| embedded on the target'))

    # ---- E4: reset inside 2-qudit product / entangled state vectors, split_untangled_states on/off ---------------------
    SV_SHAPES = [((3, 2), 0), ((3, 2), 1), ((2, 3), 1)] + ([((3, 3), 0), ((4, 2), 0)] if tier != 'quick' else [])

    def qreset2_body(cx, wrong=False):
        from symx.snum import cos, sin, sqrt

        dims, tgt = SV_SHAPES[cx.choose('shape', len(SV_SHAPES))]
        N = int(np.prod(dims))
        qs = [cirq.LineQid(i, dimension=dd) for i, dd in enumerate(dims)]
        d = dims[tgt]
        other = 1 - tgt
        split = bool(cx.choose('split', 2))
        if not split:
            psi = np.asarray(EM.sym_tensor(cx, dims, 'A'), dtype=object if cx.mode != 'concrete' else complex)
        else:
            # the product-state container factors the register after the reset (pivot search, norms): the input must
            # be normalised.  Families: rational magnitudes on EVERY level (menu) with SYMBOLIC phases on every level;
            # 0 = product state, 1 = entangled state sum_j s_j |j mod d0, j mod d1>
            fam = cx.choose('family', 2)
            a = None
            b = [cx.real(f'b{i}', -1.0, 1.0) for i in range(4)]
            MAGS = {2: [(0.6, 0.8), (0.8, 0.6)], 3: [(2 / 3, 1 / 3, 2 / 3), (1 / 3, 2 / 3, 2 / 3)], 4: [(0.5, 0.5, 0.5, 0.5), (0.1, 0.7, 0.5, 0.5)]}
            mi = cx.choose('magnitudes', 2)

            def unit(dd, _a, ph):
                return [MAGS[dd][mi][j] * D.ph(ph[j]) for j in range(dd)]

            psi = np.empty(dims, dtype=object)
            if fam == 0:
                u0 = unit(dims[0], a, b)
                u1 = unit(dims[1], a, b[::-1])
                for i in range(dims[0]):
                    for j in range(dims[1]):
                        psi[i, j] = u0[i] * u1[j]
            else:
                dm_ = max(dims)
                s_ = unit(dm_, a, b)
                psi[:] = 0
                for j in range(dm_):  # the pairs (j mod d0, j mod d1), j < max(d0, d1), are distinct basis states
                    psi[j % dims[0], j % dims[1]] = s_[j]
        prng = make_prng(cx)
        op = cirq.reset(qs[tgt])
        sim = cirq.Simulator(seed=prng, dtype=np.complex128, split_untangled_states=split)
        if split:
            res = sim.simulate(cirq.Circuit(op), initial_state=_as_state(cx, psi), qubit_order=qs)
            out = np.asarray(res.final_state_vector, dtype=object).reshape(-1)
        else:
            # (the trial result renormalises a final vector whose norm is within 1.5e-8 of 1: the arbitrary,
            # unnormalised symbolic state is read from the step result instead)
            steps = list(sim.simulate_moment_steps(cirq.Circuit(op), initial_state=_as_state(cx, psi), qubit_order=qs))
            out = np.asarray(steps[-1].state_vector(copy=True), dtype=object).reshape(-1)
        cx.check(len(prng.log) == 1, label='2 qudits: one draw')
        pvec, k = prng.log[0]
        tot = total_weight(psi)
        ws = []
        for lev in range(d):
            w = 0
            for j in range(dims[other]):
                idx = (lev, j) if tgt == 0 else (j, lev)
                w = w + psi[idx] * _cj(psi[idx])
            ws.append(_re(w))
        exp_p = [w / tot for w in ws]
        if wrong:
            exp_p = exp_p[1:] + exp_p[:1]
        cx.close(np.array(pvec, dtype=object), np.array(exp_p, dtype=object), label=f'dims={dims} target={tgt} split={split}: branch probabilities == marginal of the reset qudit')
        pk = ws[k] / tot
        r = sqrt(pk) if cx.mode != 'concrete' else np.sqrt(pk)
        Kf = _embed_dims(D.kraus_reset(d)[k], [tgt], dims)
        vk = _matmul(Kf, np.asarray(psi, dtype=object).reshape(N, 1)).reshape(-1)
        cx.close(out * r, vk, label=f'dims={dims} target={tgt} split={split}: final state * sqrt(p_k) == (K_k on the target) psi')

    obs.append(Obligation('trajectory.qudit_reset_2q', qreset2_body, twin=lambda cx: qreset2_body(cx, wrong=True), expected=(ZeroDivisionError,), opts={'weight': 10, 'vc_timeout_ms': 60000}, desc='cirq.Simulator.simulate(reset of one qudit of a 2-qudit register, dims (3,2) / (2,3); thorough also (3,3), (4,2)), scripted generator; split_untangled_states off: ARBITRARY symbolic 2-qudit state (all amplitudes symbolic, entangled in general); on: normalised product and entangled families with symbolic angles and phases: requested probabilities == marginal of the reset qudit, final state * sqrt(p_k) == (|0><k| on the target) psi'))
    return obs


def _sup_of(ks):
    """superoperator (row-major vec) sum_k w_k K (x) conj(K) of a Kraus list (or weighted list [(w, K)]), explicit loops"""
    tot = None
    for K in ks:
        w_, K = K if isinstance(K, tuple) else (1, K)
        K = np.asarray(K, dtype=object)
        t = _kron(K, _conj(K)) * w_
        tot = t if tot is None else tot + t
    return tot


def _choi_from_sup(S, d):
    """choi[a*d+b, c*d+e] = sum_k K[a,b] conj(K[c,e]) = sup[a*d+c, b*d+e]"""
    S = np.asarray(S, dtype=object)
    out = np.empty((d * d, d * d), dtype=object)
    for a, b, c, e in itertools.product(range(d), repeat=4):
        out[a * d + b, c * d + e] = S[a * d + c, b * d + e]
    return out


def _moment_obligations(tier):
    import cirq

    obs = []
    CH = {m[0]: m for m in channel_menu()}
    q = cirq.LineQubit.range(3)

    def spec(cx, kind, *where):
        """(operation, documented Kraus list, qubit indices in the ORDER OF THE OPERATION)"""
        if kind in CH and kind != 'X**t':
            name, npar, build, doc = CH[kind]
            ps = [cx.real(f'{kind[:2]}{where[0]}_{i}', 0.0, 1.0) for i in range(npar)]
            if kind in ('depolarize', 'bit_flip', 'phase_flip'):
                # documented as a MIXTURE: weights stay polynomial (no sqrt(p) * sqrt(p) for the solver to undo)
                return build(*ps).on(q[where[0]]), [(w_, np.asarray(u_, dtype=object)) for w_, u_ in _doc_mixture(kind, ps)], list(where)
            return build(*ps).on(q[where[0]]), [(1, k_) for k_ in doc(*ps)], list(where)
        if kind == 'H':
            return cirq.H(q[where[0]]), [(1, D.H(1.0))], list(where)
        if kind == 'X**t':
            t = cx.real(f't{where[0]}', -4.0, 4.0)
            return cirq.X(q[where[0]]) ** t, [(1, D.X(t))], list(where)
        if kind == 'CX**t':
            t = cx.real(f'u{where[0]}{where[1]}', -4.0, 4.0)
            return cirq.CNOT(q[where[0]], q[where[1]]) ** t, [(1, D.CX(t))], list(where)
        if kind == 'CNOT':
            return cirq.CNOT(q[where[0]], q[where[1]]), [(1, D.CX(1.0))], list(where)
        raise KeyError(kind)

    def moment_doc(specs, order, wrong=False):
        """documented description of a moment as weighted operators [(w, F)] (map: rho -> sum w F rho F^dag): one per
        combination, tensor product in the order `order` (list of qubit indices = sorted qubits), each factor
        embedded at the positions of its operation's qubits"""
        n = len(order)
        lists = []
        for si, (_op, ks, where) in enumerate(specs):
            ks = [(w_, np.asarray(k, dtype=object)) for w_, k in ks]
            if wrong and si == len(specs) - 1:
                ks = [(ks[0][0], perturb(ks[0][1]))] + ks[1:]
            lists.append([(w_, EM.embed_matrix(k, [order.index(w) for w in where], n)) for w_, k in ks])
        out = []
        for combo in itertools.product(*lists):
            wt, F = combo[0]
            for w_, G in combo[1:]:
                F = _matmul(F, G)
                wt = wt * w_
            out.append((wt, F))
        return out

    # (ops stored in NON-sorted qubit order; channels mixed with unitaries; one- and two-qubit operations)
    M2 = [
        [('H', 1), ('amplitude_damp', 0)],
        [('X**t', 1), ('depolarize', 0)],
        [('amplitude_damp', 1), ('bit_flip', 0)],
        [('CX**t', 1, 0)],
        [('X**t', 1), ('H', 0)],
        [('phase_damp', 2), ('X**t', 0)],
    ] + ([[('generalized_amplitude_damp', 1), ('X**t', 0)], [('reset', 1), ('phase_flip', 0)]] if tier != 'quick' else [])
    M3 = [[('CNOT', 2, 0), ('amplitude_damp', 1)], [('phase_damp', 2), ('CX**t', 1, 0)]] + ([[('bit_flip', 2), ('H', 1), ('amplitude_damp', 0)]] if tier != 'quick' else [])

    def moment_body(cx, shapes, wrong=False, with_sim=True):
        sh = shapes[cx.choose('moment', len(shapes))]
        specs = [spec(cx, *s_) for s_ in sh]
        moment = cirq.Moment(*[s_[0] for s_ in specs])
        order = sorted({w for s_ in specs for w in s_[2]})
        qs = [q[i] for i in order]
        n = len(order)
        dN = 2**n
        tag = '+'.join(s_[0] for s_ in sh)
        doc = moment_doc(specs, order, wrong=wrong)
        S = _sup_of(doc)
        got = cirq.kraus(moment)
        cx.check(len(got) == len(doc), label=f'Moment({tag}): number of Kraus operators = product of the operations\' counts')
        cx.close(_sup_of(got), S, label=f'Moment({tag}): cirq.kraus(moment) describes the tensor product in sorted-qubit order')
        cx.close(moment._superoperator_(), S, label=f'Moment({tag})._superoperator_')
        cx.close(cirq.operation_to_superoperator(moment), S, label=f'operation_to_superoperator(Moment({tag}))')
        cx.close(cirq.operation_to_choi(moment), _choi_from_sup(S, dN), label=f'operation_to_choi(Moment({tag}))')
        cx.close(cirq.Circuit(moment)._superoperator_(), S, label=f'Circuit(Moment({tag}))._superoperator_')
        if len(doc) == 1:
            cx.check(cirq.has_unitary(moment) is True, label=f'Moment({tag}) of unitary operations has a unitary')
            cx.close(cirq.unitary(moment), doc[0][1], label=f'cirq.unitary(Moment({tag})) == tensor product in sorted-qubit order')
            cx.close(np.asarray(got[0], dtype=object), doc[0][1], label=f'cirq.kraus(Moment({tag})) of a unitary moment is its unitary')
        if with_sim:
            rho = _sym_density(cx, dN)
            st = _inject_dm_state(cx, cirq, rho, qs)
            res = cirq.DensityMatrixSimulator(dtype=np.complex128).simulate(cirq.Circuit(moment), initial_state=st, qubit_order=qs)
            exp = None
            for w_, F in doc:
                t_ = _matmul(_matmul(F, rho), dag(F)) * w_
                exp = t_ if exp is None else exp + t_
            cx.close(np.asarray(res.final_density_matrix, dtype=object).reshape(dN, dN), exp, label=f'DensityMatrixSimulator(Moment({tag})) on a symbolic density matrix == documented Kraus set of the moment')

    obs.append(Obligation('descriptions.moment_2q', lambda cx: moment_body(cx, M2), twin=lambda cx: moment_body(cx, M2, wrong=True), opts={'weight': 8}, desc='moments over two qubits whose operations are stored in NON-sorted qubit order (H(q1)+amplitude_damp(q0), X**t(q1)+depolarize(q0), two channels, CNOT**t(q1,q0), unitary pairs, non-adjacent qubits), all channel and gate parameters symbolic: cirq.kraus(moment) (count and map), Moment._superoperator_, operation_to_superoperator / operation_to_choi of the moment, Circuit(moment)._superoperator_ equal the tensor product of the documented Kraus operators in sorted-qubit order; unitary moments agree with cirq.unitary(moment); DensityMatrixSimulator on an arbitrary symbolic density matrix agrees'))
    obs.append(Obligation('descriptions.moment_3q', lambda cx: moment_body(cx, M3, with_sim=(tier != 'quick')), twin=lambda cx: moment_body(cx, M3, wrong=True, with_sim=(tier != 'quick')), opts={'weight': 10}, desc='the same for three-qubit moments mixing a two-qubit gate on non-adjacent / reversed qubits with a one-qubit channel (CNOT(q2,q0)+amplitude_damp(q1), phase_damp(q2)+CNOT**t(q1,q0)); 64x64 superoperators; simulator comparison in the thorough tier'))

    # ---- circuits: moments are expanded to the circuit's qubits before composing ---------------------------------------
    CIRC = [
        [[('amplitude_damp', 1)], [('H', 1), ('bit_flip', 0)]],
        [[('depolarize', 1)], [('CX**t', 1, 0)]],
        [[('X**t', 2)], [('amplitude_damp', 0)]],
    ] + ([[[('phase_damp', 0)], [('CNOT', 1, 0), ('X**t', 2)]]] if tier != 'quick' else [])

    def circuit_body(cx, wrong=False):
        ci = cx.choose('circuit', len(CIRC))
        mspecs = [[spec(cx, *s_) for s_ in m_] for m_ in CIRC[ci]]
        circuit = cirq.Circuit([cirq.Moment(*[s_[0] for s_ in ms]) for ms in mspecs])
        order = sorted({w for ms in mspecs for s_ in ms for w in s_[2]})
        qs = [q[i] for i in order]
        n = len(order)
        dN = 2**n
        S = None
        rho = _sym_density(cx, dN)
        exp = rho
        for mi, ms in enumerate(mspecs):
            doc = moment_doc(ms, order, wrong=(wrong and mi == 0))
            Sm = _sup_of(doc)
            S = Sm if S is None else _matmul(Sm, S)
            nxt = None
            for w_, F in doc:
                t_ = _matmul(_matmul(F, exp), dag(F)) * w_
                nxt = t_ if nxt is None else nxt + t_
            exp = nxt
        cx.close(circuit._superoperator_(), S, label=f'Circuit #{ci}: _superoperator_ == ordered product of the moments\' superoperators on ALL circuit qubits (sorted order)')
        st = _inject_dm_state(cx, cirq, rho, qs)
        res = cirq.DensityMatrixSimulator(dtype=np.complex128).simulate(circuit, initial_state=st, qubit_order=qs)
        cx.close(np.asarray(res.final_density_matrix, dtype=object).reshape(dN, dN), exp, label=f'Circuit #{ci}: DensityMatrixSimulator on a symbolic density matrix == moment-by-moment documented Kraus maps')

    obs.append(Obligation('descriptions.circuit_expanded', circuit_body, twin=lambda cx: circuit_body(cx, wrong=True), opts={'weight': 8}, desc='Circuit._superoperator_ of multi-moment circuits whose moments touch only part of the qubits (expanded with identities to the other, earlier-sorted or later-sorted, qubits) and store operations in non-sorted order, symbolic parameters: equals the ordered product of the documented moment superoperators on the sorted circuit qubits, and the DensityMatrixSimulator on an arbitrary symbolic density matrix gives the corresponding map'))
    return obs


def _doc_mixture(name, ps):
    if name == 'depolarize':
        return D.mixture_depolarize(*ps)
    if name == 'bit_flip':
        return D.mixture_bit_flip(*ps)
    if name == 'phase_flip':
        return D.mixture_phase_flip(*ps)
    raise KeyError(name)


def _cj(e):
    return e.conjugate() if hasattr(e, 'conjugate') else np.conj(e)


def _re(e):
    return e.real if hasattr(e, 'real') else np.real(e)


def _symb(u):
    return any(hasattr(e, 't') for e in np.asarray(u, dtype=object).reshape(-1))


def _conj(u):
    u = np.asarray(u, dtype=object)
    out = np.empty(u.shape, dtype=object)
    for i in range(u.shape[0]):
        for j in range(u.shape[1]):
            out[i, j] = _cj(u[i, j])
    return out


LEVEL = (
    'Bounded symbolic execution of the real mixed-state code, SMT-decided: channel parameters (probabilities, damping rates), gate parameters and '
    'the entire density tensor handed to cirq.apply_channel are symbolic; DensityMatrixSimulator runs on circuits mixing unitaries with every library '
    'channel; z3 decides entry-wise equality with sum_k K rho K^dag built from the documented Kraus operators, the equivalence of the kraus / mixture / '
    'superoperator / Choi descriptions, the noise-model semantics, and (with a scripted random generator whose outcomes are solver-chosen) that '
    'state-vector trajectories select branches with the documented probabilities and produce K_k psi / sqrt(w_k), including resets of qutrits / '
    'ququarts with every level populated (alone and inside 2-qudit registers, product-state container on/off) on both simulators; Kraus / '
    'superoperator / Choi descriptions of moments with non-sorted operations and of multi-moment circuits equal the documented tensor product in '
    'sorted-qubit order and agree with cirq.unitary and with the DensityMatrixSimulator on a symbolic density matrix.'
)


def main(tier, seed=0, replay=None, only=None, procs=None):
    bounds = {
        'qubits': 2,
        'circuit_shapes': 'prep (2 quick / 4 thorough) x channel (8, both placements) x entangler (2 / 3) x second channel (3 / 8, both placements) x split on/off x basis initial state |00> (quick) / |00>,|11> (thorough)',
        'probability_box': [0, 1],
        'gate_parameter_box': [-4, 4],
        'density_tensor_entries_box': [-1, 1],
        'tolerance': 1e-7,
        'qudit_reset': 'ResetChannel(d) / cirq.reset: one qudit d = 2, 3, 4 with all d complex amplitudes symbolic (box [-1, 1], unnormalised: probabilities are compared with |psi_k|^2 / <psi|psi>), via act_on(StateVectorSimulationState) and Simulator.simulate; two-qudit registers (3,2) / (2,3) (thorough also (3,3), (4,2)), either qudit reset: split_untangled_states off = arbitrary symbolic 2-qudit tensor, on = normalised product and entangled families with rational magnitudes on every level (menu of 2) and symbolic phases on every level; density-matrix side: arbitrary symbolic density matrix (real diagonal in [0,1]; unit trace made syntactic for the product-state container) over (3), (4), (3,2), (2,3) (thorough also (3,3), (2,4)) through apply_channel / act_on / DensityMatrixSimulator / SimulationProductState',
        'moment_descriptions': 'menu of 6 (thorough 8) two-qubit-register moments and 2 (3) three-qubit moments with operations stored in non-sorted qubit order, menu of 3 (4) multi-moment circuits with partial moments; all channel probabilities in [0,1] and gate exponents in [-4,4] symbolic; simulator comparison on an arbitrary symbolic density matrix (2-qubit registers; 3-qubit in thorough); the ORDER of the Kraus operators returned for a moment is not part of the claim (compared as maps + count)',
        'outside': ['generalized_amplitude_damp inside multi-op DensityMatrixSimulator circuits (products of several sqrt atoms: NRA query does not finish; the channel itself is covered by apply_channel.* and descriptions.*)', 'choi_to_kraus / superoperator_to_kraus (eigh)', 'thermal and device-derived noise models (scipy expm)', 'symbolic initial density matrices for the simulator (validation uses eigvalsh)', 'complex64', 'trajectories of channels other than reset on more than one qubit', 'symbolic MAGNITUDES of a normalised 2-qudit state with split_untangled_states=True (pivot search / norms of factor_state_vector over trigonometric amplitudes: NRA query does not finish; magnitudes are enumerated, phases symbolic)', 'library channels other than ResetChannel take no dimension argument (none to cover)', 'moments / circuits over qudits (Moment._kraus_ is qubit-only)'],
    }
    return run_check(PID, tier, 'checks.C09', SHIMS, LEVEL, BASE_ASSUMPTIONS, bounds, seed=seed, replay=replay, only=only, procs=procs)

"""C09: noisy and mixed-state simulation implements the channel semantics."""
from __future__ import annotations

import itertools
import math

import numpy as np

from checks.C04 import _kron, _matmul
from checks.C08 import dag
from checks.common import BASE_ASSUMPTIONS, CORE_SHIM_MODULES, perturb
from oracles import embed as EM
from oracles import gates_doc as D
from symx.explore import Obligation
from symx.run import run_check

PID = 'C09'
SHIMS = CORE_SHIM_MODULES + [
    'cirq.protocols.apply_channel_protocol',
    'cirq.protocols.apply_mixture_protocol',
    'cirq.protocols.act_on_protocol',
    'cirq.protocols.has_unitary_protocol',
    'cirq.protocols.decompose_protocol',
    'cirq.ops.kraus_channel',
    'cirq.ops.mixed_unitary_channel',
    'cirq.ops.random_gate_channel',
    'cirq.qis.channels',
    'cirq.qis.states',
    'cirq.circuits.circuit',
    'cirq.circuits.moment',
    'cirq.devices.noise_model',
    'cirq.sim.simulator_base',
    'cirq.sim.simulator',
    'cirq.sim.simulation_state',
    'cirq.sim.simulation_state_base',
    'cirq.sim.simulation_product_state',
    'cirq.sim.simulation_utils',
    'cirq.sim.density_matrix_simulator',
    'cirq.sim.density_matrix_simulation_state',
    'cirq.sim.density_matrix_utils',
    'cirq.sim.sparse_simulator',
    'cirq.sim.state_vector_simulation_state',
    'cirq.sim.state_vector_simulator',
    'cirq.sim.state_vector',
    'cirq.value.probability' if False else 'cirq.value.angle',
]


def worker_setup():
    """np.clip on symbolic probabilities (cirq.sim.simulation_utils): see checks/C02.worker_setup"""
    from checks.C02 import worker_setup as ws

    return ws()


def channel_menu():
    """(name, nparams, build(params)->gate, doc_kraus(params)->list of 2x2 matrices)"""
    import cirq

    def mix_to_kraus(mix):
        from symx.snum import sqrt

        return [D.M([[sqrt(p) * u[0, 0], sqrt(p) * u[0, 1]], [sqrt(p) * u[1, 0], sqrt(p) * u[1, 1]]]) for p, u in mix]

    return [
        ('amplitude_damp', 1, lambda g: cirq.amplitude_damp(g), D.kraus_amplitude_damp),
        ('phase_damp', 1, lambda g: cirq.phase_damp(g), D.kraus_phase_damp),
        ('generalized_amplitude_damp', 2, lambda p, g: cirq.generalized_amplitude_damp(p, g), D.kraus_generalized_amplitude_damp),
        ('depolarize', 1, lambda p: cirq.depolarize(p), lambda p: mix_to_kraus(D.mixture_depolarize(p))),
        ('bit_flip', 1, lambda p: cirq.bit_flip(p), lambda p: mix_to_kraus(D.mixture_bit_flip(p))),
        ('phase_flip', 1, lambda p: cirq.phase_flip(p), lambda p: mix_to_kraus(D.mixture_phase_flip(p))),
        ('reset', 0, lambda: cirq.ResetChannel(), lambda: D.kraus_reset(2)),
        ('X**t', 1, lambda t: cirq.X**t, lambda t: [D.X(t)]),
    ]


def apply_kraus(ks, rho, pos, n):
    """rho (2^n x 2^n object matrix) -> sum_k K rho K^dag with K embedded on `pos`"""
    tot = None
    for K in ks:
        Kf = EM.embed_matrix(np.asarray(K, dtype=object), pos, n)
        term = _matmul(_matmul(Kf, rho), dag(Kf))
        tot = term if tot is None else tot + term
    return tot


def params(cx, names, npar, lo=0.0, hi=1.0):
    return [cx.real(names[i], lo, hi) for i in range(npar)]


def obligations(tier):
    import cirq

    obs = []
    MENU = channel_menu()

    # ---- A: cirq.apply_channel on arbitrary left/right axes of an arbitrary symbolic tensor ----------------
    for name, npar, build, doc in MENU:
        def body(cx, wrong=False, build=build, doc=doc, npar=npar, name=name):
            ps = params(cx, ['p', 'g'], npar, 0.0, 1.0) if name != 'X**t' else params(cx, ['t'], 1, -4.0, 4.0)
            ch = build(*ps)
            layout = cx.choose('layout', 3)
            if layout == 0:
                shape, left, right = (2, 2), (0,), (1,)
            elif layout == 1:  # 2-qubit density tensor, channel on qubit 1
                shape, left, right = (2, 2, 2, 2), (1,), (3,)
            else:  # channel on qubit 0
                shape, left, right = (2, 2, 2, 2), (0,), (2,)
            T = EM.sym_tensor(cx, shape, 'R')
            B0 = EM.sym_tensor(cx, shape, 'B')
            B1 = B0.copy()
            B2 = B0.copy()
            ks = doc(*ps)
            if wrong:
                ks = [perturb(ks[0])] + list(ks[1:])
            exp = None
            for K in ks:
                K = np.asarray(K, dtype=object)
                Kc = np.empty(K.shape, dtype=object)
                for i in range(2):
                    for j in range(2):
                        e = K[i, j]
                        Kc[i, j] = e.conjugate() if hasattr(e, 'conjugate') else np.conj(e)
                term = EM.apply_matrix_to_axes(Kc, EM.apply_matrix_to_axes(K, T, list(left)), list(right))
                exp = term if exp is None else exp + term
            args = cirq.ApplyChannelArgs(target_tensor=T.copy(), out_buffer=B0, auxiliary_buffer0=B1, auxiliary_buffer1=B2, left_axes=left, right_axes=right)
            res = cirq.apply_channel(ch, args)
            cx.close(res, exp, label=f'apply_channel[{name}] layout={layout}')

        obs.append(Obligation(f'apply_channel.{name}', body, twin=lambda cx, b=body: b(cx, wrong=True), opts={'weight': 4}, desc='cirq.apply_channel(channel(symbolic params)) on left/right axes of an ARBITRARY symbolic density tensor (1 and 2 qubits, symbolic scratch buffers) vs sum_k K rho K^dag with the documented Kraus operators'))

    # ---- B: descriptions of one channel agree: kraus / mixture / superoperator / choi ------------------------
    for name, npar, build, doc in MENU:
        def body(cx, wrong=False, build=build, doc=doc, npar=npar, name=name):
            ps = params(cx, ['p', 'g'], npar, 0.0, 1.0) if name != 'X**t' else params(cx, ['t'], 1, -4.0, 4.0)
            ch = build(*ps)
            ks = [np.asarray(k, dtype=object) for k in cirq.kraus(ch)]
            # superoperator = sum K (x) conj(K)   (row-major vec)
            sup = None
            choi = None
            for K in ks:
                Kc = np.empty(K.shape, dtype=object)
                for i in range(2):
                    for j in range(2):
                        e = K[i, j]
                        Kc[i, j] = e.conjugate() if hasattr(e, 'conjugate') else np.conj(e)
                t1 = _kron(K, Kc)
                sup = t1 if sup is None else sup + t1
                v = K.reshape(-1)
                vc = Kc.reshape(-1)
                t2 = np.empty((4, 4), dtype=object)
                for a in range(4):
                    for b in range(4):
                        t2[a, b] = v[a] * vc[b]
                choi = t2 if choi is None else choi + t2
            if wrong:
                sup = perturb(sup)
            cx.close(cirq.kraus_to_superoperator(cirq.kraus(ch)), sup, label=f'{name}: kraus_to_superoperator')
            cx.close(cirq.kraus_to_choi(cirq.kraus(ch)), choi, label=f'{name}: kraus_to_choi')
            cx.close(cirq.operation_to_superoperator(ch.on(cirq.LineQubit(0))), sup, label=f'{name}: operation_to_superoperator')
            cx.close(cirq.operation_to_choi(ch.on(cirq.LineQubit(0))), choi, label=f'{name}: operation_to_choi')
            cx.close(cirq.choi_to_superoperator(cirq.kraus_to_choi(cirq.kraus(ch))), sup, label=f'{name}: choi_to_superoperator')
            cx.close(cirq.superoperator_to_choi(cirq.kraus_to_superoperator(cirq.kraus(ch))), choi, label=f'{name}: superoperator_to_choi')
            # Moment / Circuit superoperator of the single-op circuit
            q = cirq.LineQubit(0)
            cx.close(cirq.Circuit(ch.on(q))._superoperator_(), sup, label=f'{name}: Circuit._superoperator_')
            # trace preservation
            tot = None
            for K in ks:
                t3 = _matmul(dag(K), K)
                tot = t3 if tot is None else tot + t3
            cx.close(tot, np.eye(2), label=f'{name}: sum K^dag K = I')
            cx.check(cirq.has_kraus(ch) is True, label=f'{name}: has_kraus')
            if cirq.has_mixture(ch):
                mix = cirq.mixture(ch)
                msup = None
                for pr, u in mix:
                    u = np.asarray(u, dtype=object)
                    t4 = _kron(u, np.conj(np.asarray(u, dtype=complex)) if not _symb(u) else _conj(u)) * pr
                    msup = t4 if msup is None else msup + t4
                cx.close(msup, sup, label=f'{name}: mixture describes the same map as kraus')

        obs.append(Obligation(f'descriptions.{name}', body, twin=lambda cx, b=body: b(cx, wrong=True), desc='kraus / mixture / kraus_to_superoperator / kraus_to_choi / choi<->superoperator / operation_to_* / Circuit._superoperator_ describe the same trace-preserving map (symbolic channel parameters)'))

    # ---- C: DensityMatrixSimulator final state == ordered channel application ----------------------------------
    PREP = [('Xt0', lambda q, t: [cirq.X(q[0]) ** t]), ('bell', lambda q, t: [cirq.H(q[0]), cirq.CNOT(q[0], q[1])])] + ([('H0', lambda q, t: [cirq.H(q[0])]), ('HH', lambda q, t: [cirq.H(q[0]), cirq.H(q[1])])] if tier != 'quick' else [])
    PREP_DOC = {'H0': lambda t: [(D.H(1.0), [0])], 'Xt0': lambda t: [(D.X(t), [0])], 'bell': lambda t: [(D.H(1.0), [0]), (D.CX(1.0), [0, 1])], 'HH': lambda t: [(D.H(1.0), [0]), (D.H(1.0), [1])]}
    MID = [('none', lambda q, u: [], lambda u: []), ('CNOT', lambda q, u: [cirq.CNOT(q[1], q[0])], lambda u: [(D.CX(1.0), [1, 0])])] + ([('CZt', lambda q, u: [cirq.CZ(q[0], q[1]) ** u], lambda u: [(D.CZ(u), [0, 1])])] if tier != 'quick' else [])
    CH2 = [m for m in MENU if m[0] in (('amplitude_damp', 'depolarize', 'reset') if tier == 'quick' else tuple(x[0] for x in MENU))]
    for name, npar, build, doc in [m for m in MENU if m[0] != 'generalized_amplitude_damp']:
        def body(cx, wrong=False, build=build, doc=doc, npar=npar, name=name):
            n = 2
            q = cirq.LineQubit.range(n)
            t = cx.real('t', -4.0, 4.0)
            u = cx.real('u', -4.0, 4.0)
            pi_ = cx.choose('prep', len(PREP))
            where1 = cx.choose('where1', 2)
            mi = cx.choose('mid', len(MID))
            c2 = cx.choose('ch2', len(CH2))
            where2 = cx.choose('where2', 2)
            split = bool(cx.choose('split', 2))
            ps1 = params(cx, ['p1', 'g1'], npar, 0.0, 1.0) if name != 'X**t' else params(cx, ['t1'], 1, -4.0, 4.0)
            n2, np2, b2, d2 = CH2[c2]
            ps2 = params(cx, ['p2', 'g2'], np2, 0.0, 1.0) if n2 != 'X**t' else params(cx, ['t2'], 1, -4.0, 4.0)
            ops = PREP[pi_][1](q, t) + [build(*ps1).on(q[where1])] + MID[mi][1](q, u) + [b2(*ps2).on(q[where2])]
            circuit = cirq.Circuit(ops)
            rho = np.zeros((4, 4), dtype=object)
            rho[:] = 0
            b0 = (cx.choose('basis', 2) * 3) if tier != 'quick' else 0  # |00> or |11>
            rho[b0, b0] = 1
            for Mx, pos in PREP_DOC[PREP[pi_][0]](t):
                rho = apply_kraus([Mx], rho, pos, n)
            k1 = doc(*ps1)
            rho = apply_kraus([perturb(k1[0])] + list(k1[1:]) if wrong else k1, rho, [where1], n)
            for Mx, pos in MID[mi][2](u):
                rho = apply_kraus([Mx], rho, pos, n)
            rho = apply_kraus(d2(*ps2), rho, [where2], n)
            sim = cirq.DensityMatrixSimulator(dtype=np.complex128, split_untangled_states=split)
            res = sim.simulate(circuit, qubit_order=q, initial_state=int(b0))
            cx.close(res.final_density_matrix, rho, label=f'DensityMatrixSimulator[{name}] split={split}')

        obs.append(Obligation(f'dm_simulate.{name}', body, twin=lambda cx, b=body: b(cx, wrong=True), opts={'weight': 12, 'max_paths': 200000}, desc='DensityMatrixSimulator.simulate on prep + channel + (entangler) + channel circuits over 2 qubits (all placements, split on/off, two basis initial states), all channel/gate parameters symbolic, vs ordered sum_k K rho K^dag with documented Kraus operators'))

    # ---- C1b: a multi-qubit Kraus channel OBJECT used several times (general einsum path; operators with complex entries) --
    def kraus2_body(cx, wrong=False):
        from symx.snum import sqrt as ssqrt

        n = 3
        q = cirq.LineQubit.range(n)
        p = cx.real('p', 0.0, 1.0)
        t = cx.real('t', -4.0, 4.0)
        uses = [[(0, 1)], [(0, 1), (1, 2)], [(0, 1), (1, 2), (2, 0)], [(1, 0), (1, 0)]][cx.choose('uses', 4)]
        # two-qubit mixed-unitary Kraus pair with genuinely complex entries: sqrt(1-p) I, sqrt(p) (S (x) T)(CZ)
        U = np.kron(np.diag([1, 1j]), np.diag([1, np.exp(0.25j * np.pi)])) @ np.diag([1, 1, 1, -1]).astype(complex)
        if cx.mode == 'concrete':
            a0, a1 = np.sqrt(1 - p), np.sqrt(p)
        else:
            a0, a1 = ssqrt(1 - p), ssqrt(p)
        K0 = np.asarray(np.eye(4, dtype=complex) * 1, dtype=object) * a0
        K1 = np.asarray(U, dtype=object) * a1
        if cx.mode == 'concrete':
            K0, K1 = K0.astype(np.complex128), K1.astype(np.complex128)
        else:
            from symx.proxy import wrap

            K0, K1 = wrap(K0), wrap(K1)
        ch = cirq.KrausChannel([K0, K1], validate=False)
        ops = [cirq.X(q[0]) ** t, cirq.H(q[1]), cirq.H(q[2])] + [ch.on(q[a], q[b]) for a, b in uses]
        rho = np.zeros((8, 8), dtype=object)
        rho[:] = 0
        rho[0, 0] = 1
        rho = apply_kraus([D.X(t)], rho, [0], n)
        rho = apply_kraus([D.H(1.0)], rho, [1], n)
        rho = apply_kraus([D.H(1.0)], rho, [2], n)
        Kd = [np.eye(4, dtype=complex) * a0, U * a1]
        for ui, (a, b) in enumerate(uses):
            ks = [perturb(Kd[0])] + Kd[1:] if (wrong and ui == len(uses) - 1) else Kd
            rho = apply_kraus(ks, rho, [a, b], n)
        res = cirq.DensityMatrixSimulator(dtype=np.complex128, split_untangled_states=bool(cx.choose('split', 2))).simulate(cirq.Circuit(ops), qubit_order=q)
        cx.close(res.final_density_matrix, rho, label=f'DensityMatrixSimulator with one two-qubit KrausChannel object used {len(uses)} time(s)')
        got = cirq.kraus(ch)
        cx.close(np.asarray(got[1], dtype=object), np.asarray(Kd[1], dtype=object), label='the channel object still has its Kraus operators after the simulation')

    obs.append(Obligation('dm_simulate.kraus2_reuse', kraus2_body, twin=lambda cx: kraus2_body(cx, wrong=True), opts={'weight': 8}, desc='DensityMatrixSimulator.simulate(X**t, H, H, then ONE two-qubit cirq.KrausChannel object with complex operators applied on 1-3 qubit pairs), symbolic p and t, split on/off: final state == ordered sum_k K rho K^dag (multi-qubit einsum path of apply_channel) and the channel object keeps its operators'))

    # ---- C2: zero-qubit operations (global phase) inside mixed-state simulation: no effect on the density matrix ------
    def gphase_body(cx, wrong=False):
        n = 2
        q = cirq.LineQubit.range(n)
        t = cx.real('t', -4.0, 4.0)
        u = cx.real('u', -2.0, 2.0)
        p = cx.real('p', 0.0, 1.0)
        split = bool(cx.choose('split', 2))
        where = cx.choose('where', 3)
        gp = cirq.global_phase_operation(D.ph(u))
        ops = [cirq.X(q[0]) ** t, cirq.CNOT(q[0], q[1]), cirq.amplitude_damp(p).on(q[1])]
        ops.insert(where, gp)
        rho = np.zeros((4, 4), dtype=object)
        rho[:] = 0
        rho[0, 0] = 1
        rho = apply_kraus([D.X(t)], rho, [0], n)
        rho = apply_kraus([D.CX(1.0)], rho, [0, 1], n)
        k = D.kraus_amplitude_damp(p)
        rho = apply_kraus([perturb(k[0])] + list(k[1:]) if wrong else k, rho, [1], n)
        sim = cirq.DensityMatrixSimulator(dtype=np.complex128, split_untangled_states=split)
        res = sim.simulate(cirq.Circuit(ops), qubit_order=q)
        cx.close(res.final_density_matrix, rho, label=f'DensityMatrixSimulator with a global phase operation, split={split}')

    obs.append(Obligation('dm_simulate.global_phase', gphase_body, twin=lambda cx: gphase_body(cx, wrong=True), opts={'weight': 6}, desc='DensityMatrixSimulator.simulate(X**t, CNOT, amplitude_damp(p)) with a global phase operation exp(i pi u) inserted at every position, split on/off, all parameters symbolic: the zero-qubit operation leaves the density matrix unchanged (regression: the qubit-free factor of the product state made apply_channel raise)'))

    # ---- D: simulating with a noise model == simulating the noisy circuit (incl. idle / extra qubits) -----------
    def noise_body(cx, wrong=False):
        p = cx.real('p', 0.0, 1.0)
        t = cx.real('t', -4.0, 4.0)
        q = cirq.LineQubit.range(3)
        shape = cx.choose('shape', 3)
        ops = [[cirq.X(q[0]) ** t], [cirq.H(q[0]), cirq.CNOT(q[0], q[1])], [cirq.X(q[1]) ** t, cirq.H(q[0])]][shape]
        docs = [[(D.X(t), [0])], [(D.H(1.0), [0]), (D.CX(1.0), [0, 1])], [(D.X(t), [1]), (D.H(1.0), [0])]][shape]
        circuit = cirq.Circuit(ops)
        order_kind = cx.choose('order', 2)  # 0: exactly the circuit's qubits, 1: a superset (extra idle qubit)
        used = sorted(circuit.all_qubits())
        order = used if order_kind == 0 else list(q)
        n = len(order)
        noise_kind = cx.choose('noise', 2)
        noise_gate = cirq.depolarize(p) if noise_kind == 0 else cirq.amplitude_damp(p)
        kdoc = (lambda: channel_menu()[3][3](p)) if noise_kind == 0 else (lambda: D.kraus_amplitude_damp(p))
        # documented semantics: after every moment, the noise gate acts on every qubit OF THE CIRCUIT
        rho = np.zeros((2**n, 2**n), dtype=object)
        rho[:] = 0
        # initial |1> on every qubit so that noise on an idle qubit is visible
        b0 = 2**n - 1
        rho[b0, b0] = 1
        pos_of = {qq: order.index(qq) for qq in order}
        for moment in circuit:
            for op in moment:
                Mx = [d for d in docs if True][0]
            # apply this moment's documented matrices
            for op in moment:
                idx = ops.index(op)
                Mx, _pos = docs[idx]
                rho = apply_kraus([Mx], rho, [pos_of[x] for x in op.qubits], n)
            for qq in (used if not wrong else order[::-1][:1]):
                rho = apply_kraus(kdoc(), rho, [pos_of[qq]], n)
        sim = cirq.DensityMatrixSimulator(dtype=np.complex128, noise=noise_gate)
        res = sim.simulate(circuit, qubit_order=order, initial_state=int(b0))
        cx.close(res.final_density_matrix, rho, label=f'DensityMatrixSimulator(noise=...) order_kind={order_kind}')
        res2 = cirq.DensityMatrixSimulator(dtype=np.complex128).simulate(circuit.with_noise(noise_gate), qubit_order=order, initial_state=int(b0))
        cx.close(res2.final_density_matrix, rho, label=f'simulate(circuit.with_noise(...)) order_kind={order_kind}')

    obs.append(Obligation('noise_model.constant', noise_body, twin=lambda cx: noise_body(cx, wrong=True), opts={'weight': 8}, desc='DensityMatrixSimulator(noise=gate) and simulate(circuit.with_noise(gate)) both equal: after every moment the documented Kraus map on every qubit of the circuit (and NOT on extra idle qubits present only in qubit_order); symbolic noise strength and gate parameter'))

    # ---- D2: noise model + measurements: Simulator(noise=N) must equal simulating circuit.with_noise(N) ---------------
    # The simulators split a circuit into a prefix and a general suffix (per qubit) and generate the noise of each
    # part separately.  Compared here, for the same scripted generator: probability vector of every draw, records,
    # final density matrix.  Shapes 0-1 (measurements in the last moment, every qubit busy in every earlier moment)
    # are the healthy family; shapes 2-3 are ragged and are the recorded finding.
    def noise_meas_body(cx, shapes, wrong=False):
        from checks.C02 import make_prng

        p = cx.real('p', 0.0, 1.0)
        t = cx.real('t', -4.0, 4.0)
        q = cirq.LineQubit.range(2)
        M = cirq.Moment
        menu = [
            [M(cirq.X(q[0]) ** t, cirq.H(q[1])), M(cirq.measure(q[0], key='a'), cirq.measure(q[1], key='b'))],
            [M(cirq.H(q[0]), cirq.X(q[1]) ** t), M(cirq.CNOT(q[0], q[1])), M(cirq.measure(q[0], q[1], key='a'))],
            [M(cirq.H(q[0])), M(cirq.H(q[0]), cirq.measure(q[1], key='b'))],
            [M(cirq.X(q[0]) ** t, cirq.measure(q[1], key='b')), M(cirq.X(q[0]) ** t), M(cirq.measure(q[0], key='a'))],
        ]
        circuit = cirq.Circuit(menu[shapes[cx.choose('shape', len(shapes))]])
        noise_kind = cx.choose('noise', 2)
        noise_gate = cirq.depolarize(p) if noise_kind == 0 else cirq.amplitude_damp(p)
        b0 = 3  # |11>: noise on an idle qubit is visible
        outs = []
        for variant in (0, 1):
            prng = make_prng(cx)
            prng.n = 100 * variant  # separate draw names: the second run replays the outcomes of the first below
            if variant == 0:
                sim = cirq.DensityMatrixSimulator(dtype=np.complex128, noise=noise_gate, seed=prng)
                res = sim.simulate(circuit, initial_state=b0)
            else:
                sim = cirq.DensityMatrixSimulator(dtype=np.complex128, seed=prng)
                res = sim.simulate(circuit.with_noise(noise_gate), initial_state=b0)
            outs.append((prng.log, {k: [int(b) for b in v] for k, v in res.measurements.items()}, res.final_density_matrix))
        (logA, recA, rhoA), (logB, recB, rhoB) = outs
        cx.check(len(logA) == len(logB), label='noise+measurement: same number of random draws')
        # only compare branches in which both runs drew the same outcomes
        if [k for _p, k in logA] != [k for _p, k in logB]:
            cx.assume(False)
        for i, ((pa, _ka), (pb, _kb)) in enumerate(zip(logA, logB)):
            pb_ = list(pb)
            if wrong:
                pb_ = pb_[::-1]
            cx.close(np.array(pa, dtype=object), np.array(pb_, dtype=object), label=f'noise+measurement: probabilities of draw {i} agree between Simulator(noise=N) and with_noise(N)')
        cx.check(recA == recB, label='noise+measurement: records agree')
        # post-measurement states are normalised by the outcome probability: compare cross-multiplied by it
        cx.close(rhoA, rhoB, label='noise+measurement: final density matrices agree')

    obs.append(Obligation('noise_model.terminal_measurement', lambda cx: noise_meas_body(cx, (0, 1)), twin=lambda cx: noise_meas_body(cx, (0, 1), wrong=True), expected=(ZeroDivisionError,), opts={'weight': 8}, desc='DensityMatrixSimulator(noise=channel).simulate(circuit with terminal measurements) == simulate(circuit.with_noise(channel)) draw by draw (scripted generator): requested probability vectors, records, final density matrix; symbolic noise strength and gate exponent'))
    obs.append(Obligation('finding.noise_model.ragged_measurement', lambda cx: noise_meas_body(cx, (2, 3)), expected=(ZeroDivisionError,), opts={'weight': 8}, desc='the same comparison for circuits whose measurements are NOT aligned in the last moment (recorded finding: prefix/suffix splitting generates noise separately for both parts)'))

    # ---- E: state-vector trajectories are an exact unravelling (scripted PRNG) ------------------------------------
    class Scripted:
        """stands for the numpy RandomState handed to the simulator: outcomes are solver-chosen"""

        def __init__(self, cx):
            self.cx = cx
            self.log = []
            self.n = 0

        def choice(self, a, size=None, replace=True, p=None):
            k = len(a) if hasattr(a, '__len__') else int(a)
            self.n += 1
            i = self.cx.choose(f'draw{self.n}', k)
            self.log.append(('choice', p, i))
            return (list(a)[i] if hasattr(a, '__len__') else i)

        def random(self, size=None):
            self.n += 1
            r = self.cx.real(f'r{self.n}', 0.0, 1.0)
            self.log.append(('random', r))
            return r

        def randint(self, *a, **k):
            raise NotImplementedError('symx: randint not scripted here')

    def traj_body(cx, wrong=False):
        from symx.snum import cos, sin

        q = cirq.LineQubit.range(1)
        a = cx.real('a', -4.0, 4.0)
        b = cx.real('b', -2.0, 2.0)
        ci = cx.choose('channel', 5)
        name, npar, build, doc = [m for m in MENU if m[0] in ('amplitude_damp', 'phase_damp', 'depolarize', 'bit_flip', 'generalized_amplitude_damp')][ci]
        ps = params(cx, ['p', 'g'], npar, 0.0, 1.0)
        psi = np.array([cos(a), D.ph(b) * sin(a)], dtype=object)
        if cx.mode != 'concrete':
            from symx.proxy import wrap

            psi = wrap(psi)
        else:
            psi = psi.astype(complex)
        prng = Scripted(cx)
        st = cirq.StateVectorSimulationState(initial_state=psi.copy(), qubits=q, prng=prng, dtype=np.complex128)
        cirq.act_on(build(*ps).on(q[0]), st)
        out = st.target_tensor.reshape(-1)
        ks = doc(*ps)
        # which branch was taken?
        if prng.log and prng.log[0][0] == 'choice':
            _, pvec, k = prng.log[0]
            # mixture: requested probabilities are the documented ones; state is U_k psi
            mix = [(m_[0], m_[1]) for m_ in _doc_mixture(name, ps)]
            cx.close(np.array(list(pvec), dtype=object), np.array([m_[0] for m_ in mix], dtype=object), label=f'trajectory[{name}] requested probabilities')
            Uk = np.asarray(mix[k][1], dtype=object)
            exp = _matmul(Uk, psi.reshape(2, 1)).reshape(-1)
            if wrong:
                exp = exp * 1.01
            cx.close(out, exp, label=f'trajectory[{name}] branch {k} state')
        else:
            # Kraus channel: branch k selected by the uniform draw r; state = K_k psi / sqrt(w_k)
            r = prng.log[0][1]
            ws = []
            vs = []
            for K in ks:
                v = _matmul(np.asarray(K, dtype=object), psi.reshape(2, 1)).reshape(-1)
                vs.append(v)
                ws.append((v[0] * _cj(v[0]) + v[1] * _cj(v[1])))
            # determine the branch from the result: out * sqrt(w_k) == v_k for exactly the branch whose
            # interval [sum_{j<k} w_j, sum_{j<=k} w_j) contains r
            lo = 0
            conds = []
            for k, (v, w) in enumerate(zip(vs, ws)):
                hi = lo + w
                inside = (_re(lo) <= r) & (r < _re(hi)) if cx.mode != 'concrete' else (np.real(lo) <= r < np.real(hi))
                if cx.mode == 'concrete':
                    if inside:
                        expk = v / np.sqrt(np.real(w))
                        cx.close(out, expk * (1.01 if wrong else 1.0), label=f'trajectory[{name}] branch state')
                else:
                    if bool(inside):
                        from symx.snum import sqrt

                        nrm = sqrt(_re(w))
                        cx.close(np.array([out[0] * nrm, out[1] * nrm], dtype=object), v * (1.01 if wrong else 1.0), label=f'trajectory[{name}] branch {k}: out*sqrt(w_k) == K_k psi')
                lo = hi

    obs.append(Obligation('trajectory.one_qubit', traj_body, twin=lambda cx: traj_body(cx, wrong=True), opts={'weight': 6, 'vc_timeout_ms': 60000}, desc='cirq.act_on(channel, StateVectorSimulationState) with a SCRIPTED generator: for mixtures the requested probability vector equals the documented one and branch k applies U_k; for Kraus channels the branch selected by the symbolic uniform draw r is the one whose cumulative-weight interval contains r and the state is K_k psi / sqrt(w_k); input state normalised by construction (2 symbolic angles)'))
    return obs


def _doc_mixture(name, ps):
    if name == 'depolarize':
        return D.mixture_depolarize(*ps)
    if name == 'bit_flip':
        return D.mixture_bit_flip(*ps)
    if name == 'phase_flip':
        return D.mixture_phase_flip(*ps)
    raise KeyError(name)


def _cj(e):
    return e.conjugate() if hasattr(e, 'conjugate') else np.conj(e)


def _re(e):
    return e.real if hasattr(e, 'real') else np.real(e)


def _symb(u):
    return any(hasattr(e, 't') for e in np.asarray(u, dtype=object).reshape(-1))


def _conj(u):
    u = np.asarray(u, dtype=object)
    out = np.empty(u.shape, dtype=object)
    for i in range(u.shape[0]):
        for j in range(u.shape[1]):
            out[i, j] = _cj(u[i, j])
    return out


LEVEL = (
    'Bounded symbolic execution of the real mixed-state code, SMT-decided: channel parameters (probabilities, damping rates), gate parameters and '
    'the entire density tensor handed to cirq.apply_channel are symbolic; DensityMatrixSimulator runs on circuits mixing unitaries with every library '
    'channel; z3 decides entry-wise equality with sum_k K rho K^dag built from the documented Kraus operators, the equivalence of the kraus / mixture / '
    'superoperator / Choi descriptions, the noise-model semantics, and (with a scripted random generator whose outcomes are solver-chosen) that '
    'state-vector trajectories select branches with the documented probabilities and produce K_k psi / sqrt(w_k).'
)


def main(tier, seed=0, replay=None, only=None, procs=None):
    bounds = {
        'qubits': 2,
        'circuit_shapes': 'prep (2 quick / 4 thorough) x channel (8, both placements) x entangler (2 / 3) x second channel (3 / 8, both placements) x split on/off x basis initial state |00> (quick) / |00>,|11> (thorough)',
        'probability_box': [0, 1],
        'gate_parameter_box': [-4, 4],
        'density_tensor_entries_box': [-1, 1],
        'tolerance': 1e-7,
        'outside': ['generalized_amplitude_damp inside multi-op DensityMatrixSimulator circuits (products of several sqrt atoms: NRA query does not finish; the channel itself is covered by apply_channel.* and descriptions.*)', 'choi_to_kraus / superoperator_to_kraus (eigh)', 'thermal and device-derived noise models (scipy expm)', 'symbolic initial density matrices for the simulator (validation uses eigvalsh)', 'complex64', 'trajectories on more than one qubit'],
    }
    return run_check(PID, tier, 'checks.C09', SHIMS, LEVEL, BASE_ASSUMPTIONS, bounds, seed=seed, replay=replay, only=only, procs=procs)

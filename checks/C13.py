"""C13: the Clifford/stabilizer subsystem agrees with matrices (tableau rules, act_on dispatch,
measurement, CH form incl. CH-form measurement / copy / kron and CliffordSimulator.run with mid-circuit measurement)."""
from __future__ import annotations

import os

import itertools

import numpy as np

from checks.common import BASE_ASSUMPTIONS
from oracles import pauli as OP
from symx.explore import Obligation
from symx.run import run_check
from symx.sint import SBool

PID = 'C13'

SHIMS = ['cirq.qis.clifford_tableau', 'cirq.sim.clifford.stabilizer_state_ch_form']


def NOT(b):
    if isinstance(b, (bool, np.bool_)):
        return not b
    return ~b


def EQ(a, b):
    if isinstance(a, (bool, np.bool_)) and isinstance(b, (bool, np.bool_)):
        return bool(a) == bool(b)
    if isinstance(a, (bool, np.bool_)):
        a = SBool(bool(a))
    return a == b


def AND(conds):
    acc = True
    for c in conds:
        if isinstance(c, (bool, np.bool_)):
            if not c:
                return False
            continue
        acc = c if acc is True else (acc & c)
    return acc


def sym_tableau(cx, n, prefix='T'):
    """CliffordTableau whose every bit is a fresh symbolic Boolean (arbitrary, not nec. valid)"""
    import cirq

    tab = cirq.CliffordTableau(n)
    if cx.mode == 'concrete':
        xs = np.zeros((2 * n + 1, n), dtype=bool)
        zs = np.zeros((2 * n + 1, n), dtype=bool)
        rs = np.zeros(2 * n + 1, dtype=bool)
    else:
        xs = np.empty((2 * n + 1, n), dtype=object)
        zs = np.empty((2 * n + 1, n), dtype=object)
        rs = np.empty(2 * n + 1, dtype=object)
        xs[-1, :] = SBool(False)
        zs[-1, :] = SBool(False)
        rs[-1] = SBool(False)
    for i in range(2 * n):
        rs[i] = cx.bool(f'{prefix}r{i}')
        for j in range(n):
            xs[i, j] = cx.bool(f'{prefix}x{i}_{j}')
            zs[i, j] = cx.bool(f'{prefix}z{i}_{j}')
    tab._xs, tab._zs, tab._rs = xs, zs, rs
    return tab


def value_of(cx, name, sym):
    """concrete value of an input on this path: the replay value, or a solver witness of the path"""
    if cx.mode == 'concrete':
        return sym
    from symx.vc import witness

    w = witness(cx)
    if w is None:
        from symx.ctx import Infeasible

        raise Infeasible()
    return w[name]


def expect_rows(cx, tab, x0, z0, r0, axes, table, label, wrong=False):
    """every row i:  new bits on `axes` and sign follow the matrix-derived conjugation table,
    all other columns unchanged"""
    n = tab.n
    conds = []
    for i in range(2 * n):
        in_bits = []
        for a in axes:
            in_bits += [x0[i, a], z0[i, a]]
        if cx.mode == 'concrete':
            key = tuple(int(bool(b)) for b in in_bits)
            out, flip = table[key]
            outs = [bool(v) for v in out] + [bool(flip)]
        else:
            outs = OP.sym_lookup(in_bits, table, 2 * len(axes))
        for k, a in enumerate(axes):
            conds.append(EQ(tab.xs[i, a], outs[2 * k]))
            conds.append(EQ(tab.zs[i, a], outs[2 * k + 1]))
        flip = outs[-1]
        exp_r = (r0[i] ^ flip) if not isinstance(r0[i], (bool, np.bool_)) else (SBool(bool(r0[i])) ^ flip if not isinstance(flip, (bool, np.bool_)) else bool(r0[i]) ^ bool(flip))
        if wrong and i == 0:
            exp_r = NOT(exp_r)
        conds.append(EQ(tab.rs[i], exp_r))
        for j in range(n):
            if j not in axes:
                conds.append(EQ(tab.xs[i, j], x0[i, j]))
                conds.append(EQ(tab.zs[i, j], z0[i, j]))
    cx.check(AND(conds), label=label)


def worker_setup():
    import importlib

    from symx import proxy

    class BoolNp(proxy.NpProxy):
        def zeros(self, shape, dtype=float, **k):
            if dtype is bool or dtype is np.bool_:
                return proxy.obj_full(shape, SBool(False)).view(np.ndarray)
            return proxy.NpProxy.zeros(self, shape, dtype=dtype, **k)

    importlib.import_module('cirq.sim.clifford.stabilizer_state_ch_form').__dict__['np'] = BoolNp()
    return ['cirq.sim.clifford.stabilizer_state_ch_form.np.zeros(dtype=bool) -> array of symbolic False']


def obligations(tier):
    import cirq

    NMAX = 2 if tier == 'quick' else 3
    obs = []

    # ---- (a) tableau update rules with symbolic exponent, arbitrary tableau -------------------
    def rule_ob(name, k, gate_of):
        def body(cx, wrong=False):
            n = cx.choose('n', NMAX - k + 1) + k
            axes = list(itertools.permutations(range(n), k))
            ax = axes[cx.choose('axes', len(axes))]
            e = cx.real('e', -4.0, 4.0)
            tab = sym_tableau(cx, n)
            x0, z0, r0 = tab.xs.copy(), tab.zs.copy(), tab.rs.copy()
            getattr(tab, f'apply_{name}')(*ax, e)
            e0 = value_of(cx, 'e', e)
            U = cirq.unitary(gate_of(e0))
            table = OP.conjugation_table(U, k)
            expect_rows(cx, tab, x0, z0, r0, list(ax), table, f'tableau.apply_{name}', wrong)

        pts = []
        return Obligation(
            f'tableau.apply_{name}',
            body,
            expected=(ValueError,),
            twin=lambda cx: body(cx, wrong=True),
            points=pts,
            desc=f'CliffordTableau.apply_{name}(axes, e) on an ARBITRARY symbolic tableau (n<= {NMAX}) and symbolic exponent e: every row becomes U P U^dag with the table derived from cirq.unitary at run time',
        )

    obs.append(rule_ob('x', 1, lambda e: cirq.X**e))
    obs.append(rule_ob('y', 1, lambda e: cirq.Y**e))
    obs.append(rule_ob('z', 1, lambda e: cirq.Z**e))
    obs.append(rule_ob('h', 1, lambda e: cirq.H**e))
    obs.append(rule_ob('cz', 2, lambda e: cirq.CZ**e))
    obs.append(rule_ob('cx', 2, lambda e: cirq.CX**e))

    # ---- (b) act_on dispatch of StabilizerSimulationState on a symbolic tableau ----------------
    def menu():
        m = []
        for g in (cirq.X, cirq.Y, cirq.Z):
            for e in (0.5, 1, 1.5, -0.5, 2, 2.5, -1):
                m.append((g**e, 1))
        for e in (1, -1, 3, 2):
            m.append((cirq.H**e, 1))
        for e in (1, -1, 3, 2):
            m.append((cirq.CZ**e, 2))
            m.append((cirq.CX**e, 2))
            m.append((cirq.SWAP**e, 2))
        m.append((cirq.S, 1))
        m.append((cirq.S**-1, 1))
        m.append((cirq.ISWAP, 2))
        m.append((cirq.ISWAP**-1, 2))
        m.append((cirq.XPowGate(exponent=0.5, global_shift=-0.5), 1))
        m.append((cirq.ZPowGate(exponent=-0.5, global_shift=0.25), 1))
        m.append((cirq.PhasedXZGate(x_exponent=0.5, z_exponent=1.0, axis_phase_exponent=0.5), 1))
        m.append((cirq.PhasedXPowGate(exponent=1.0, phase_exponent=0.5), 1))
        m.append((cirq.CY, 2))
        m.append((cirq.YY, 2))
        m.append((cirq.XX**0.5, 2))
        m.append((cirq.ZZ**0.5, 2))
        for g in cirq.SingleQubitCliffordGate.all_single_qubit_cliffords:
            m.append((g, 1))
        return m

    MENU = menu()

    def act_body(cx, wrong=False):
        gi = cx.choose('gate', len(MENU))
        g, k = MENU[gi]
        n = cx.choose('n', NMAX - k + 1) + k
        axes = list(itertools.permutations(range(n), k))
        ax = axes[cx.choose('axes', len(axes))]
        qs = cirq.LineQubit.range(n)
        tab = sym_tableau(cx, n)
        x0, z0, r0 = tab.xs.copy(), tab.zs.copy(), tab.rs.copy()
        st = cirq.CliffordTableauSimulationState(tableau=tab, qubits=qs, prng=np.random.RandomState(0))
        cirq.act_on(g.on(*[qs[a] for a in ax]), st)
        table = OP.conjugation_table(cirq.unitary(g), k)
        expect_rows(cx, st.tableau, x0, z0, r0, list(ax), table, f'act_on[{g}]', wrong)

    obs.append(
        Obligation(
            'tableau.act_on_dispatch',
            act_body,
            twin=lambda cx: act_body(cx, wrong=True),
            opts={'weight': 5, 'max_paths': 50000},
            desc=f'cirq.act_on(gate.on(axes), CliffordTableauSimulationState) for {len(MENU)} Clifford gates (all 24 single-qubit Cliffords, powers, shifted, SWAP/ISWAP/parity via decomposition) on an arbitrary symbolic tableau vs conjugation table from cirq.unitary(gate)',
        )
    )
    # ---- (b2) general (multi-qubit) CliffordGate objects: CliffordGate._act_on_ pads / permutes its tableau by `axes` and
    # composes it with the state (CliffordTableau.then).  State: Pauli part from a menu of concrete tableaux, ALL SIGN BITS
    # symbolic (a fully symbolic state makes `then` fork on every bit product: > 10^4 paths per gate)
    def clifford_gates():
        qa, qb, qc = cirq.LineQubit.range(3)
        return [
            (cirq.CliffordGate.CNOT, 2),
            (cirq.CliffordGate.CZ, 2),
            (cirq.CliffordGate.SWAP, 2),
            (cirq.CliffordGate.from_op_list([cirq.H(qa), cirq.CNOT(qa, qb), cirq.S(qb)], [qa, qb]), 2),
            (cirq.CliffordGate.from_op_list([cirq.S(qa), cirq.CNOT(qb, qa), cirq.H(qb), cirq.X(qa) ** 0.5], [qa, qb]), 2),
            (cirq.CliffordGate.from_op_list([cirq.H(qa), cirq.CNOT(qa, qb), cirq.CNOT(qb, qc), cirq.S(qc)], [qa, qb, qc]), 3),
        ]

    CGATES = clifford_gates()

    def base_tableau(n, which):
        t = cirq.CliffordTableau(n)
        if which == 1:
            t.apply_h(0)
            t.apply_cx(0, n - 1)
            t.apply_z(n - 1, 0.5)
        elif which == 2:
            t.apply_x(n - 1, 0.5)
            t.apply_cz(0, n - 1)
            t.apply_h(0)
            if n == 3:
                t.apply_cx(2, 1)
                t.apply_y(1, 0.5)
        return t

    def act_clifford_body(cx, wrong=False):
        gi = cx.choose('gate', len(CGATES))
        g, k = CGATES[gi]
        n = cx.choose('n', 3 - k + 1) + k
        axes = list(itertools.permutations(range(n), k))
        ax = axes[cx.choose('axes', len(axes))]
        qs = cirq.LineQubit.range(n)
        tab = base_tableau(n, cx.choose('state', 3))
        rs = np.empty(2 * n + 1, dtype=object if cx.mode != 'concrete' else bool)
        rs[-1] = False if cx.mode == 'concrete' else SBool(False)
        for i in range(2 * n):
            rs[i] = cx.bool(f'r{i}')
        tab._rs = rs
        x0, z0, r0 = tab.xs.copy(), tab.zs.copy(), tab.rs.copy()
        st = cirq.CliffordTableauSimulationState(tableau=tab, qubits=qs, prng=np.random.RandomState(0))
        cirq.act_on(g.on(*[qs[a] for a in ax]), st)
        table = OP.conjugation_table(cirq.unitary(g), k)
        expect_rows(cx, st.tableau, x0, z0, r0, list(ax), table, f'act_on[CliffordGate #{gi}]', wrong)

    obs.append(Obligation('tableau.act_on_clifford_gate', act_clifford_body, twin=lambda cx: act_clifford_body(cx, wrong=True), opts={'weight': 5, 'max_paths': 50000}, desc='cirq.act_on(CliffordGate.on(axes), CliffordTableauSimulationState) for 6 general two/three-qubit CliffordGate objects on every ordered choice of axes of 2-3 qubits (including states WITHOUT spectator qubits and non-canonical orders); state: 3 concrete Pauli parts with ALL sign bits symbolic; vs conjugation table from cirq.unitary(gate)'))

    # ---- (c) CliffordTableau._measure from an arbitrary VALID tableau --------------------------------------------
    from oracles.pauli import BY_XZ

    # single-qubit Pauli multiplication table from the 2x2 matrices: (x1,z1,x2,z2) -> (x,z, k) with P1 P2 = i^k P
    MUL = {}
    for a in BY_XZ:
        for b in BY_XZ:
            M = BY_XZ[a] @ BY_XZ[b]
            for c_ in BY_XZ:
                for k in range(4):
                    if np.allclose(M, (1j**k) * BY_XZ[c_]):
                        MUL[a + b] = (c_[0], c_[1], k)

    def XOR(a, b):
        if isinstance(a, (bool, np.bool_)) and isinstance(b, (bool, np.bool_)):
            return bool(a) != bool(b)
        if isinstance(a, (bool, np.bool_)):
            a = SBool(bool(a))
        return a ^ b

    def mul_rows(cx, xa, za, ra, xb, zb, rb, n):
        """(x, z, r, ok) of the product of two signed Pauli rows; ok = phase exponent is even (Hermitian)"""
        xs_, zs_ = [], []
        ksum = 0
        for k in range(n):
            bits = [xa[k], za[k], xb[k], zb[k]]
            if cx.mode == 'concrete':
                x_, z_, ph = MUL[tuple(int(bool(b)) for b in bits)]
                xs_.append(bool(x_)); zs_.append(bool(z_)); ksum += ph
            else:
                tbl = {key: ((v[0], v[1], v[2] & 1, (v[2] >> 1) & 1), 0) for key, v in MUL.items()}
                o = OP.sym_lookup(bits, tbl, 4)
                xs_.append(o[0]); zs_.append(o[1])
                ksum = ksum + o[2].to_sint() + 2 * o[3].to_sint()
        if cx.mode == 'concrete':
            return xs_, zs_, (bool(ra) != bool(rb)) != bool((ksum % 4) // 2), (ksum % 2 == 0)
        half = (ksum % 4) // 2
        return xs_, zs_, XOR(XOR(ra, rb), half == 1), (ksum % 2) == 0

    def measure_body(cx, wrong=False, n=2, qfix=None):
        q = qfix if qfix is not None else cx.choose('q', n)
        tab = sym_tableau(cx, n)
        # representation invariant: symplectic relations between all rows
        conds = []
        for i in range(2 * n):
            for j in range(i + 1, 2 * n):
                acc = False
                for k in range(n):
                    t1 = tab.xs[i, k] & tab.zs[j, k] if cx.mode != 'concrete' else bool(tab.xs[i, k]) and bool(tab.zs[j, k])
                    t2 = tab.zs[i, k] & tab.xs[j, k] if cx.mode != 'concrete' else bool(tab.zs[i, k]) and bool(tab.xs[j, k])
                    acc = XOR(XOR(acc, t1), t2) if cx.mode != 'concrete' else ((acc != t1) != t2)
                want = (j == i + n)
                conds.append(acc if want else NOT(acc))
        cx.assume(AND(conds))
        x0, z0, r0 = tab.xs.copy(), tab.zs.copy(), tab.rs.copy()

        class Coin(np.random.RandomState):
            def randint(self_, *a, **k):
                return cx.choose('coin', 2)

        out = tab._measure(q, Coin(0))
        # which branch did the code take?  first stabilizer row with an X component on q
        anti = [x0[i, q] for i in range(2 * n)]
        p = None
        for i in range(n, 2 * n):
            if bool(anti[i]):
                p = i
                break
        checks = []
        if p is None:
            # deterministic: (-1)^out Z_q = product of the stabilizers S_{i+n} over destabilizers i anticommuting with Z_q
            xa = [False] * n if cx.mode == 'concrete' else [SBool(False)] * n
            za = list(xa)
            ra = False if cx.mode == 'concrete' else SBool(False)
            okall = True
            for i in range(n):
                if bool(anti[i]):
                    xa, za, ra, ok = mul_rows(cx, xa, za, ra, list(x0[i + n]), list(z0[i + n]), r0[i + n], n)
                    okall = ok if okall is True else (okall & ok if cx.mode != 'concrete' else (okall and ok))
            for k in range(n):
                checks.append(EQ(xa[k], False))
                checks.append(EQ(za[k], k == q))
            checks.append(okall)
            exp_out = ra
            if wrong:
                exp_out = NOT(exp_out)
            checks.append(EQ(bool(out) if cx.mode == 'concrete' else SBool(bool(out)), exp_out) if cx.mode == 'concrete' else (exp_out if out else NOT(exp_out)))
            for i in range(2 * n):
                checks.append(EQ(tab.rs[i], r0[i]))
                for k in range(n):
                    checks.append(EQ(tab.xs[i, k], x0[i, k]))
                    checks.append(EQ(tab.zs[i, k], z0[i, k]))
        else:
            sp = (list(x0[p]), list(z0[p]), r0[p])
            for i in range(2 * n):
                if i == p:
                    # new stabilizer: (-1)^out Z_q
                    for k in range(n):
                        checks.append(EQ(tab.xs[i, k], False))
                        checks.append(EQ(tab.zs[i, k], k == q))
                    checks.append(EQ(tab.rs[i], bool(out) != wrong))
                elif i == p - n:
                    for k in range(n):
                        checks.append(EQ(tab.xs[i, k], sp[0][k]))
                        checks.append(EQ(tab.zs[i, k], sp[1][k]))
                    checks.append(EQ(tab.rs[i], sp[2]))
                elif bool(anti[i]):
                    xa, za, ra, ok = mul_rows(cx, list(x0[i]), list(z0[i]), r0[i], sp[0], sp[1], sp[2], n)
                    for k in range(n):
                        checks.append(EQ(tab.xs[i, k], xa[k]))
                        checks.append(EQ(tab.zs[i, k], za[k]))
                    checks.append(EQ(tab.rs[i], ra))
                    checks.append(ok)
                else:
                    for k in range(n):
                        checks.append(EQ(tab.xs[i, k], x0[i, k]))
                        checks.append(EQ(tab.zs[i, k], z0[i, k]))
                    checks.append(EQ(tab.rs[i], r0[i]))
        cx.check(AND(checks), label='tableau._measure post-state and outcome')

    # ---- (d) CH form: amplitudes from an arbitrary VALID CH-form state -----------------------------------------
    def sym_ch(cx, n, prefix=''):
        st = cirq.StabilizerStateChForm(n)

        def barr(name, shape):
            a = np.empty(shape, dtype=object if cx.mode != 'concrete' else bool)
            for idx in itertools.product(*[range(s_) for s_ in shape]):
                a[idx] = cx.bool(prefix + name + ''.join(map(str, idx)))
            return a

        st.F, st.G, st.M = barr('F', (n, n)), barr('G', (n, n)), barr('M', (n, n))
        g = np.empty(n, dtype=object if cx.mode != 'concrete' else int)
        for i in range(n):
            g[i] = cx.int(f'{prefix}g{i}', 0, 3)
        st.gamma = g
        st.v, st.s = barr('v', (n,)), barr('s', (n,))
        st.omega = 1 + 0j

        # representation invariant (Bravyi et al. 2019): F G^T = I, F M^T symmetric, gamma_p = (F M^T)_pp mod 2
        def dot2(A, i, B, j):
            acc = False if cx.mode == 'concrete' else SBool(False)
            for k in range(n):
                t_ = (bool(A[i, k]) and bool(B[j, k])) if cx.mode == 'concrete' else (A[i, k] & B[j, k])
                acc = (acc != t_) if cx.mode == 'concrete' else (acc ^ t_)
            return acc

        conds = []
        for i in range(n):
            for j in range(n):
                e = dot2(st.F, i, st.G, j)
                conds.append(e if i == j else NOT(e))
                if i < j:
                    conds.append(EQ(dot2(st.F, i, st.M, j), dot2(st.F, j, st.M, i)))
            conds.append(EQ((st.gamma[i] % 2 == 1), dot2(st.F, i, st.M, i)))
        cx.assume(AND(conds))
        return st

    def reindex_body(cx, wrong=False, pi_=0, xs=None):
        n = 3
        axes = list(list(itertools.permutations(range(n)))[pi_])
        st = sym_ch(cx, n)
        new = st.reindex(axes)
        # the output basis state is a finite selector; obligations are sharded over it so that the pool can balance them
        x = xs[cx.choose('x', len(xs))] if xs is not None else cx.choose('x', 2**n)
        ybits = [(x >> (n - 1 - i)) & 1 for i in range(n)]
        old = [0] * n
        for i in range(n):
            old[axes[i]] = ybits[i]
        if wrong:
            old[0] = 1 - old[0]
        xo = int(''.join(map(str, old)), 2)
        cx.close(new.inner_product_of_state_and_x(int(x)), st.inner_product_of_state_and_x(xo), label='StabilizerStateChForm.reindex amplitude')

    RE_DESC = 'StabilizerStateChForm.reindex(axes) for every permutation of 3 qubits from an ARBITRARY valid CH-form state (F, G, M, gamma, v, s symbolic under the representation invariant): every amplitude <y|reindexed> equals the amplitude of the correspondingly permuted basis state of the original (sharded over pairs of output basis states)'
    for pi_ in ((1, 3) if tier == 'quick' else range(6)):
        for sh, xs_ in enumerate([(0, 1), (2, 3), (4,), (5,), (6,), (7,)]):
            # quick: the output basis states whose VCs z3 decides in seconds; x = 2, 3, 5, 7 need minutes per shard
            # (integer/mod-4 reasoning over if-then-else sums) and are left to the thorough tier
            if tier == 'quick' and xs_ not in ((0, 1), (4,), (6,)):
                continue
            obs.append(Obligation(f'chform.reindex.perm{pi_}.x' + ''.join(map(str, xs_)), lambda cx, pi_=pi_, xs_=xs_: reindex_body(cx, pi_=pi_, xs=xs_), twin=(lambda cx, pi_=pi_, xs_=xs_: reindex_body(cx, wrong=True, pi_=pi_, xs=xs_)) if (pi_ in (1, 3) and xs_ == (4,)) else None, opts={'weight': 30, 'vc_timeout_ms': 120000}, desc=RE_DESC))

    # ---- (e) single-qubit Clifford group: the solver enumerates all valid 1-qubit tableaux (24), pairs for binary laws
    def enum_tableau(cx, prefix):
        """concrete valid 1-qubit tableau chosen by the solver (every valid one is a path)"""
        bits = {}
        for nm in ('x0', 'z0', 'r0', 'x1', 'z1', 'r1'):
            bits[nm] = cx.bool(prefix + nm)
        # symplectic: rows anticommute
        t1 = bits['x0'] & bits['z1'] if cx.mode != 'concrete' else (bits['x0'] and bits['z1'])
        t2 = bits['z0'] & bits['x1'] if cx.mode != 'concrete' else (bits['z0'] and bits['x1'])
        cx.assume((t1 ^ t2) if cx.mode != 'concrete' else (t1 != t2))
        v = {k: bool(b) for k, b in bits.items()}  # forks: one path per valid tableau
        return cirq.CliffordTableau(1, rs=np.array([v['r0'], v['r1']]), xs=np.array([[v['x0']], [v['x1']]]), zs=np.array([[v['z0']], [v['z1']]]))

    def phase_equal(A, B):
        k = np.argmax(np.abs(B))
        i, j = divmod(int(k), B.shape[1])
        return abs(abs(A[i, j]) - abs(B[i, j])) < 1e-9 and np.allclose(A * B[i, j], B * A[i, j], atol=1e-9)

    def table_of(t):
        """conjugation table {X-bits -> (bits, flip)} described by a 1-qubit tableau (rows: image of X, image of Z)"""
        return {(1, 0): ((int(t.xs[0, 0]), int(t.zs[0, 0])), int(t.rs[0])), (0, 1): ((int(t.xs[1, 0]), int(t.zs[1, 0])), int(t.rs[1]))}

    def group_body(cx, wrong=False):
        t1 = enum_tableau(cx, 'a')
        g1 = cirq.SingleQubitCliffordGate.from_clifford_tableau(t1)
        U1 = cirq.unitary(g1)
        tab = OP.conjugation_table(U1, 1)
        want = table_of(t1)
        ok = all(tab[k] == want[k] for k in want)
        if wrong:
            ok = not ok
        cx.check(ok, label='clifford1q: unitary conjugates X,Z as the tableau says')
        q = cirq.LineQubit(0)
        # inverse / powers
        cx.check(phase_equal(cirq.unitary(g1**-1) @ U1, np.eye(2)), label='clifford1q: g**-1 undoes g')
        cx.check(phase_equal(cirq.unitary(g1**2), U1 @ U1), label='clifford1q: g**2')
        cx.check(cirq.SingleQubitCliffordGate.from_unitary(U1) == g1, label='clifford1q: from_unitary(unitary(g)) == g')
        prod = np.eye(2, dtype=complex)
        for gg in g1.decompose_gate():
            prod = cirq.unitary(gg) @ prod
        cx.check(phase_equal(prod, U1), label='clifford1q: decompose_gate product')
        prod = np.eye(2, dtype=complex)
        for op in cirq.decompose_once(g1.on(q)):
            prod = cirq.unitary(op) @ prod
        cx.check(phase_equal(prod, U1), label='clifford1q: decompose_once product')
        cx.check(t1.inverse().then(t1) == cirq.CliffordTableau(1) and t1.then(t1.inverse()) == cirq.CliffordTableau(1), label='tableau: inverse')
        gen = cirq.CliffordGate.from_clifford_tableau(t1)
        cx.check(phase_equal(cirq.unitary(gen), U1), label='CliffordGate.from_clifford_tableau unitary')
        # binary laws with a second enumerated element
        t2 = enum_tableau(cx, 'b')
        g2 = cirq.SingleQubitCliffordGate.from_clifford_tableau(t2)
        U2 = cirq.unitary(g2)
        cx.check(phase_equal(cirq.unitary(g1.merged_with(g2)), U2 @ U1), label='clifford1q: merged_with == second after first')
        t12 = t1.then(t2)
        tab12 = OP.conjugation_table(U2 @ U1, 1)
        w12 = table_of(t12)
        cx.check(all(tab12[k] == w12[k] for k in w12), label='tableau: then == matrix product')
        cx.check(phase_equal(cirq.unitary(cirq.CliffordGate.from_op_list([g1.on(q), g2.on(q)], [q])), U2 @ U1), label='CliffordGate.from_op_list')
        cm = cirq.commutes(g1, g2, default=None)
        if cm is True and False:
            pass

    obs.append(Obligation('clifford.group1q', group_body, twin=lambda cx: group_body(cx, wrong=True), opts={'weight': 20, 'max_paths': 5000}, kind='bounded-exploration', desc='EXHAUSTIVE (solver-enumerated): all 24 valid one-qubit tableaux and all 576 ordered pairs: SingleQubitCliffordGate.from_clifford_tableau / unitary / **-1 / **2 / from_unitary / decompose_gate / decompose_once / merged_with / CliffordGate.from_clifford_tableau / from_op_list and CliffordTableau.then / inverse agree with the matrices (up to global phase)'))

    CHG = [
        ('X', cirq.X, 1), ('Y', cirq.Y, 1), ('Z', cirq.Z, 1), ('H', cirq.H, 1), ('S', cirq.S, 1), ('Sdg', cirq.S**-1, 1),
        ('sqrtX', cirq.X**0.5, 1), ('sqrtXdg', cirq.X**-0.5, 1), ('sqrtY', cirq.Y**0.5, 1), ('sqrtYdg', cirq.Y**-0.5, 1),
        ('CZ', cirq.CZ, 2), ('CX', cirq.CX, 2), ('Zshift', cirq.ZPowGate(exponent=0.5, global_shift=0.25), 1), ('Xshift', cirq.XPowGate(exponent=1.0, global_shift=-0.5), 1),
        ('SWAP', cirq.SWAP, 2), ('gphase', cirq.global_phase_operation(1j), 0),
    ]

    def chgate_body(cx, wrong=False, gi=0, xs=None):
        from oracles import embed as EM_

        n = 2
        gname, g, k = CHG[gi]
        st = sym_ch(cx, n)
        old = st.copy()
        qs = cirq.LineQubit.range(n)
        axes = list(itertools.permutations(range(n), k))
        ax = axes[cx.choose('axes', len(axes))]
        sim = cirq.StabilizerChFormSimulationState(qubits=qs, prng=np.random.RandomState(0), initial_state=st)
        op = g if k == 0 else g.on(*[qs[a] for a in ax])
        cirq.act_on(op, sim)
        new = sim.state
        U = EM_.embed_matrix(cirq.unitary(g) if k else cirq.unitary(op), list(ax), n) if k else np.eye(2**n) * complex(cirq.unitary(op)[0, 0])
        x = xs[cx.choose('x', len(xs))] if xs is not None else cx.choose('x', 2**n)
        exp = 0
        for y in range(2**n):
            if abs(U[x, y]) > 1e-12:
                exp = exp + complex(U[x, y]) * old.inner_product_of_state_and_x(y)
        if wrong:
            exp = exp * (-1)
        cx.close(new.inner_product_of_state_and_x(int(x)), exp, label=f'chform.act_on[{gname}] amplitude (incl. global phase)')

    CH_DESC = 'cirq.act_on(gate, StabilizerChFormSimulationState) from an ARBITRARY valid 2-qubit CH-form state (all of F, G, M, gamma, v, s symbolic under the representation invariant): every amplitude of the new state equals the matrix of the gate applied to the amplitudes of the old state, INCLUDING the global phase'
    HEAVY = ('H', 'sqrtX', 'sqrtXdg', 'sqrtY', 'sqrtYdg', 'Xshift', 'X', 'Y')
    for gi, (gname, _g, _k) in enumerate(CHG):
        if tier == 'quick' and gname not in ('H', 'S', 'CZ', 'CX', 'sqrtY', 'Xshift', 'gphase'):
            continue
        shards = [(0,), (1,), (2,), (3,)] if gname in HEAVY else [None]
        for si, xs_ in enumerate(shards):
            nm = f'chform.gate.{gname}' + ('' if xs_ is None else f'.x{xs_[0]}')
            obs.append(Obligation(nm, lambda cx, gi=gi, xs_=xs_: chgate_body(cx, gi=gi, xs=xs_), twin=(lambda cx, gi=gi, xs_=xs_: chgate_body(cx, wrong=True, gi=gi, xs=xs_)) if (gname in ('H', 'CZ', 'S') and si == 0) else None, opts={'weight': 10, 'vc_timeout_ms': 120000}, desc=CH_DESC))

    # ---- (d2) CH-form update RULES called directly: exponent from a menu covering every residue mod 2 over more than
    # one period (negative, zero and even exponents included), SYMBOLIC global shift
    from oracles import gates_doc as D_

    RULES = {'x': (1, D_.X, 0.5), 'y': (1, D_.Y, 0.5), 'z': (1, D_.Z, 0.5), 'h': (1, D_.H, 1.0), 'cz': (2, D_.CZ, 1.0), 'cx': (2, D_.CX, 1.0)}

    def chrule_body(cx, rname, wrong=False, xs=None, nq=1):
        from oracles import embed as EM_

        k, doc, step = RULES[rname]
        n = max(k, nq)
        exps = [step * j for j in range(int(-2 / step), int(4 / step) + 1)]
        e0 = exps[cx.choose('exponent', len(exps))]
        gs = cx.real('gs', -1.0, 1.0)
        st = sym_ch(cx, n)
        old = st.copy()
        axes = list(itertools.permutations(range(n), k))
        ax = axes[cx.choose('axes', len(axes))]
        getattr(st, f'apply_{rname}')(*ax, e0, gs)
        # documented matrix = exp(i pi shift exponent) * (matrix without shift): the shift phase is divided out of the
        # NEW amplitude, so that a correct implementation leaves trigonometry-free terms (exact Boolean stage) while a
        # lost / wrong phase leaves a residual exp(i pi k shift) and is refuted on the pi/4 lattice
        U0 = EM_.embed_matrix(np.asarray(doc(e0, 0.0), dtype=complex), list(ax), n)
        x = xs[cx.choose('x', len(xs))] if xs is not None else cx.choose('x', 2**n)
        exp = 0
        for y in range(2**n):
            if abs(complex(U0[x, y])) > 1e-12:
                exp = exp + complex(U0[x, y]) * old.inner_product_of_state_and_x(y)
        if wrong:
            exp = exp * (-1)
        cx.close(st.inner_product_of_state_and_x(int(x)) * D_.ph(-e0 * gs), exp, label=f'chform.apply_{rname}(exponent={e0}, global_shift symbolic) amplitude (incl. global phase)')

    CHR_DESC = 'StabilizerStateChForm.apply_<rule>(axes, exponent, global_shift) called directly on an ARBITRARY valid CH-form state (1 qubit for x/y/z/h in the quick tier, 2 qubits for cz/cx and in the thorough tier): exponent from a menu covering every admissible residue over [-2, 4] (half-integer steps for x/y/z, integer steps for h/cz/cx), SYMBOLIC global shift in [-1, 1]: every amplitude of the new state equals the documented matrix (oracles/gates_doc.py, including exp(i pi shift exponent)) applied to the old amplitudes'
    for rname in RULES:
        one = RULES[rname][0] == 1
        if one:
            obs.append(Obligation(f'chform.rule.{rname}', lambda cx, rname=rname: chrule_body(cx, rname, nq=1), twin=lambda cx, rname=rname: chrule_body(cx, rname, wrong=True, nq=1), opts={'weight': 10, 'vc_timeout_ms': 120000}, desc=CHR_DESC))
        if not one or tier != 'quick':
            for si, xs_ in enumerate([(0,), (1,), (2,), (3,)]):
                nm = f'chform.rule.{rname}.n2.x{xs_[0]}'
                obs.append(Obligation(nm, lambda cx, rname=rname, xs_=xs_: chrule_body(cx, rname, xs=xs_, nq=2), twin=(lambda cx, rname=rname, xs_=xs_: chrule_body(cx, rname, wrong=True, xs=xs_, nq=2)) if si == 0 else None, opts={'weight': 10, 'vc_timeout_ms': 120000}, desc=CHR_DESC))

    # ---- (d3) CH-form MEASUREMENT (project_Z, _measure, measure), copy, kron ---------------------------------------
    # Semantics used by the oracles (nothing of it is read off the CH representation):
    #   * the amplitudes a0[y] = <y|psi> of the state BEFORE the call are taken through inner_product_of_state_and_x
    #     (tied to the matrices by the chform.gate.* obligations) before the code under test runs (no copy() involved);
    #   * supp = {y : a0[y] != 0} (decided by the solver under the path condition); a stabilizer state has amplitudes
    #     of equal modulus on its support, so P(Z_q = z) = |supp_z| / |supp| and the normalisation of the projected state
    #     is sqrt(|supp| / |supp_z|) (sqrt 2 when both outcomes are possible, 1 when the outcome is definite);
    #   * the sampling algorithm (Bravyi et al., section 4.1) draws one bit per superposed position of U_H|s>; U_C
    #     permutes basis states, so the number of draws is log2 |supp|.
    import math as _math

    def _valid_ch_envs(n, prefix=''):
        """every valid n-qubit CH tuple (F, G, M, gamma, v, s) by brute force over the representation invariant,
        written independently of cirq: source of the explicit concrete validation points"""
        rng = range(n)
        envs = []
        mats = [[list(b[i * n:(i + 1) * n]) for i in rng] for b in itertools.product([0, 1], repeat=n * n)]
        for F in mats:
            G = next((G_ for G_ in mats if all(sum(F[i][k] * G_[j][k] for k in rng) % 2 == int(i == j) for i in rng for j in rng)), None)
            if G is None:
                continue
            for M in mats:
                FM = [[sum(F[i][k] * M[j][k] for k in rng) % 2 for j in rng] for i in rng]
                if any(FM[i][j] != FM[j][i] for i in rng for j in rng):
                    continue
                for hi in itertools.product([0, 1], repeat=n):
                    for v in itertools.product([0, 1], repeat=n):
                        for s_ in itertools.product([0, 1], repeat=n):
                            env = {}
                            for i in rng:
                                env[f'{prefix}g{i}'] = FM[i][i] + 2 * hi[i]
                                env[f'{prefix}v{i}'] = bool(v[i])
                                env[f'{prefix}s{i}'] = bool(s_[i])
                                for j in rng:
                                    env[f'{prefix}F{i}{j}'] = bool(F[i][j])
                                    env[f'{prefix}G{i}{j}'] = bool(G[i][j])
                                    env[f'{prefix}M{i}{j}'] = bool(M[i][j])
                            envs.append(env)
        return envs

    _ENVS = {}

    def ch_points(count, n=2, offset=0, extra=None, prefix=''):
        """`count` explicit validation points: valid CH states spread over the whole enumeration (+ extra variables)"""
        if (n, prefix) not in _ENVS:
            _ENVS[(n, prefix)] = _valid_ch_envs(n, prefix)
        envs = _ENVS[(n, prefix)]
        pts = []
        for j in range(count):
            env = dict(envs[(offset + j * 397) % len(envs)])
            if extra:
                env.update(extra(j))
            pts.append(env)
        return pts

    def ch_amps(st):
        return [st.inner_product_of_state_and_x(int(y)) for y in range(2**st.n)]

    def ch_support(cx, a):
        """basis states with non-zero amplitude; the solver decides under the path condition (forks only if open)"""
        out = []
        for y, ay in enumerate(a):
            if cx.mode == 'concrete' or isinstance(ay, (int, float, complex)):
                zero = abs(complex(ay)) < 1e-9
            else:
                zero = bool(ay == 0)
            if not zero:
                out.append(y)
        return out

    def ch_clone(st):
        """harness-side copy (numpy copies of the arrays; does not use StabilizerStateChForm.copy)"""
        c = cirq.StabilizerStateChForm(st.n)
        for nm in ('F', 'G', 'M', 'gamma', 'v', 's'):
            setattr(c, nm, np.array(getattr(st, nm), dtype=getattr(st, nm).dtype, copy=True))
        c.omega = st.omega
        return c

    def qbit(y, q, n):
        return (y >> (n - 1 - q)) & 1

    class Script(np.random.RandomState):
        """scripted generator: every call is recorded (name, args, kwargs); randint returns the next scripted bit: a
        solver variable (symbolic 0/1 integer) or, for the distribution obligations, the next bit of an enumerated string"""

        def __init__(self, cx, bits=None, prefix='coin'):
            super().__init__(0)
            self.cx, self.bits, self.prefix, self.calls = cx, bits, prefix, []

        def randint(self, *a, **k):
            i = len(self.calls)
            self.calls.append(('randint', tuple(a), tuple(sorted(k.items()))))
            if self.bits is not None:
                return int(self.bits[i]) if i < len(self.bits) else 0
            return self.cx.int(f'{self.prefix}{i}', 0, 1)

        def _other(name):
            def f(self, *a, **k):
                self.calls.append((name, tuple(a), tuple(sorted(k.items()))))
                raise AssertionError(f'scripted generator: the measurement code called prng.{name}{a} (documented: one randint(2) per superposed position)')

            return f

        for _n in ('random_sample', 'random', 'rand', 'choice', 'uniform', 'randn', 'bytes', 'binomial', 'random_integers', 'permutation', 'shuffle', 'seed'):
            locals()[_n] = _other(_n)
        del _n

    def draws_ok(prng, count):
        return len(prng.calls) == count and all(c[0] == 'randint' and c[1] in ((2,), (0, 2)) and c[2] == () for c in prng.calls)

    def projected(a0, supp, cond, n, x):
        """amplitude <x| of the normalised projection of the old state on Z_q = (-1)^o for all (q, o) in cond (0 when impossible)"""
        sz = [y for y in supp if all(qbit(y, q, n) == o for q, o in cond)]
        if not sz or x not in sz:
            return 0
        return _math.sqrt(len(supp) / len(sz)) * a0[x]

    def cvec(cx, vals):
        return np.array(list(vals), dtype=object if cx.mode != 'concrete' else complex)

    OMEGA0 = 1j  # non-trivial global phase of the symbolic start state (exact in floats)

    def projz_body(cx, wrong=False, qz=None, n=2):
        q, z = qz if qz is not None else (cx.choose('q', n), cx.choose('z', 2))
        st = sym_ch(cx, n)
        st.omega = OMEGA0
        a0 = ch_amps(st)
        supp = ch_support(cx, a0)
        st.project_Z(q, z)
        exp = [projected(a0, supp, [(q, (1 - z) if wrong else z)], n, x) for x in range(2**n)]
        cx.close(cvec(cx, ch_amps(st)), cvec(cx, exp), label=f'chform.project_Z(q={q}, z={z}) amplitudes (normalised projection, phase kept)')

    PZ_DESC = 'StabilizerStateChForm.project_Z(q, z) from an ARBITRARY valid CH-form state (2 qubits; F, G, M, gamma, v, s symbolic under the representation invariant, omega = i), every q and z: every amplitude of the new state is the old amplitude times sqrt(|supp|/|supp_z|) (sqrt 2 when both outcomes are possible, 1 when Z_q is definite) on basis states with x_q = z and 0 elsewhere (all of them 0 when z is the impossible outcome)'
    # n = 3 was tried for project_Z: more than 3000 paths per qubit, not finished after 15 CPU-minutes per shard: the claim is n = 2
    for q_ in range(2):
        for z_ in range(2):
            obs.append(Obligation(f'chform.measure.project_Z.q{q_}z{z_}', lambda cx, qz=(q_, z_): projz_body(cx, qz=qz), twin=(lambda cx, qz=(q_, z_): projz_body(cx, wrong=True, qz=qz)), points=ch_points(6, offset=11 * (2 * q_ + z_)), opts={'weight': 12, 'vc_timeout_ms': 120000}, desc=PZ_DESC))

    def chmeasure_body(cx, wrong=False, axes=(0,), via='_measure', n=2):
        st = sym_ch(cx, n)
        st.omega = OMEGA0
        a0 = ch_amps(st)
        supp = ch_support(cx, a0)
        prng = Script(cx)
        if via == '_measure':
            outs = [int(st._measure(q, prng)) for q in axes]
        else:
            outs = [int(o) for o in st.measure(list(axes), prng)]
        # oracle: sequential Born rule on the support; draws: log2 |current support| per measurement
        cur, draws, possible = list(supp), 0, True
        for q, o in zip(axes, outs):
            draws += int(round(_math.log2(len(cur)))) if cur else 0
            cur = [y for y in cur if qbit(y, q, n) == o]
            possible = possible and bool(cur)
        cx.check(len(outs) == len(axes) and all(o in (0, 1) for o in outs) and draws_ok(prng, draws), label=f'chform.{via}: one outcome bit per axis; one randint(2) per superposed position (log2 |supp| draws per measurement), nothing else drawn')
        cx.check(possible, label=f'chform.{via}: the returned outcomes have non-zero probability (definite Z_q -> that value, repeated axis -> repeated value)')
        cond = [(q, o) for q, o in zip(axes, outs)]
        if wrong:
            cond[-1] = (cond[-1][0], 1 - cond[-1][1])
        exp = [projected(a0, supp, cond, n, x) for x in range(2**n)]
        cx.close(cvec(cx, ch_amps(st)), cvec(cx, exp), label=f'chform.{via}(axes={list(axes)}) post-state = normalised projection on the returned outcomes')

    ME_DESC = 'StabilizerStateChForm._measure(q, prng) / measure(axes, prng) from an ARBITRARY valid 2-qubit CH-form state with a SCRIPTED generator (every drawn bit a solver variable, every generator call recorded), axes: one qubit, both orders of two qubits, the same qubit twice: the outcomes have non-zero Born probability (the definite value when Z_q is definite, the same value when an axis is measured again), exactly log2|current supp| calls randint(2) per measurement and no other generator call, post-state = normalised projection of the old state on the returned outcomes (amplitude by amplitude, phase kept)'
    for via, axes_menu in (('_measure', [(0,), (1,)]), ('measure', [(0,), (1,), (0, 1), (1, 0), (0, 0), (1, 1)])):
        for ax_ in axes_menu:
            if tier == 'quick' and via == 'measure' and ax_ in ((0,), (1,), (1, 0), (1, 1)):
                continue  # single axes go through _measure above; (1, 0) / (1, 1) mirror (0, 1) / (0, 0): thorough tier
            obs.append(Obligation(f'chform.measure.{via}.q' + ''.join(map(str, ax_)), lambda cx, ax_=ax_, via=via: chmeasure_body(cx, axes=ax_, via=via), twin=(lambda cx, ax_=ax_, via=via: chmeasure_body(cx, wrong=True, axes=ax_, via=via)), points=ch_points(8, offset=5 + 3 * sum(ax_) + len(ax_), extra=lambda j: {'coin0': j % 2, 'coin1': (j // 2) % 2, 'coin2': (j // 4) % 2}), opts={'weight': 12, 'vc_timeout_ms': 120000}, desc=ME_DESC))

    def chdist_body(cx, wrong=False, q=None):
        n = 2
        q = cx.choose('q', n) if q is None else q
        st0 = sym_ch(cx, n)
        st0.omega = OMEGA0
        a0 = ch_amps(st0)
        supp = ch_support(cx, a0)
        k = int(round(_math.log2(len(supp))))
        ones = 0
        calls_ok = True
        for bits in itertools.product([0, 1], repeat=k):
            st = ch_clone(st0)
            prng = Script(cx, bits=bits)
            ones = ones + st._measure(q, prng)
            calls_ok = calls_ok and draws_ok(prng, k)
        n1 = sum(1 for y in supp if qbit(y, q, n) == 1)
        # Born rule on a stabilizer state: P(1) = |supp_1| / |supp|; over all 2^k scripted bit strings (k = number of draws)
        exp_ones = (2**k) * n1 // len(supp)
        if wrong:
            exp_ones = exp_ones + 1
        cx.check(calls_ok, label='chform._measure: every scripted bit string consumes exactly log2|supp| draws')
        cx.check(ones == exp_ones, label='chform._measure: number of scripted bit strings giving outcome 1 = 2^k P(Z_q = 1) (half of them when both outcomes are possible, all / none when definite)')

    DI_DESC = 'distribution of StabilizerStateChForm._measure(q, prng) over ALL scripted bit strings, from an ARBITRARY valid 2-qubit CH-form state: with k = log2|supp| draws, the real code is run on every one of the 2^k bit strings (on harness-made copies of the same symbolic state) and the number of strings that return 1 must be 2^k |supp_1|/|supp| - exactly half when both outcomes are possible (each superposed position draws its own independent bit), all or none when Z_q is definite'
    for q_ in range(2):
        obs.append(Obligation(f'chform.measure.distribution.q{q_}', lambda cx, q_=q_: chdist_body(cx, q=q_), twin=(lambda cx, q_=q_: chdist_body(cx, wrong=True, q=q_)), points=ch_points(6, offset=17 + q_), opts={'weight': 12, 'vc_timeout_ms': 120000}, desc=DI_DESC))

    # ---- (d4) copies do not share mutable state: StabilizerStateChForm.copy / StabilizerChFormSimulationState.copy / kron
    COPY_OPS = [('H', cirq.H, 1), ('S', cirq.S, 1), ('CX', cirq.CX, 2), ('measure', None, 1), ('X', cirq.X, 1), ('CZ', cirq.CZ, 2), ('project_Z', None, 1)]

    def ch_apply(cx, name, g, ax, qs, tgt, prng):
        """modify the CH-form object `tgt` in place through the real code"""
        if name == 'project_Z':
            tgt.project_Z(ax[0], 1)
        elif name == 'measure':
            tgt.measure([ax[0]], prng)
        else:
            cirq.act_on(g.on(*[qs[a] for a in ax]), cirq.StabilizerChFormSimulationState(qubits=qs, prng=prng, initial_state=tgt))

    def chcopy_body(cx, wrong=False, level='state', deep=True, ops=(0,)):
        n = 2
        name, g, k = COPY_OPS[ops[cx.choose('op', len(ops))]]
        axes = list(itertools.permutations(range(n), k))
        if tier == 'quick' and name in ('H', 'measure'):
            axes = axes[:1]
        ax = axes[cx.choose('axes', len(axes))]
        side = cx.choose('modified', 2)  # 0: the COPY is modified and the original must keep its state; 1: the other way round
        st = sym_ch(cx, n)
        st.omega = OMEGA0
        a0 = ch_amps(st)
        qs = cirq.LineQubit.range(n)
        prng = Script(cx)
        if level == 'state':
            cp = st.copy(deep_copy_buffers=deep)
            tgt, keep = (cp, st) if side == 0 else (st, cp)
            ch_apply(cx, name, g, ax, qs, tgt, prng)
        else:
            sim = cirq.StabilizerChFormSimulationState(qubits=qs, prng=prng, initial_state=st)
            sim2 = sim.copy(deep_copy_buffers=deep)
            tsim, ksim = (sim2, sim) if side == 0 else (sim, sim2)
            cirq.act_on(cirq.measure(qs[ax[0]], key='m') if name == 'measure' else g.on(*[qs[a] for a in ax]), tsim)
            keep = ksim.state
            cx.check(len(ksim.log_of_measurement_results) == 0 and (name != 'measure' or list(tsim.log_of_measurement_results) == ['m']), label='StabilizerChFormSimulationState.copy: measurement records are not shared')
        exp = [(-a if wrong else a) for a in a0]
        cx.close(cvec(cx, ch_amps(keep)), cvec(cx, exp), label=f'chform copy ({level}, deep_copy_buffers={deep}): {name}{list(ax)} on the ' + ('copy leaves the original' if side == 0 else 'original leaves the copy') + ' unchanged (every amplitude)')

    CP_DESC = 'StabilizerStateChForm.copy(deep_copy_buffers) / StabilizerChFormSimulationState.copy(deep_copy_buffers) from an ARBITRARY valid 2-qubit CH-form state, deep_copy_buffers True and False: after one in-place operation (quick: CX for all four kinds of copy, measure of qubit 0 with scripted bits for the deep state copy and the shallow simulation-state copy, H on qubit 0 for the latter; thorough: H, S, CX, measure, X, CZ, project_Z for all; every placement) on the copy, every amplitude of the ORIGINAL is what it was before, and vice versa (operation on the original, amplitudes of the copy); for the simulation state also that measurement records are not shared. 8 explicit concrete validation points per obligation (real numpy buffers)'
    NAMES_ = [o_[0] for o_ in COPY_OPS]
    for level in ('state', 'simstate'):
        for deep in (True, False):
            if tier == 'quick':
                # quick: CX (G, F, M, gamma in place) for all four kinds of copy, measure (update_sum: v, s and, through
                # _CNOT/_CZ/_S_right, the matrices) for the default state copy and for the shallow simulation-state copy
                # that Simulator.run makes between repetitions, H (568 paths per placement) for the latter, both on qubit 0;
                # everything else is in the thorough tier
                groups = [('CX', 'measure') if (level == 'simstate') != deep else ('CX',)] + ([('H',)] if (level == 'simstate' and not deep) else [])
            else:
                groups = [(o_,) for o_ in NAMES_ if not (level == 'simstate' and o_ == 'project_Z')]
            for grp in groups:
                nm = f'chform.copy.{level}.' + ('deep' if deep else 'shallow') + '.' + '_'.join(grp)
                ops_ = tuple(NAMES_.index(o_) for o_ in grp)
                obs.append(Obligation(nm, lambda cx, level=level, deep=deep, ops_=ops_: chcopy_body(cx, level=level, deep=deep, ops=ops_), twin=(lambda cx, level=level, deep=deep, ops_=ops_: chcopy_body(cx, wrong=True, level=level, deep=deep, ops=ops_)), points=ch_points(8, offset=23 + (7 if deep else 0), extra=lambda j, m_=len(ops_): {'choose:op': j % m_, 'choose:axes': (j // 2) % 2, 'choose:modified': (j // 4) % 2, 'coin0': j % 2, 'coin1': (j // 2) % 2}), opts={'weight': 12 if len(grp) > 1 or grp[0] != 'H' else 25, 'vc_timeout_ms': 120000}, desc=CP_DESC))

    def chkron_body(cx, wrong=False, shape=(1, 1)):
        na, nb = shape
        n = na + nb
        a, b = sym_ch(cx, na, 'a'), sym_ch(cx, nb, 'b')
        a.omega, b.omega = 1j, -1 + 0j
        aa, bb = ch_amps(a), ch_amps(b)
        kr = a.kron(b)
        exp = [aa[x >> nb] * bb[x & (2**nb - 1)] for x in range(2**n)]
        if wrong:
            exp[cx.choose('wrong_entry', 2**n)] *= -1
        cx.close(cvec(cx, ch_amps(kr)), cvec(cx, exp), label=f'chform.kron{shape}: amplitude of |x_a x_b> is the product of the amplitudes (phase included)')
        if shape != (1, 1):
            return  # larger shapes (thorough tier): amplitudes only (the aliasing part multiplies the paths by 18)
        # no shared buffers between the product and its factors
        objs = [kr, a, b]
        saved = [cvec(cx, exp), cvec(cx, aa), cvec(cx, bb)]
        which = cx.choose('modified', 3)
        tgt = objs[which]
        ops1 = [('H', cirq.H), ('S', cirq.S)]
        gname, g = ops1[cx.choose('op', len(ops1))]
        axq = cx.choose('axis', tgt.n)
        qs = cirq.LineQubit.range(tgt.n)
        cirq.act_on(g.on(qs[axq]), cirq.StabilizerChFormSimulationState(qubits=qs, prng=Script(cx), initial_state=tgt))
        for j in range(3):
            if j != which:
                cx.close(cvec(cx, ch_amps(objs[j])), saved[j], label=f'chform.kron{shape}: {gname}({axq}) on ' + ('the product' if which == 0 else 'a factor') + ' leaves the other objects unchanged')

    KR_DESC = 'StabilizerStateChForm.kron of two ARBITRARY valid CH-form states (1 + 1 qubits; thorough adds 2 + 1 and 1 + 2), omega = i and -1: every amplitude of the product state is the product of the amplitudes of the factors (big-endian, first factor most significant, phase included), and (1 + 1 qubits) the product shares no buffer with its factors (H / S applied to any one of the three objects leaves the amplitudes of the other two unchanged)'

    def kron_points(shape, count):
        pa, pb = ch_points(count, n=shape[0], offset=3, prefix='a'), ch_points(count, n=shape[1], offset=9, prefix='b')
        return [dict(list(ea.items()) + list(eb.items()) + [('choose:modified', j % 3), ('choose:op', (j // 3) % 2), ('choose:axis', j % 2)]) for j, (ea, eb) in enumerate(zip(pa, pb))]

    for shape in ([(1, 1)] if tier == 'quick' else [(1, 1), (2, 1), (1, 2)]):
        obs.append(Obligation('chform.kron.' + '_'.join(map(str, shape)), lambda cx, shape=shape: chkron_body(cx, shape=shape), twin=(lambda cx, shape=shape: chkron_body(cx, wrong=True, shape=shape)), points=kron_points(shape, 6), opts={'weight': 8, 'vc_timeout_ms': 120000}, desc=KR_DESC))

    # ---- (d5) CliffordSimulator.run (repetitions >= 2) / simulate on circuits with MID-CIRCUIT measurements ---------
    # solver-driven bounded exploration: circuits from a menu, every scripted random bit of every repetition is a solver
    # variable (each feasible bit string is a path); oracle: dense state vector walked in the harness with the matrices
    def run_circuits():
        q0, q1, q2 = cirq.LineQubit.range(3)
        return [
            ('bell_mid', cirq.Circuit(cirq.H(q0), cirq.measure(q0, key='a'), cirq.CNOT(q0, q1), cirq.measure(q1, key='b'), cirq.measure(q0, key='c'))),
            ('deterministic', cirq.Circuit(cirq.X(q0), cirq.CNOT(q0, q1), cirq.measure(q0, q1, key='a'), cirq.CNOT(q1, q0), cirq.S(q1), cirq.H(q0), cirq.H(q0), cirq.measure(q0, key='b'), cirq.CZ(q0, q1), cirq.measure(q1, key='c'))),
            ('ghz_cz_h', cirq.Circuit(cirq.H(q0), cirq.CNOT(q0, q1), cirq.measure(q0, key='a'), cirq.CZ(q0, q1), cirq.H(q1), cirq.measure(q1, key='b'), cirq.S(q1), cirq.measure(q0, key='c'))),
            ('plus_plus', cirq.Circuit(cirq.H(q0), cirq.H(q1), cirq.measure(q0, key='a'), cirq.CZ(q0, q1), cirq.H(q1), cirq.measure(q1, key='b'), cirq.CNOT(q1, q2), cirq.measure(q2, key='c'))),
            ('s_phase', cirq.Circuit(cirq.H(q0), cirq.S(q0), cirq.measure(q1, key='a'), cirq.H(q0), cirq.measure(q0, key='b'), cirq.H(q0), cirq.S(q0), cirq.S(q0), cirq.H(q0), cirq.measure(q0, key='c'))),
        ]

    RUNC = run_circuits()

    def dense_walk(circuit, qubits, recorded):
        """walk the circuit on a dense state vector: gates by their matrices, measurements post-selected on the RECORDED
        bits (Born rule: the recorded bit must have non-zero probability).  Returns (psi, draws, possible); draws = sum
        over single-qubit measurements of log2 |support of the whole state| (unsplit CH form: one bit per superposed position)"""
        from oracles import embed as EM_

        n = len(qubits)
        psi = np.zeros(2**n, dtype=complex)
        psi[0] = 1
        draws = 0
        for op in circuit.all_operations():
            idx = [qubits.index(q_) for q_ in op.qubits]
            if cirq.is_measurement(op):
                bits = recorded[cirq.measurement_key_name(op)]
                if len(bits) != len(idx):
                    return psi, draws, False
                for qi, bv in zip(idx, bits):
                    supp = [y for y in range(2**n) if abs(psi[y]) > 1e-9]
                    draws += int(round(_math.log2(len(supp))))
                    keep = [y for y in supp if qbit(y, qi, n) == int(bv)]
                    if not keep:
                        return psi, draws, False
                    new = np.zeros_like(psi)
                    new[keep] = psi[keep]
                    psi = new / np.sqrt(np.sum(np.abs(new) ** 2))
            else:
                psi = np.asarray(EM_.embed_matrix(np.asarray(cirq.unitary(op), dtype=complex), idx, n), dtype=complex) @ psi
        return psi, draws, True

    def simrun_body(cx, wrong=False):
        cname, circuit = RUNC[cx.choose('circuit', len(RUNC))]
        reps = 2 + cx.choose('reps', 2)
        split = bool(cx.choose('split', 2))
        qubits = sorted(circuit.all_qubits())
        prng = Script(cx)
        res = cirq.CliffordSimulator(seed=prng, split_untangled_states=split).run(circuit, repetitions=reps)
        keys = sorted(res.records)
        shapes_ok = keys == ['a', 'b', 'c'] and all(res.records[k_].shape[:2] == (reps, 1) for k_ in keys)
        cx.check(shapes_ok, label=f'CliffordSimulator.run[{cname}]: one record per key and repetition')
        total, possible = 0, True
        for r_ in range(reps):
            rec = {k_: [int(b_) for b_ in res.records[k_][r_][0]] for k_ in keys}
            if wrong and r_ == reps - 1:
                rec['c'][0] = 1 - rec['c'][0]
            _psi, d_, ok_ = dense_walk(circuit, qubits, rec)
            total += d_
            possible = possible and ok_
        cx.check(possible, label=f'CliffordSimulator.run[{cname}], repetitions={reps}, split={split}: in EVERY repetition the records form a trajectory of non-zero Born probability from |0..0> (deterministic outcomes have their value in every repetition)')
        if not split:
            cx.check(draws_ok(prng, total), label=f'CliffordSimulator.run[{cname}]: generator calls = one randint(2) per superposed position per measurement per repetition')
        if cname == 'deterministic':
            ref = cirq.Simulator(seed=0).run(circuit, repetitions=reps)
            cx.check(all(np.array_equal(ref.records[k_], res.records[k_]) for k_ in keys), label='CliffordSimulator.run[deterministic] records == cirq.Simulator records')

    SR_DESC = 'BOUNDED EXPLORATION (solver-enumerated bit strings): CliffordSimulator(seed=scripted generator, split_untangled_states False/True).run(circuit, repetitions 2 and 3) on 5 circuits with mid-circuit measurements followed by CNOT / CZ / S / H and further measurements (random, outcome-correlated and deterministic ones): every scripted random bit of every repetition is a solver variable; in every repetition the recorded bits must be a trajectory of non-zero Born probability of the dense state-vector walk from |0..0> (so each repetition starts from the un-measured state), generator calls as documented, deterministic circuit equal to cirq.Simulator'
    obs.append(Obligation('chform.measure.simulator_run', simrun_body, twin=lambda cx: simrun_body(cx, wrong=True), kind='bounded-exploration', points=[{'choose:circuit': j % len(RUNC), 'choose:reps': (j // 5) % 2, 'choose:split': (j // 2) % 2, **{f'coin{i}': (j * 7 + i * i + i // 3) % 2 for i in range(12)}} for j in range(10)], opts={'weight': 15, 'max_paths': 20000}, desc=SR_DESC))

    def simsim_body(cx, wrong=False):
        cname, circuit = RUNC[cx.choose('circuit', len(RUNC))]
        split = bool(cx.choose('split', 2))
        qubits = sorted(circuit.all_qubits())
        prng = Script(cx)
        res = cirq.CliffordSimulator(seed=prng, split_untangled_states=split).simulate(circuit)
        rec = {k_: [int(b_) for b_ in v_] for k_, v_ in res.measurements.items()}
        psi, d_, ok_ = dense_walk(circuit, qubits, rec) if sorted(rec) == ['a', 'b', 'c'] else (None, 0, False)
        cx.check(ok_ and (split or draws_ok(prng, d_)), label=f'CliffordSimulator.simulate[{cname}]: measurements form a possible trajectory; generator calls as documented')
        vec = res.final_state.state_vector()
        cx.close(cvec(cx, list(vec)), cvec(cx, list(-psi if wrong else psi)), label=f'CliffordSimulator.simulate[{cname}], split={split}: final state vector = dense walk post-selected on the recorded outcomes (global phase included)')

    SS_DESC = 'BOUNDED EXPLORATION (solver-enumerated bit strings): CliffordSimulator.simulate on the same 5 mid-circuit-measurement circuits with a scripted generator: recorded outcomes possible, final CH-form state vector (final_state.state_vector(), a copy of the simulation state) equals the dense walk post-selected on the recorded outcomes including the global phase'
    obs.append(Obligation('chform.measure.simulator_simulate', simsim_body, twin=lambda cx: simsim_body(cx, wrong=True), kind='bounded-exploration', points=[{'choose:circuit': j % len(RUNC), 'choose:split': (j // 5) % 2, **{f'coin{i}': (j * 3 + i) % 2 for i in range(6)}} for j in range(10)], opts={'weight': 6}, desc=SS_DESC))

    # n = 3 is not enumerable: _rowsum branches on every bit of both rows (Python-level `if` and int()), up to 16
    # outcomes per qubit and row pair, 5 row pairs: more than 10^6 paths (three shards ran > 75 CPU-minutes each without
    # finishing).  The claim is n = 2 in both tiers.
    for n_, qf in [(2, None)]:
        obs.append(
            Obligation(
                f'tableau.measure.n{n_}' + ('' if qf is None else f'.q{qf}'),
                lambda cx, n_=n_, qf=qf: measure_body(cx, n=n_, qfix=qf),
                twin=(lambda cx, n_=n_, qf=qf: measure_body(cx, wrong=True, n=n_, qfix=qf)) if qf in (None, 0) else None,
                opts={'weight': 50, 'max_paths': 400000, 'depth_limit': 2000},
                desc=f'CliffordTableau._measure(q) from an ARBITRARY VALID {n_}-qubit tableau (all bits symbolic, symplectic invariant assumed), both coin outcomes: random case - the pivot row becomes (-1)^outcome Z_q, its destabilizer the old pivot, every other row (stabilizers AND destabilizers) anticommuting with Z_q is multiplied by the pivot with the matrix-derived sign, the rest unchanged; deterministic case - outcome equals the sign of Z_q in the stabilizer group and the tableau is unchanged',
            )
        )
    return obs


LEVEL = (
    'Bounded symbolic execution of the real stabilizer code, SAT/SMT-decided: the tableau bits (xs, zs, rs of an ARBITRARY n-qubit tableau) are '
    'symbolic Booleans in numpy object arrays, so the real update rules run once and cover every tableau (one inductive step, hence circuits of '
    'any length); exponents are symbolic reals partitioned by the code\'s own modulo tests. z3 decides that each resulting row equals U P U^dagger '
    'using a conjugation table computed from cirq.unitary at run time.'
)


def main(tier, seed=0, replay=None, only=None, procs=None):
    bounds = {
        'tableau_qubits': '<=2 (quick) / <=3 (thorough), all axis tuples',
        'exponent_box': [-4, 4],
        'act_on_gate_menu': 'X,Y,Z half-integer powers, H, CZ, CX, SWAP integer powers, S, ISWAP, shifted gates, PhasedXZ/PhasedX Cliffords, CY, YY, XX**0.5, ZZ**0.5, all 24 SingleQubitCliffordGate',
        'measure': 'n = 2 (both tiers; n = 3 is not enumerable, see the comment at the obligation), every qubit, arbitrary valid tableau, both coin outcomes',
        'chform': 'reindex for 2 (quick: one swap and one 3-cycle, output basis states 0, 1, 4, 6) / all 6 permutations and all 8 output basis states (thorough) of 3 qubits from an arbitrary valid CH-form state',
        'chform_gates': '7 (quick) / 16 (thorough) gates (Paulis, H, S, sqrt X/Y and inverses, CZ, CX, SWAP, shifted gates, global phase) on an arbitrary valid 2-qubit CH state, all placements, every amplitude incl. global phase',
        'group': 'all 24 one-qubit Clifford elements and all 576 ordered pairs (solver-enumerated, exhaustive)',
        'chform_measure': 'project_Z(q, z) (every q, z), _measure(q, prng) and measure(axes, prng) (axes: one qubit; two qubits in order and the same qubit twice in quick, all ordered pairs in thorough) from an arbitrary valid 2-qubit CH-form state (all of F, G, M, gamma, v, s symbolic, omega = i): new amplitudes = normalised projection of the old amplitudes (sqrt(|supp|/|supp_z|), phase kept, zero state for the impossible outcome); scripted generator: every drawn bit a solver variable, every call recorded (exactly log2|supp| calls randint(2), nothing else); distribution: the real code is run on ALL 2^k scripted bit strings of the same symbolic state and the number of strings returning 1 is 2^k P(1)',
        'chform_copy_kron': 'copy(deep_copy_buffers True/False) of StabilizerStateChForm and of StabilizerChFormSimulationState from an arbitrary valid 2-qubit state: one in-place operation on the copy (or on the original) leaves every amplitude of the other object unchanged (quick: CX for all four kinds of copy, measure and H on qubit 0 for the copies named in the obligation names; thorough: H, S, CX, measure, X, CZ, project_Z, all placements); kron of two arbitrary valid states (1+1 qubits quick; 2+1, 1+2 thorough): product amplitudes incl. phase, no shared buffers; 6-8 explicit concrete validation points (real numpy buffers) per obligation',
        'clifford_simulator': 'BOUNDED EXPLORATION: CliffordSimulator.run (repetitions 2 and 3, split_untangled_states False/True) and simulate on 5 concrete circuits with mid-circuit measurements followed by CNOT/CZ/S/H, all scripted random bits solver-enumerated: every repetition is a possible Born trajectory of a dense state-vector walk, generator calls as documented, deterministic circuit equal to cirq.Simulator, final state vector of simulate equal to the post-selected dense walk incl. global phase',
        'outside': ['two-qubit Clifford group (11520 elements) laws, CliffordTableau.then/inverse for n >= 2', 'CH-form measurement / copy for n >= 3 qubits (project_Z n = 3: > 3000 paths per qubit, not finished in 15 CPU-minutes per shard)', 'measurement through the simulator from a SYMBOLIC state (simulator obligations start from |0..0> of concrete circuits)', 'statistical quality of numpy RandomState itself (the generator is scripted)', 'n > 3'],
    }
    return run_check(PID, tier, 'checks.C13', SHIMS, LEVEL, BASE_ASSUMPTIONS, bounds, seed=seed, replay=replay, only=only, procs=procs)

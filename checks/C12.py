"""C12: sub-circuits, loops and classical control equal their unrolled form."""
from __future__ import annotations

import itertools

import numpy as np

from checks.common import BASE_ASSUMPTIONS, CORE_SHIM_MODULES, perturb
from oracles import subcircuit_if_model as SI
from oracles import subcircuit_model as SM
from oracles.subcircuit_if_model import IfB
from oracles.subcircuit_model import G, M, P, Cond, Sub, Q
from symx.explore import Obligation
from symx.run import run_check

PID = 'C12'
SHIMS = CORE_SHIM_MODULES + [
    'cirq.protocols.decompose_protocol',
    'cirq.protocols.act_on_protocol',
    'cirq.protocols.has_unitary_protocol',
    'cirq.protocols.resolve_parameters',
    'cirq.ops.control_values',
    'cirq.ops.classically_controlled_operation',
    'cirq.ops.if_op',
    'cirq.ops.measurement_gate',
    'cirq.circuits.circuit',
    'cirq.circuits.circuit_operation',
    'cirq.circuits.moment',
    'cirq.circuits.frozen_circuit',
    'cirq.transformers.transformer_primitives',
    'cirq.qis.states',
    'cirq.study.resolver',
    'cirq.sim.sparse_simulator',
    'cirq.sim.simulator_base',
    'cirq.sim.simulator',
    'cirq.sim.state_vector_simulation_state',
    'cirq.sim.simulation_state',
    'cirq.sim.simulation_state_base',
    'cirq.sim.simulation_product_state',
    'cirq.sim.state_vector',
    'cirq.sim.simulation_utils',
    'cirq.sim.state_vector_simulator',
    'cirq.value.classical_data',
    'cirq.value.condition',
]

BOX = 4.0
TOL_DECOMP = 2.5e-5  # cirq.decompose drops global phases that np.isclose(., 1) (rtol 1e-5)
REPS = (-2, -1, 0, 1, 2, 3)


def worker_setup():
    from symx import linalg_models

    return linalg_models.install()


# ------------------------------------------------------------------------------------------------
# observation helpers (real code)
# ------------------------------------------------------------------------------------------------
def circuit_unitary(circuit, order):
    qs = [Q(i) for i in order]
    return circuit.unitary(qubit_order=qs, qubits_that_should_be_present=qs)


def ops_product(ops, order):
    """ordered product of cirq.unitary of already-flat operations, embedded by the harness"""
    import cirq
    from oracles import embed as EM

    n = len(order)
    N = 2**n
    out = np.eye(N, dtype=complex).reshape((2,) * (2 * n))
    for op in ops:
        u = cirq.unitary(op)
        if len(op.qubits) == 0:
            out = SM._scale(out, u[0, 0])
        else:
            out = EM.apply_matrix_to_axes(u, out, [order.index(q.x) for q in op.qubits])
    return np.asarray(out).reshape(N, N)


def build_circuit(items, to_cirq=SM.to_cirq):
    """top-level circuit of a scenario: every top-level item in its own moment (InsertStrategy.NEW), so that the program
    order of the spec (e.g. 'outer key measured BEFORE the sub-circuit') is the moment order of the real circuit;
    sub-circuit bodies are built with the default EARLIEST strategy"""
    import cirq

    c = cirq.Circuit()
    for x in items:
        c.append(to_cirq(x), strategy=cirq.InsertStrategy.NEW)
    return c


def key_strs(keys):
    return {str(k) for k in keys}


def params3(cx):
    """two symbolic reals and one fixed generic exponent: every symbolic exponent forks the exploration at the special
    values the gate code compares it with (== 1, == 0.5, % 2, ...), so their number per obligation is kept at two"""
    return cx.real('t', -BOX, BOX), cx.real('u', -BOX, BOX), 0.3


# ------------------------------------------------------------------------------------------------
# menus
# ------------------------------------------------------------------------------------------------
def unitary_bodies(p, u, v):
    """measurement-free sub-circuit bodies (<= 3 ops, <= 2 qubits); p may be a number or a P(...)"""
    return [
        ('X', [G('X', [0], p)]),
        ('XZ', [G('X', [0], p), G('Z', [0], u)]),
        ('HgpY', [G('H', [0], p), G('GP', [], u), G('Y', [0], 0.3)]),
        ('XCZ', [G('X', [0], p), G('CZ', [0, 1], u)]),
        ('ISWAPZ', [G('ISWAP', [0, 1], p), G('Z', [1], u)]),
        ('HCXY', [G('H', [1], 0.7), G('CX', [1, 0], p), G('Y', [0], u)]),
    ]


N_BODIES = 6
QMAPS = [None, {0: 1, 1: 0}, {0: 3, 1: 2}]


def _wrong(m, wrong):
    return perturb(m) if wrong else m


# wrapper configurations of a sub-circuit that measures / is classically controlled
WRAPS = [
    ('ids2', dict(reps=2, use_ids=True)),
    ('loop2', dict(reps=2)),
    ('id_x', dict(reps=1, ids=['x'])),
    ('ids_xyz', dict(reps=3, ids=['x', 'y', 'z'])),
    ('ids2_path', dict(reps=2, use_ids=True, path=('p',))),
    ('loop2_path2', dict(reps=2, path=('p', 'q'))),
    ('ids2_kmap', dict(reps=2, use_ids=True, kmap={'a': 'c'})),
    ('ids0', dict(reps=0, use_ids=True)),
    ('plain', dict()),
    ('ids2_qmap', dict(reps=2, use_ids=True, qmap={0: 1, 1: 0})),
]


def inner_bodies(t, u):
    """bodies on qubit 0 (measured, prepared by H) and qubit 1 (target of the controlled gates)"""
    return [
        ('meas_then_ctrl', [G('H', [0]), M('a', [0]), G('X', [1], t, conds=['a'])]),
        ('ctrl_then_meas', [G('X', [1], t, conds=['a']), G('H', [0]), M('a', [0])]),
        ('two_keys', [G('H', [0]), M('b', [0]), G('X', [1], t, conds=['a']), G('Y', [1], u, conds=['b'])]),
        ('if_op', [G('H', [0]), M('a', [0]), G('Y', [1], t, conds=['a'], how='if'), G('X', [1], u, conds=[Cond('eq', 'a', value=1)])]),
    ]


N_INNER = 4


def scenario_single(bi, wi, t, u):
    """top-level body: outer key 'a' measured on qubit 2, the wrapped sub-circuit, a control on 'a' afterwards"""
    name, kw = WRAPS[wi]
    items = inner_bodies(t, u)[bi][1]
    return [G('H', [2]), M('a', [2]), Sub(items, **kw), G('Z', [1], u, conds=['a']), G('H', [1], 0.5)], 3


NESTED = ['inner_binds_middle', 'inner_binds_global', 'two_levels_two_keys', 'outer_reads_inner_path', 'sibling_not_visible', 'sibling_same_path']
NEST_WRAPS_IN = ('ids2', 'loop2', 'ids2_path')
NEST_WRAPS_OUT = ('ids2', 'id_x', 'loop2', 'loop2_path2')


def _wrap(name):
    return dict(dict(WRAPS)[name])


def scenario_nested(ni, wi, wo, t, u, depth3=False):
    Wi, Wo = _wrap(NEST_WRAPS_IN[wi]), _wrap(NEST_WRAPS_OUT[wo])
    kind = NESTED[ni]
    if kind == 'inner_binds_middle':
        mid = [G('H', [0]), M('a', [0]), Sub([G('X', [1], t, conds=['a'])], **Wi)]
    elif kind == 'inner_binds_global':
        mid = [Sub([G('X', [1], t, conds=['a'])], **Wi), G('H', [0]), M('a', [0])]
    elif kind == 'two_levels_two_keys':
        mid = [G('H', [0]), M('b', [0]), Sub([G('X', [1], t, conds=['a']), G('Y', [1], u, conds=['b'])], **Wi)]
    elif kind == 'outer_reads_inner_path':
        # the top level reads keys of the (un-nested) repeated sub-circuit by their full path
        items = [Sub([G('H', [0]), M('a', [0])], reps=2, use_ids=True), G('X', [1], t, conds=['1:a']), G('Y', [1], u, conds=['0:a'])]
        return items, 2
    elif kind == 'sibling_not_visible':  # the second sibling's control must not bind to the first sibling's key of equal path
        mid = [Sub([G('H', [0]), M('a', [0]), G('Z', [1], 0.5)], **Wi), Sub([G('X', [1], t, conds=['a'])], **Wi)]  # Z on qubit 1 orders the siblings
    else:  # sibling_same_path: a parent_path that coincides with the sibling's repetition id must not capture its key
        mid = [Sub([G('H', [0]), M('a', [0]), G('Z', [1], 0.5)], reps=2, use_ids=True), Sub([G('X', [1], t, conds=['a'])], path=('0',), **{k: w for k, w in Wi.items() if k != 'path'})]
    top = [G('H', [2]), M('a', [2]), Sub(mid, **Wo), G('Z', [1], u, conds=['a'])]
    if depth3:
        top = [G('H', [2]), M('a', [2]), Sub([Sub(mid, **Wo)], reps=2, ids=['s', 't']), G('Z', [1], u, conds=['a'])]
    return top, 3


# ------------------------------------------------------------------------------------------------
# conditional blocks (cirq.If / ClassicallyControlledOperation over a whole sub-circuit) under key remapping
# ------------------------------------------------------------------------------------------------
def if_bodies(t, u):
    """bodies of the enclosing sub-circuit: qubit 0 is measured into `a` (prepared by H), qubit 1 is the target of the
    conditional blocks; `b` is a key of the enclosing circuit.  K = `a` is read by the condition of the block AND by
    controls inside its body, so that a renaming has to reach all three places"""
    H0, Ma = G('H', [0]), M('a', [0])
    return [
        ('if_sub_same', [H0, Ma, IfB(['a'], [Sub([G('X', [1], t, conds=['a']), G('Z', [1], u)])], 'if')]),
        ('cco_sub_two_keys', [H0, Ma, IfB(['b'], [Sub([G('X', [1], t, conds=['a']), G('Y', [1], u, conds=['b'])])], 'cco')]),
        ('if_multi', [H0, Ma, IfB(['a'], [G('X', [1], t, conds=['b']), G('Z', [1], u)], 'if')]),
        ('if_tree_if', [H0, Ma, IfB(['b'], [G('X', [1], t, conds=['a'], how='if'), G('Z', [1], u), G('H', [1], 0.5, conds=['b'])], 'tree')]),
        ('if_sub_inner_kmap', [H0, Ma, IfB(['b'], [Sub([G('X', [1], t, conds=['k']), G('Z', [1], u, conds=['b'])], kmap={'k': 'a'}, reps=2)], 'if')]),
        ('cco_sub_inner_path', [H0, Ma, IfB(['a'], [Sub([G('X', [1], t, conds=['a']), G('Y', [1], u, conds=['b'])], path=('s',))], 'cco')]),
        ('cco_if_sub', [H0, Ma, IfB(['b'], [IfB(['a'], [Sub([G('X', [1], t, conds=['a']), G('Z', [1], u)])], 'if')], 'cco')]),
        ('if_if_multi_sympy', [H0, Ma, IfB([Cond('eq', 'a', value=1)], [IfB(['b'], [G('X', [1], t), G('Z', [1], u, conds=[Cond('eq', 'b', value=1)])], 'if')], 'if')]),
        ('if_sub_sub', [H0, Ma, IfB(['a'], [Sub([Sub([G('X', [1], t, conds=['a'])], reps=2, use_ids=True), G('Z', [1], u, conds=['b'])])], 'if')]),
        ('ctrl_before_meas', [IfB(['a'], [Sub([G('X', [1], t, conds=['a']), G('Y', [1], u, conds=['b'])])], 'if'), H0, Ma]),
        ('if_single_ops', [H0, Ma, IfB(['a'], [G('X', [1], t)], 'if'), IfB(['b'], [G('Y', [1], u, conds=['a'])], 'if'), IfB([Cond('mask', 'a', bitmask=1, target=1, equal=True), 'b'], [G('Z', [1], 0.3, conds=['a'], how='if')], 'cco')]),
        ('if_sub_param', [H0, Ma, IfB(['a'], [Sub([G('X', [1], P('th'), conds=['a']), G('Z', [1], u, conds=['b'])])], 'if')]),
    ]


IF_BODY_NAMES = [b[0] for b in if_bodies(0, 0)]

# configurations of the ENCLOSING sub-circuit; the key maps are injective over the names a, b (see bounds: outside)
IF_WRAPS = [
    ('plain', dict()),
    ('ids2', dict(reps=2, use_ids=True)),
    ('loop2_path2', dict(reps=2, path=('p', 'q'))),
    ('kmap_a', dict(kmap={'a': 'c'})),
    ('ids2_kmap_swap', dict(reps=2, use_ids=True, kmap={'a': 'b', 'b': 'a'})),
    ('loop2_kmap_ab_path', dict(reps=2, kmap={'a': 'c', 'b': 'd'}, path=('p',))),
    ('ids2_qmap_kmap_a', dict(reps=2, use_ids=True, qmap={0: 1, 1: 0}, kmap={'a': 'c'})),
    ('kmap_b', dict(kmap={'b': 'd'})),
    # thorough tier only from here
    ('loop2', dict(reps=2)),
    ('id_x_path', dict(ids=['x'], path=('p',))),
    ('ids_xyz_kmap_a', dict(reps=3, ids=['x', 'y', 'z'], kmap={'a': 'c'})),
    ('ids2_path_kmap_b', dict(reps=2, use_ids=True, path=('p',), kmap={'b': 'd'})),
    ('kmap_chain', dict(kmap={'a': 'b', 'b': 'c'})),
    ('ids0', dict(reps=0, use_ids=True)),
]
N_IF_WRAPS_QUICK = 8
IF_WRAPS_QUICK_ALL_ROUTES = ('ids2', 'ids2_kmap_swap', 'loop2_kmap_ab_path')  # quick tier: the other configurations are simulated on the 'state' route only


def scenario_if(bi, wi, t, u):
    """top level: `a` and the name that the enclosing key map gives to `b` are measured on qubit 2 (prepared by H each
    time), then the enclosing sub-circuit, then a control on the outer `a`"""
    W = dict(IF_WRAPS[wi][1])
    kb = W.get('kmap', {}).get('b', 'b')
    if IF_BODY_NAMES[bi] == 'if_sub_param':
        W['params'] = {'th': t}
    items = [G('H', [2]), M('a', [2])]
    if kb != 'a':
        items += [G('H', [2]), M(kb, [2])]
    items += [Sub(if_bodies(t, u)[bi][1], **W), G('Z', [1], u, conds=['a']), G('H', [1], 0.5)]
    return items, 3


# the same enclosing sub-circuit built through other public routes
VIA = ['kmap_method', 'kmap_protocol', 'kmap_two_steps', 'path_method', 'path_protocol', 'path_prefix', 'path_rescoped', 'repeat_ids', 'with_repetition_ids', 'mapped_op', 'mapped_op_shallow']


def build_via(via, items, W):
    """the real operation of Sub(items, **W) obtained by the route `via`, or None when the route does not apply to W"""
    import cirq

    W0 = dict(W)
    if via.startswith('kmap'):
        km = W0.pop('kmap', None)
        if not km:
            return None
        base = SI.to_cirq(Sub(items, **W0))
        if via == 'kmap_method':
            return base.with_measurement_key_mapping(km)
        if via == 'kmap_protocol':
            return cirq.with_measurement_key_mapping(base, km)
        # two steps through fresh intermediate names: composition of key maps
        return cirq.with_measurement_key_mapping(base.with_measurement_key_mapping({k: 'tmp_' + k for k in km}), {'tmp_' + k: v for k, v in km.items()})
    if via.startswith('path'):
        path = W0.pop('path', None)
        if not path:
            return None
        if via == 'path_prefix':  # documented: prefix + existing parent path
            base = SI.to_cirq(Sub(items, path=path[1:], **W0))
            return cirq.with_key_path_prefix(base, path[:1])
        base = SI.to_cirq(Sub(items, **W0))
        if via == 'path_method':
            return base.with_key_path(path)
        if via == 'path_protocol':
            return cirq.with_key_path(base, path)
        return cirq.with_rescoped_keys(base, path)
    if via in ('repeat_ids', 'with_repetition_ids'):
        ids = SM.effective_ids(Sub([], **{k: w for k, w in W0.items() if k in ('reps', 'ids', 'use_ids')}))
        if ids is None:
            return None
        for k in ('reps', 'ids', 'use_ids'):
            W0.pop(k, None)
        if via == 'repeat_ids':
            return SI.to_cirq(Sub(items, **W0)).repeat(len(ids), list(ids))
        return SI.to_cirq(Sub(items, reps=len(ids), use_ids=True, ids=[f'tmp{i}' for i in range(len(ids))], **W0)).with_repetition_ids(list(ids))
    return SI.to_cirq(Sub(items, **W0)).mapped_op(deep=(via == 'mapped_op'))


def is_flat_op(op):
    """no CircuitOperation left in the operation, neither bare nor below classical controls"""
    import cirq

    return not isinstance(op.without_classical_controls().untagged, cirq.CircuitOperation)


def expand_residual(circuit):
    """mapped_circuit(deep=True) / unroll_circuit_op(deep=True) descend into bare CircuitOperations only: a sub-circuit
    below a classical condition stays.  It is expanded here by cirq.decompose, in place (moment order kept), so that
    the result can be compared operation by operation with the flat program"""
    import cirq

    moments = []
    for moment in circuit.moments:
        moments.append(cirq.Moment(o for o in moment.operations if is_flat_op(o)))
        for o in moment.operations:
            if not is_flat_op(o):
                moments.extend(cirq.Circuit(cirq.decompose(o, keep=is_flat_op)).moments)
    return cirq.Circuit.from_moments(*moments)


def spec_bare(it):
    """the spec of the operation below all conditions of a conditional block (several body items: the implicit sub-circuit)"""
    while isinstance(it, IfB):
        it = it.body[0] if len(it.body) == 1 else Sub(it.body)
    return it


def walk_blocks(items):
    for it in items:
        if isinstance(it, IfB):
            yield it
            yield from walk_blocks(it.body)
        elif isinstance(it, Sub):
            yield from walk_blocks(it.items)


# ------------------------------------------------------------------------------------------------
# structural comparison of an unrolled real circuit with the harness flat program
# ------------------------------------------------------------------------------------------------
def _desc_real(op):
    import cirq

    return (tuple(q.x for q in op.qubits), tuple(sorted(key_strs(cirq.measurement_key_objs(op)))), tuple(sorted(key_strs(cirq.control_keys(op)))))


def _desc_flat(f):
    if isinstance(f, SM.FM):
        return (f.qs, (SM.key_str(f.key),), ())
    return (f.qs, (), tuple(sorted({SM.key_str(k) for _, b in f.conds for k in b.values()})))


def compare_structure(cx, circuit, flat, label, wrong=False, tol=1e-7):
    """(1) per qubit, the sequence of operations (qubits, measurement keys, control keys) of the real unrolled circuit
    equals the sequence of the harness flat program; (2) every classically controlled operation comes, in MOMENT
    order, after exactly as many measurements of each of its keys as in the flat program (and shares its moment with
    none); (3) every gate's matrix equals the documented matrix of the flat op"""
    import cirq

    mops = [(mi, o) for mi, moment in enumerate(circuit.moments) for o in moment.operations]
    ops = [o for _, o in mops]
    cx.check(not any(isinstance(o.untagged, cirq.CircuitOperation) for o in ops), f'{label}: fully unrolled')
    qubits = sorted({q for f in flat for q in f.qs} | {q.x for o in ops for q in o.qubits})
    ok = True
    pairs = []
    for q in qubits:
        r = [(mi, o) for mi, o in mops if any(x.x == q for x in o.qubits)]
        f = [(i, x) for i, x in enumerate(flat) if q in x.qs]
        if [_desc_real(o) for _, o in r] != [_desc_flat(x) for _, x in f]:
            ok = False
            break
        pairs += [(o, x, i, mi) for (mi, o), (i, x) in zip(r, f) if x.qs[0] == q and isinstance(x, SM.FG)]
    cx.check(ok, f'{label}: per-qubit operation sequences (qubits, measurement keys, control keys)')
    if not ok:
        return
    # (2) classical dependencies across qubits
    meas_at = [(mi, str(k)) for mi, o in mops for k in cirq.measurement_key_objs(o)]
    dep_ok = True
    for o, x, pos, at in pairs:
        if not x.conds:
            continue
        for _, b in x.conds:
            for k in b.values():
                ks = SM.key_str(k)
                want = sum(1 for y in flat[:pos] if isinstance(y, SM.FM) and SM.key_str(y.key) == ks)
                got = sum(1 for mi, kk in meas_at if kk == ks and mi < at)
                same = sum(1 for mi, kk in meas_at if kk == ks and mi == at)
                if want != got or same:
                    dep_ok = False
    cx.check(dep_ok, f'{label}: every control follows the measurements it reads (moment order)')
    for i, (o, x, _, _) in enumerate(pairs):
        m = x.matrix()
        if wrong and i == len(pairs) - 1:
            m = perturb(m)
        cx.close(cirq.unitary(o.without_classical_controls()), m, tol=tol, label=f'{label}: gate {i}')


def run_real(cx, circuit, order, route, max_draws=64):
    """simulate with scripted measurement outcomes. returns (final state vector or None, records {key: [bits,..]}, all_instances?)"""
    import cirq

    prng = SM.ScriptedPRNG(cx, max_draws)
    qs = [Q(i) for i in order]
    if route == 'state':
        # the product state the simulator itself would build (split_untangled_states=True), but around OUR classical
        # data store so that every recorded instance of every key is observable through the public `records`
        store = cirq.ClassicalDataDictionaryStore()
        parts = {q: cirq.StateVectorSimulationState(qubits=[q], prng=prng, classical_data=store, initial_state=0, dtype=np.complex128) for q in qs}
        parts[None] = cirq.StateVectorSimulationState(qubits=[], prng=prng, classical_data=store, initial_state=0, dtype=np.complex128)
        st = cirq.SimulationProductState(parts, qs, split_untangled_states=True, classical_data=store)
        steps = list(cirq.Simulator(dtype=np.complex128).simulate_moment_steps(circuit, qubit_order=qs, initial_state=st))
        rec = {str(k): [tuple(int(b) for b in inst) for inst in v] for k, v in store.records.items()}
        return steps[-1].state_vector(copy=True), rec, True
    if route == 'split':
        steps = list(cirq.Simulator(dtype=np.complex128, seed=prng).simulate_moment_steps(circuit, qubit_order=qs))
        rec = {k: [tuple(int(b) for b in v)] for k, v in steps[-1].measurements.items()}
        return steps[-1].state_vector(copy=True), rec, False
    res = cirq.Simulator(dtype=np.complex128, seed=prng).run(circuit, repetitions=1)
    rec = {k: [tuple(int(b) for b in inst) for inst in v[0]] for k, v in res.records.items()}
    return None, rec, True


def compare_run(cx, items, nq, route, wrong=False, label='sim', max_draws=64, to_cirq=SM.to_cirq, flatten=SM.flatten, transform=None):
    """wrapped circuit simulated by the real simulator vs the harness flat program run by the reference interpreter
    under the same measurement outcomes (transform: real circuit -> real circuit applied before the simulation)"""
    import cirq

    order = list(range(nq))
    circuit = build_circuit(items, to_cirq)
    if transform is not None:
        circuit = transform(circuit)
    flat = flatten(items)
    missing = SM.static_missing(flat)
    try:
        state, rec, full = run_real(cx, circuit, order, route, max_draws)
    except ValueError as e:
        if 'missing when testing classical control' not in str(e):
            raise
        # documented run-time error: the flat program, too, reads a key that no earlier measurement wrote
        cx.check(missing is not None and missing in str(e) and not wrong, f'{label}: missing-key error only when the unrolled program reads an unmeasured key')
        return circuit, flat
    cx.check(missing is None, f'{label}: unrolled program reads an unmeasured key but the simulation did not fail')
    if not full:
        # only the latest instance per key is observable on this route: keep circuits whose keys are measured once
        keys = [SM.key_str(f.key) for f in SM._walk(flat) if isinstance(f, SM.FM)]
        if any(isinstance(f, SM.FLoop) for f in SM._walk(flat)):
            keys = keys * 2
        if len(keys) != len(set(keys)):
            from symx.ctx import Infeasible

            raise Infeasible()
    psi, records, born = SM.interpret(flat, order, rec)
    cx.check(rec == records, f'{label}: records key by key')
    if state is not None:
        exp = np.asarray(psi, dtype=object).reshape(-1)
        cx.close(state, perturb(exp) if wrong else exp, label=f'{label}: final state')
    elif wrong:
        cx.check(False, f'{label}: twin')
    return circuit, flat


def obligations(tier):
    import cirq
    import sympy

    quick = tier == 'quick'
    obs = []
    wraps = list(range(len(WRAPS)))

    # ==== A. one sub-circuit: unitary of wrapped == mapped == decomposed == unrolled == harness product ====
    for bi in range(N_BODIES):
        bname = unitary_bodies(0, 0, 0)[bi][0]
        heavy = bname in ('HCXY', 'HgpY', 'ISWAPZ')
        reps_menu = REPS if not (quick and heavy) else (-2, 0, 3)
        qmaps = QMAPS if not (quick and heavy) else QMAPS[1:2]
        pmodes = (0, 1, 2) if not (quick and heavy) else (1,)

        def body(cx, wrong=False, bi=bi, reps_menu=reps_menu, qmaps=qmaps, pmodes=pmodes):
            t, u, v = params3(cx)
            r = reps_menu[cx.choose('reps', len(reps_menu))]
            qm = qmaps[cx.choose('qmap', len(qmaps))]
            pmode = pmodes[cx.choose('pmode', len(pmodes))]
            p = t if pmode == 0 else (P('a') if pmode == 1 else P('a', 0.5))
            items = unitary_bodies(p, u, v)[bi][1]
            nq = len(SM.spec_qubits(items))
            if qm is not None:
                qm = {k: w for k, w in qm.items() if k < nq}
            spec = Sub(items, reps=r, qmap=qm, params=None if pmode == 0 else {'a': t})
            op = SM.to_cirq(spec)
            order = list(SM.sub_qubits(spec))
            cx.check(tuple(q.x for q in op.qubits) == tuple(order), 'op.qubits')
            flat = SM.flatten([spec])
            exp = _wrong(SM.flat_unitary(flat, order), wrong)
            cx.check(cirq.has_unitary(op) is True, 'has_unitary')
            cx.check(cirq.parameter_names(op) == set(), 'parameter_names after resolver')
            cx.close(cirq.unitary(op), exp, label='cirq.unitary(op)')
            cx.close(circuit_unitary(cirq.Circuit(op), order), exp, label='Circuit(op).unitary')
            mc = op.mapped_circuit(deep=True)
            cx.close(circuit_unitary(mc, order), exp, label='mapped_circuit(deep).unitary')
            cx.close(ops_product(cirq.decompose_once(op), order), exp, label='decompose_once product')
            cx.close(ops_product(cirq.decompose(op), order), exp, tol=TOL_DECOMP, label='decompose product')
            un = cirq.unroll_circuit_op(cirq.Circuit(op), deep=True, tags_to_check=None)
            cx.check(not any(isinstance(o.untagged, cirq.CircuitOperation) for o in un.all_operations()), 'unroll leaves no CircuitOperation')
            cx.close(circuit_unitary(un, order), exp, label='unroll_circuit_op.unitary')
            # caches queried again after the other routes
            cx.close(cirq.unitary(op), exp, label='cirq.unitary(op) again')

        obs.append(
            Obligation(
                f'unitary.single.{bname}',
                body,
                twin=lambda cx, b=body: b(cx, wrong=True),
                opts={'weight': 8 if heavy else 4},
                points=[{'t': 0.25, 'u': -0.5, 'choose:reps': i % len(reps_menu), 'choose:qmap': i % len(qmaps), 'choose:pmode': (i // 2) % len(pmodes)} for i in range(6)],
                desc=f'CircuitOperation over body {bname} with SYMBOLIC exponents; repetitions in {reps_menu}, {len(qmaps)} qubit maps, exponent literal / Symbol resolved by param_resolver / 0.5*Symbol: '
                'cirq.unitary(op) (incl. the single-qubit fast path), Circuit(op).unitary, mapped_circuit(deep=True), decompose_once, decompose, unroll_circuit_op all equal the harness-unrolled product of documented matrices',
            )
        )

    # ==== A'. the two repaired defects of the single-qubit fast path stay repaired ==========================
    def body_1q_resolver(cx, wrong=False):
        t, u, v = params3(cx)
        r = REPS[cx.choose('reps', len(REPS))]
        spec = Sub([G('X', [0], P('a')), G('Z', [0], P('b', 0.5))], reps=r, params={'a': t, 'b': u})
        op = SM.to_cirq(spec)
        cx.close(cirq.unitary(op), _wrong(SM.flat_unitary(SM.flatten([spec]), [0]), wrong), label='unitary of 1-qubit sub-circuit with param_resolver')

    obs.append(Obligation('unitary1q.param_resolver', body_1q_resolver, twin=lambda cx: body_1q_resolver(cx, wrong=True), points=[{'t': 0.5, 'u': 0.25, 'choose:reps': 3}, {'t': -1.25, 'u': 0.7, 'choose:reps': 0}], desc='cirq.unitary of a ONE-qubit CircuitOperation whose exponents are Symbols bound by param_resolver (fast path CircuitOperation._unitary_; was a TypeError before commit 26a2067)'))

    def body_1q_gp(cx, wrong=False):
        t, u, v = params3(cx)
        r = REPS[cx.choose('reps', len(REPS))]
        k = cx.choose('place', 3)
        items = [G('X', [0], t), G('Y', [0], v)]
        items.insert(k, G('GP', [], u))
        spec = Sub(items, reps=r)
        op = SM.to_cirq(spec)
        cx.close(cirq.unitary(op), _wrong(SM.flat_unitary(SM.flatten([spec]), [0]), wrong), label='unitary of 1-qubit sub-circuit containing a global phase operation')

    obs.append(Obligation('unitary1q.global_phase', body_1q_gp, twin=lambda cx: body_1q_gp(cx, wrong=True), points=[{'t': 0.5, 'u': 0.5, 'choose:reps': 3, 'choose:place': 1}], desc='cirq.unitary of a ONE-qubit CircuitOperation containing a zero-qubit global phase operation (was a ValueError before commit 26a2067)'))

    # ==== B. nesting: depth 2 (quick) / 3 --------------------------------------------------------------------
    ro_menu = (-1, 2) if quick else REPS
    ri_menu = (-2, 0, 1, 3) if quick else REPS
    qo_menu = (None, {0: 1, 1: 0}) if quick else (None, {0: 1, 1: 0}, {0: 2, 1: 0})
    qi_menu = (None, {0: 1, 1: 0})

    def nested_spec(cx, t, u, v, depth):
        # depth 3 (thorough only) keeps the small repetition menus: 2x4x2x2 x (2x2 for the third level) shapes
        rom, rim, qom = (ro_menu, ri_menu, qo_menu) if depth == 2 else ((-1, 2), (-2, 0, 1, 3), qo_menu[:2])
        ro = rom[cx.choose('ro', len(rom))]
        ri = rim[cx.choose('ri', len(rim))]
        qo = qom[cx.choose('qo', len(qom))]
        qi = qi_menu[cx.choose('qi', len(qi_menu))]
        inner = Sub([G('X', [0], P('a')), G('CX', [0, 1], 1.0), G('Z', [1], P('c'))], reps=ri, qmap=qi, params={'a': P('b', 0.5)})
        outer = Sub([G('Z', [0], u), inner, G('CZ', [0, 1], v)], reps=ro, qmap=qo, params={'b': t, 'c': u})
        if depth == 3:
            rt = (-1, 2)[cx.choose('rt', 2)]
            outer.params = {'b': P('d'), 'c': u}
            outer = Sub([outer, G('H', [1], v)], reps=rt, qmap={0: 1, 1: 0} if cx.choose('qt', 2) else None, params={'d': t})
        return outer

    def body_nested(cx, wrong=False, depth=2):
        t, u, v = params3(cx)
        spec = nested_spec(cx, t, u, v, depth)
        op = SM.to_cirq(spec)
        order = list(SM.sub_qubits(spec))
        cx.check(tuple(q.x for q in op.qubits) == tuple(order), 'op.qubits')
        exp = _wrong(SM.flat_unitary(SM.flatten([spec]), order), wrong)
        cx.check(cirq.parameter_names(op) == set(), 'parameter_names after nested resolvers')
        cx.close(cirq.unitary(op), exp, label='cirq.unitary(nested op)')
        cx.close(circuit_unitary(op.mapped_circuit(deep=True), order), exp, label='mapped_circuit(deep=True)')
        cx.close(circuit_unitary(op.mapped_circuit(deep=False), order), exp, label='mapped_circuit(deep=False)')
        cx.close(circuit_unitary(cirq.Circuit(op.mapped_op(deep=True)), order), exp, label='mapped_op(deep=True)')
        cx.close(ops_product(cirq.decompose(op), order), exp, tol=TOL_DECOMP, label='decompose product')
        c0 = cirq.Circuit(op)
        for nm, fn in (('unroll_circuit_op', cirq.unroll_circuit_op), ('greedy_earliest', cirq.unroll_circuit_op_greedy_earliest), ('greedy_frontier', cirq.unroll_circuit_op_greedy_frontier)):
            if depth == 3 and nm == 'greedy_earliest':
                continue  # open finding unroll.greedy_earliest_order reproduces here (H^v follows the nested sub-circuit); it has its own obligation
            un = fn(c0, deep=True, tags_to_check=None)
            cx.check(not any(isinstance(o.untagged, cirq.CircuitOperation) for o in un.all_operations()), f'{nm}: no CircuitOperation left')
            cx.close(circuit_unitary(un, order), exp, label=f'{nm}(deep=True).unitary')
        sh = cirq.unroll_circuit_op(c0, deep=False, tags_to_check=None)
        cx.close(circuit_unitary(sh, order), exp, label='unroll_circuit_op(deep=False).unitary')

    obs.append(
        Obligation(
            'unitary.nested2',
            body_nested,
            twin=lambda cx: body_nested(cx, wrong=True),
            opts={'weight': 12},
            points=[{'t': 0.25, 'u': -0.5, 'choose:ro': i % len(ro_menu), 'choose:ri': i % len(ri_menu), 'choose:qo': i % 2, 'choose:qi': (i // 2) % 2} for i in range(6)],
            desc=f'two nested CircuitOperations: outer repetitions {ro_menu} x inner {ri_menu}, qubit maps at both levels, parameter chain a -> 0.5*b -> t through two resolvers, SYMBOLIC exponents: '
            'unitary, mapped_circuit(deep True/False), mapped_op, decompose, unroll_circuit_op / greedy_earliest / greedy_frontier equal the harness-unrolled product',
        )
    )
    if not quick:
        obs.append(
            Obligation(
                'unitary.nested3',
                lambda cx, wrong=False: body_nested(cx, wrong, depth=3),
                twin=lambda cx: body_nested(cx, True, depth=3),
                opts={'weight': 40, 'max_paths': 100000},
                points=[{'t': 0.25, 'u': -0.5, 'choose:ro': 1, 'choose:ri': 3, 'choose:rt': 1, 'choose:qt': 1}],
                desc='three nested CircuitOperations (depth 3): repetitions (-1,2) x (-2,0,1,3) x (-1,2), qubit maps at all three levels, parameter chain through three resolvers',
            )
        )

    # ==== C. composition laws of the with_* / repeat / replace constructors ------------------------------------
    FMAPS = [{0: 1, 1: 0}, {0: 2}, {0: 3, 1: 2}, {1: 5}]

    def body_compose_qubits(cx, wrong=False):
        t, u, v = params3(cx)
        items = [G('X', [0], t), G('CZ', [0, 1], u), G('Y', [1], v)]
        nf = 3 if quick else len(FMAPS)
        f = FMAPS[cx.choose('f', nf)]
        g = FMAPS[::-1][cx.choose('g', nf)]
        RR = (-2, 3) if quick else (1, -2, 3)
        r = RR[cx.choose('reps', len(RR))]
        how = cx.choose('how', 3)
        base = SM.to_cirq(Sub(items, reps=r))
        fq = {Q(a): Q(b) for a, b in f.items()}
        gq = {Q(a): Q(b) for a, b in g.items()}
        comp = {a: g.get(f.get(a, a), f.get(a, a)) for a in (0, 1)}
        if len(set(comp.values())) < 2:
            # documented ValueError: collision in qubit map composition
            try:
                base.with_qubit_mapping(fq).with_qubit_mapping(gq)
                cx.check(False, 'colliding composition must raise ValueError')
            except ValueError:
                cx.check(not wrong, 'collision rejected')
            return
        if how == 0:
            op = base.with_qubit_mapping(fq).with_qubit_mapping(gq)
        elif how == 1:
            op = base.with_qubit_mapping(lambda q: fq.get(q, q)).with_qubit_mapping(lambda q: gq.get(q, q))
        else:
            op = base.with_qubit_mapping(fq).with_qubits(*[Q(comp[a]) for a in (0, 1)])
        spec = Sub(items, reps=r, qmap={a: b for a, b in comp.items() if a != b})
        order = list(SM.sub_qubits(spec))
        cx.check(tuple(q.x for q in op.qubits) == tuple(order), 'qubits of composed mapping')
        want = {Q(a): Q(b) for a, b in comp.items() if a != b}
        cx.check(dict(op.qubit_map) == want and op.repetitions == r, 'f then g == one mapping with the composition')
        cx.check(dict(base.with_qubit_mapping({Q(a): Q(b) for a, b in comp.items()}).qubit_map) == want, 'equals with_qubit_mapping(composition)')
        exp = _wrong(SM.flat_unitary(SM.flatten([spec]), order), wrong)
        cx.close(cirq.unitary(op), exp, label='unitary of composed mapping')
        tq = op.transform_qubits(lambda q: Q(q.x + 1))
        cx.close(circuit_unitary(cirq.Circuit(tq), [o + 1 for o in order]), exp, label='transform_qubits shifts the op')

    obs.append(Obligation('compose.qubit_maps', body_compose_qubits, twin=lambda cx: body_compose_qubits(cx, wrong=True), opts={'weight': 5}, points=[{'t': 0.3, 'u': 0.7, 'choose:f': 0, 'choose:g': 1, 'choose:reps': 1, 'choose:how': i} for i in range(3)], desc='with_qubit_mapping(f).with_qubit_mapping(g) (dicts, callables, with_qubits) equals ONE mapping with g o f: qubits, ==, unitary with SYMBOLIC exponents; colliding compositions raise ValueError; transform_qubits'))

    def body_compose_repeat(cx, wrong=False):
        t, u, v = params3(cx)
        items = [G('X', [0], t), G('CZ', [0, 1], u), G('Y', [1], v)]
        R0, R1, R2 = ((2, -1), (-2, 0, 3), (-1, 2)) if quick else ((1, 2, -1), (-2, -1, 0, 2, 3), (-1, 1, 2))
        r0 = R0[cx.choose('r0', len(R0))]
        r1 = R1[cx.choose('r1', len(R1))]
        r2 = R2[cx.choose('r2', len(R2))]
        how = cx.choose('how', 2)
        base = SM.to_cirq(Sub(items, reps=r0))
        op = base.repeat(r1).repeat(r2) if how == 0 else (base**r1) ** r2
        spec = Sub(items, reps=r0 * r1 * r2)
        cx.check(op.repetitions == r0 * r1 * r2, 'repetitions multiply')
        exp = _wrong(SM.flat_unitary(SM.flatten([spec]), [0, 1]), wrong)
        cx.close(cirq.unitary(op), exp, label='repeat.repeat unitary')
        inv = cirq.inverse(op)
        cx.close(cirq.unitary(inv), SM.dagger(exp), label='inverse(op) unitary')

    obs.append(Obligation('compose.repeat', body_compose_repeat, twin=lambda cx: body_compose_repeat(cx, wrong=True), opts={'weight': 5}, points=[{'t': 0.3, 'u': 0.7, 'choose:r0': 1, 'choose:r1': 0, 'choose:r2': 1, 'choose:how': i} for i in range(2)], desc='repeat(r1).repeat(r2), (op**r1)**r2, cirq.inverse: unitary equals the harness product with r0*r1*r2 repetitions (SYMBOLIC exponents)'))

    def body_compose_params(cx, wrong=False):
        t, u, v = params3(cx)
        items = [G('X', [0], P('a')), G('CZ', [0, 1], P('b', 0.5)), G('Y', [1], P('c'))]
        how = cx.choose('how', 4)
        base = SM.to_cirq(Sub(items, reps=2))
        if how == 0:  # two steps: a->b', then b'->t ; single-step semantics: b (circuit symbol) untouched by the first
            op = base.with_params({'a': sympy.Symbol('b')}).with_params({'b': t, 'c': v})
            spec = Sub(items, reps=2, params={'a': t, 'b': t, 'c': v})
        elif how == 1:  # a->b and b->a swap is a valid single-step mapping
            op = base.with_params({'a': sympy.Symbol('b'), 'b': sympy.Symbol('a')}).with_params({'a': t, 'b': u, 'c': v})
            spec = Sub(items, reps=2, params={'a': u, 'b': t, 'c': v})
        elif how == 2:  # resolve_parameters protocol on the operation
            op = cirq.resolve_parameters(base, {'a': t, 'b': u, 'c': v})
            spec = Sub(items, reps=2, params={'a': t, 'b': u, 'c': v})
        else:  # constructor resolver, then the remaining symbol through the circuit-level resolver
            half = SM.to_cirq(Sub(items, reps=2, params={'a': t, 'b': u}))
            cx.check(cirq.parameter_names(half) == {'c'}, 'parameter_names lists the unbound symbol only')
            cx.check(cirq.is_parameterized(half) and not cirq.has_unitary(half), 'partially bound op is parameterized')
            op = cirq.resolve_parameters(cirq.Circuit(half), cirq.ParamResolver({'c': v})).operation_at(Q(0), 0)
            spec = Sub(items, reps=2, params={'a': t, 'b': u, 'c': v})
        cx.check(cirq.parameter_names(op) == set(), 'fully resolved')
        exp = _wrong(SM.flat_unitary(SM.flatten([spec]), [0, 1]), wrong)
        cx.close(cirq.unitary(op), exp, label='unitary after composed parameter maps')

    obs.append(Obligation('compose.params', body_compose_params, twin=lambda cx: body_compose_params(cx, wrong=True), opts={'weight': 3}, points=[{'t': 0.3, 'u': 0.7, 'choose:how': i} for i in range(4)], desc='with_params chains (single-step, swap a<->b), cirq.resolve_parameters on the op and on the containing circuit with SYMBOLIC resolver values: unitary equals the harness product under the composed substitution; parameter_names of partially bound ops'))

    def body_symbolic_reps(cx, wrong=False):
        t, u, v = params3(cx)
        items = [G('X', [0], t), G('CZ', [0, 1], u)]
        r = REPS[cx.choose('reps', len(REPS))]
        how = cx.choose('how', 2)
        n = sympy.Symbol('n')
        sym = SM.to_cirq(Sub(items)).repeat(n) if how == 0 else cirq.CircuitOperation(cirq.FrozenCircuit(*[SM.to_cirq(x) for x in items]), repetitions=n)
        cx.check(cirq.parameter_names(sym) == {'n'} and cirq.is_parameterized(sym), 'parameter_names of symbolic repetitions')
        res = cirq.resolve_parameters(sym, {'n': r})
        cx.check(res.repetitions == r and not cirq.is_parameterized(res), 'repetitions resolved')
        cx.close(cirq.unitary(res), _wrong(SM.flat_unitary(SM.flatten([Sub(items, reps=r)]), [0, 1]), wrong), label='resolved symbolic repetitions')

    obs.append(Obligation('compose.symbolic_repetitions', body_symbolic_reps, twin=lambda cx: body_symbolic_reps(cx, wrong=True), opts={'weight': 3}, points=[{'t': 0.3, 'u': 0.7, 'choose:reps': i, 'choose:how': i % 2} for i in range(6)], desc='repetitions given as a sympy Symbol (constructor or repeat) and resolved to every r in -2..3: unitary equals the harness product with r repetitions (SYMBOLIC exponents)'))

    # key maps / key paths compose; observed through structure AND simulation of a circuit that uses the result
    KMAPS = [{'a': 'c'}, {'b': 'd'}, {'a': 'b', 'b': 'a'}, {'c': 'e'}, {'a': 'c', 'c': 'a'}, {'a': 'b'}]

    def base_keys_sub(t, u, **kw):
        # measures a (inner), reads a (inner) and b (external)
        return Sub([G('H', [0]), M('a', [0]), G('X', [1], t, conds=['a']), G('Y', [1], u, conds=['b'])], **kw)

    def body_compose_keys(cx, wrong=False):
        t, u, v = params3(cx)
        k1 = KMAPS[cx.choose('k1', len(KMAPS))]
        k2 = KMAPS[cx.choose('k2', len(KMAPS))]
        wname = ('ids2', 'loop2_path2', 'plain')[cx.choose('wrap', 3)]
        how = cx.choose('how', 2)
        base = SM.to_cirq(base_keys_sub(t, u, **_wrap(wname)))
        comp = {n: k2.get(k1.get(n, n), k1.get(n, n)) for n in ('a', 'b')}
        try:
            if how == 0:
                op = base.with_measurement_key_mapping(k1).with_measurement_key_mapping(k2)
            else:
                op = cirq.with_measurement_key_mapping(cirq.with_measurement_key_mapping(base, k1), k2)
        except ValueError:
            # documented: "ValueError: The new operation has a different number of measurement keys"
            cx.check(len(set(comp.values())) < 2 or len({k1.get(n, n) for n in ('a', 'b')}) < 2, 'collision error only for colliding maps')
            cx.check(not wrong, 'collision')
            return
        cx.check(len(set(comp.values())) == 2, 'colliding key map composition must raise ValueError')
        spec = base_keys_sub(t, u, kmap={n: w for n, w in comp.items() if n != w}, **_wrap(wname))
        cx.check(dict(op.measurement_key_map) == spec.kmap, 'k1 then k2 == one mapping with the composition')
        items = [G('H', [2]), M(comp['b'], [2]), spec, G('H', [1], 0.5)]
        circuit = cirq.Circuit()
        for o in (SM.to_cirq(items[0]), SM.to_cirq(items[1]), op, SM.to_cirq(items[3])):
            circuit.append(o, strategy=cirq.InsertStrategy.NEW)
        flat = SM.flatten(items)
        cx.check(key_strs(cirq.measurement_key_objs(op)) == SM.flat_measurement_keys(SM.flatten([spec])), 'measurement keys after composed key maps')
        cx.check(key_strs(cirq.control_keys(op)) == SM.flat_external_controls(SM.flatten([spec])), 'control keys after composed key maps')
        compare_structure(cx, cirq.unroll_circuit_op(circuit, deep=True, tags_to_check=None), flat, 'composed key maps', wrong)

    obs.append(Obligation('compose.key_maps', body_compose_keys, twin=lambda cx: body_compose_keys(cx, wrong=True), opts={'weight': 5}, points=[{'t': 0.3, 'u': 0.7, 'choose:k1': i, 'choose:k2': (i + 1) % 6, 'choose:wrap': i % 3, 'choose:how': i % 2} for i in range(6)], desc='with_measurement_key_mapping(k1) then (k2) (method and protocol) on a sub-circuit that measures a, reads a and an external b, under 3 wrappers x 6x6 key maps: equals ONE mapping with the name-level composition (map, measurement keys, external control keys, unrolled structure with SYMBOLIC gate matrices); colliding compositions raise ValueError'))

    PATH_OPS = ['prefix_p', 'prefix_p_then_q', 'with_key_path_z', 'method_with_key_path', 'rescoped_p', 'replace_parent_path', 'with_repetition_ids', 'repeat_with_ids', 'mapped_op']

    def body_compose_paths(cx, wrong=False):
        t, u, v = params3(cx)
        wname = ('ids2', 'loop2_path2', 'plain', 'ids2_path')[cx.choose('wrap', 4)]
        kind = PATH_OPS[cx.choose('op', len(PATH_OPS))]
        W = _wrap(wname)
        base = SM.to_cirq(base_keys_sub(t, u, **W))
        W2 = dict(W)
        p0 = tuple(W.get('path', ()))
        if kind == 'prefix_p':
            op = cirq.with_key_path_prefix(base, ('p',))
            W2['path'] = ('p',) + p0
        elif kind == 'prefix_p_then_q':
            op = cirq.with_key_path_prefix(cirq.with_key_path_prefix(base, ('p',)), ('q',))
            W2['path'] = ('q', 'p') + p0
        elif kind == 'with_key_path_z':
            op = cirq.with_key_path(base, ('z',))
            W2['path'] = ('z',)
        elif kind == 'method_with_key_path':
            op = base.with_key_path(('z', 'y'))
            W2['path'] = ('z', 'y')
        elif kind == 'rescoped_p':
            op = cirq.with_rescoped_keys(base, ('p',))
            W2['path'] = ('p',) + p0
        elif kind == 'replace_parent_path':
            op = base.replace(parent_path=('r', 's'))
            W2['path'] = ('r', 's')
        elif kind == 'with_repetition_ids':
            n = abs(W.get('reps', 1))
            op = base.with_repetition_ids([f'i{k}' for k in range(n)])
            W2['ids'] = [f'i{k}' for k in range(n)]
            W2['use_ids'] = True
        elif kind == 'repeat_with_ids':
            # documented: resulting ids are the cartesian product of the new ids with the existing ones
            old = SM.effective_ids(Sub([], **W))
            if old is None and abs(W.get('reps', 1)) != 1:
                # ids are per total repetition: a loop of 2 WITHOUT ids repeated under 2 new ids has no representation
                # (4 repetitions, 2 ids); the constructor's documented length check rejects it
                try:
                    base.repeat(2, ['u', 'w'])
                    cx.check(False, 'repeat(2, ids) of an id-less loop must raise ValueError')
                except ValueError:
                    cx.check(not wrong, 'rejected')
                return
            op = base.repeat(2, ['u', 'w'])
            W2['reps'] = 2 * W.get('reps', 1)
            W2['ids'] = [f'{a}-{b}' for a in ('u', 'w') for b in old] if old else ['u', 'w']
            W2['use_ids'] = True
        else:
            op = base.mapped_op(deep=True)
        spec = base_keys_sub(t, u, **W2)
        items = [G('H', [2]), M('b', [2]), spec, G('H', [1], 0.5)]
        circuit = cirq.Circuit()
        for o in (SM.to_cirq(items[0]), SM.to_cirq(items[1]), op, SM.to_cirq(items[3])):
            circuit.append(o, strategy=cirq.InsertStrategy.NEW)
        flat = SM.flatten(items)
        if kind != 'mapped_op':
            cx.check(tuple(op.parent_path) == tuple(W2.get('path', ())), 'parent_path')
        cx.check(key_strs(cirq.measurement_key_objs(op)) == SM.flat_measurement_keys(SM.flatten([spec])), f'{kind}: measurement keys')
        cx.check(key_strs(cirq.control_keys(op)) == SM.flat_external_controls(SM.flatten([spec])), f'{kind}: control keys')
        compare_structure(cx, cirq.unroll_circuit_op(circuit, deep=True, tags_to_check=None), flat, kind, wrong)

    obs.append(Obligation('compose.key_paths', body_compose_paths, twin=lambda cx: body_compose_paths(cx, wrong=True), opts={'weight': 5}, points=[{'t': 0.3, 'u': 0.7, 'choose:wrap': i % 4, 'choose:op': i} for i in range(9)], desc='with_key_path_prefix (once, twice), with_key_path (protocol, method), with_rescoped_keys, replace(parent_path), with_repetition_ids, repeat(2, ids) (cartesian id join), mapped_op on 4 wrappers: keys, external controls and unrolled structure equal the harness spec with the path / ids composed by hand'))

    # ==== D. key structure: wrapped vs harness-unrolled (keys, controls, scoping) ------------------------------
    def struct_checks(cx, items, nq, wrong=False, label='', skip_unroll=False):
        circuit = build_circuit(items)
        flat = SM.flatten(items)
        top = cirq.CircuitOperation(circuit.freeze())
        # key protocols of the wrapped forms, queried before and after unrolling (instance caches)
        for rnd in (0, 1):
            cx.check(key_strs(cirq.measurement_key_objs(circuit)) == SM.flat_measurement_keys(flat), f'{label}: measurement_key_objs(circuit) [{rnd}]')
            cx.check(cirq.measurement_key_names(top) == SM.flat_measurement_keys(flat), f'{label}: measurement_key_names(op) [{rnd}]')
            cx.check(key_strs(cirq.control_keys(top)) == SM.flat_external_controls(flat), f'{label}: control_keys(op) [{rnd}]')
            if rnd == 0:
                compare_structure(cx, top.mapped_circuit(deep=True), flat, f'{label}: mapped_circuit(deep)', wrong)
                compare_structure(cx, cirq.Circuit(cirq.decompose(top, keep=lambda o: not isinstance(o.untagged, cirq.CircuitOperation))), flat, f'{label}: decompose')
                if not skip_unroll:
                    compare_structure(cx, cirq.unroll_circuit_op(circuit, deep=True, tags_to_check=None), flat, f'{label}: unroll_circuit_op')
        # every sub-circuit operation on its own: keys / controls / qubits vs its own flat program
        for it in items:
            if isinstance(it, Sub):
                op = SM.to_cirq(it)
                f1 = SM.flatten([it])
                cx.check(key_strs(cirq.measurement_key_objs(op)) == SM.flat_measurement_keys(f1), f'{label}: measurement_key_objs(sub op)')
                cx.check(tuple(q.x for q in op.qubits) == SM.sub_qubits(it), f'{label}: qubits(sub op)')
                if it.reps != 0:  # control_keys / is_measurement of a 0-repetition op: obligation keys.zero_repetitions_protocols
                    cx.check(key_strs(cirq.control_keys(op)) == SM.flat_external_controls(f1), f'{label}: control_keys(sub op)')
                    cx.check(cirq.is_measurement(op) == bool(SM.flat_measurement_keys(f1)), f'{label}: is_measurement(sub op)')

    for bi in range(N_INNER):
        bname = inner_bodies(0, 0)[bi][0]

        def body(cx, wrong=False, bi=bi):
            t, u, v = params3(cx)
            wi = wraps[cx.choose('wrap', len(wraps))]
            items, nq = scenario_single(bi, wi, t, u)
            struct_checks(cx, items, nq, wrong, label=WRAPS[wi][0])

        obs.append(Obligation(f'keys.single.{bname}', body, twin=lambda cx, b=body: b(cx, wrong=True), opts={'weight': 4}, points=[{'t': 0.3, 'u': 0.7, 'choose:wrap': i} for i in range(len(wraps))], desc=f'top-level circuit [measure a; sub-circuit {bname} under {len(wraps)} wrapper configurations (repetitions, repetition ids, parent_path, key map, qubit map); control on a]: measurement keys, external control keys, qubits and the per-qubit operation sequence (qubits, keys, control keys, SYMBOLIC gate matrices) of mapped_circuit(deep) / decompose / unroll_circuit_op* equal the harness-unrolled program'))

    def body_keys_nested(cx, wrong=False, depth3=False):
        t, u, v = params3(cx)
        ni = cx.choose('scenario', len(NESTED))
        wi = cx.choose('wi', len(NEST_WRAPS_IN))
        wo = cx.choose('wo', len(NEST_WRAPS_OUT))
        items, nq = scenario_nested(ni, wi, wo, t, u, depth3)
        # depth 3 + an id-less outer loop whose body reads `a` before measuring it: unroll_circuit_op(deep=True) re-binds the
        # control of the 2nd iteration (finding unroll.deep_loop_rebinding, own obligation); the other routes are still compared
        skip = depth3 and NESTED[ni] == 'inner_binds_global' and NEST_WRAPS_OUT[wo] in ('loop2', 'loop2_path2')
        struct_checks(cx, items, nq, wrong, label=f'{NESTED[ni]}/{NEST_WRAPS_IN[wi]}/{NEST_WRAPS_OUT[wo]}', skip_unroll=skip)

    obs.append(Obligation('keys.nested2', body_keys_nested, twin=lambda cx: body_keys_nested(cx, wrong=True), opts={'weight': 10}, points=[{'t': 0.3, 'u': 0.7, 'choose:scenario': i % 6, 'choose:wi': i % 3, 'choose:wo': i % 4} for i in range(8)], desc=f'nested sub-circuits ({len(NESTED)} scoping scenarios x {len(NEST_WRAPS_IN)} inner x {len(NEST_WRAPS_OUT)} outer wrapper configurations): every classical control refers to the measurement it is scoped to (inner key shadows outer, control before measurement binds outwards, sibling keys invisible, outer control by full key path)'))
    if not quick:
        obs.append(Obligation('keys.nested3', lambda cx, wrong=False: body_keys_nested(cx, wrong, True), twin=lambda cx: body_keys_nested(cx, True, True), opts={'weight': 15}, points=[{'t': 0.3, 'u': 0.7, 'choose:scenario': 0, 'choose:wi': 0, 'choose:wo': 0}], desc='the nested scenarios wrapped once more (depth 3) in a sub-circuit with custom repetition ids'))

    # ==== E. simulation: wrapped circuit vs reference interpreter on the harness-unrolled program -----------------
    for bi in range(N_INNER):
        bname = inner_bodies(0, 0)[bi][0]

        def body(cx, wrong=False, bi=bi):
            t, u, v = params3(cx)
            wi = wraps[cx.choose('wrap', len(wraps))]
            routes = ('state', 'split', 'run')
            route = routes[cx.choose('route', len(routes))]
            items, nq = scenario_single(bi, wi, t, u)
            compare_run(cx, items, nq, route, wrong, label=f'{WRAPS[wi][0]}/{route}')

        obs.append(Obligation(f'sim.single.{bname}', body, twin=lambda cx, b=body: b(cx, wrong=True), opts={'weight': 9, 'max_paths': 100000}, points=[{'t': 0.3, 'u': 0.7, 'choose:wrap': i, 'choose:draw0': i % 2, 'choose:draw1': 1} for i in range(len(wraps))], desc=f'cirq.Simulator on [H, measure a; sub-circuit {bname} under every wrapper configuration; Z^u controlled by a]: every measurement outcome is an explorer-chosen draw (scripted PRNG), controlled gates carry SYMBOLIC exponents; classical records key by key (all instances) and the final state vector equal the reference interpreter run on the harness-unrolled flat program'))

    def body_sim_nested(cx, wrong=False, depth3=False):
        t, u, v = params3(cx)
        ni = cx.choose('scenario', len(NESTED))
        wi = cx.choose('wi', len(NEST_WRAPS_IN))
        wo = cx.choose('wo', len(NEST_WRAPS_OUT))
        items, nq = scenario_nested(ni, wi, wo, t, u, depth3)
        compare_run(cx, items, nq, 'state', wrong, label=f'{NESTED[ni]}/{NEST_WRAPS_IN[wi]}/{NEST_WRAPS_OUT[wo]}')

    obs.append(Obligation('sim.nested2', body_sim_nested, twin=lambda cx: body_sim_nested(cx, wrong=True), opts={'weight': 20, 'max_paths': 100000}, points=[{'t': 0.3, 'u': 0.7, 'choose:scenario': i % 6, 'choose:wi': i % 3, 'choose:wo': i % 4, 'choose:draw0': 1, 'choose:draw1': i % 2} for i in range(8)], desc='simulation of the nested scoping scenarios: records and SYMBOLIC final state equal the reference interpreter on the harness-unrolled program for every outcome sequence'))
    if not quick:
        obs.append(Obligation('sim.nested3', lambda cx, wrong=False: body_sim_nested(cx, wrong, True), twin=lambda cx: body_sim_nested(cx, True, True), opts={'weight': 40, 'max_paths': 200000}, points=[], desc='depth-3 nested scoping scenarios simulated'))
    # ==== F. repeat_until loops ---------------------------------------------------------------------------------
    UNTIL = ['plain', 'kmap', 'path', 'inside_ids2', 'sympy_eq', 'with_outer_control', 'inside_id_x_path']

    def until_scenario(k, t, u):
        kind = UNTIL[k]
        body = [G('H', [0]), M('m', [0]), G('X', [1], t)]
        if kind == 'plain':
            return [Sub(body, until=Cond('key', 'm')), G('Z', [1], u, conds=['m'])], 2
        if kind == 'kmap':
            return [Sub(body, until=Cond('key', 'm'), kmap={'m': 'n'}), G('Z', [1], u, conds=['n'])], 2
        if kind == 'path':
            return [Sub(body, until=Cond('key', 'm'), path=('p',)), G('Z', [1], u, conds=['p:m'])], 2
        if kind == 'inside_ids2':
            return [Sub([Sub(body, until=Cond('key', 'm'))], reps=2, use_ids=True), G('Z', [1], u, conds=['1:m'])], 2
        if kind == 'sympy_eq':
            return [Sub(body, until=Cond('eq', 'm', value=1))], 2
        if kind == 'with_outer_control':
            # the loop body reads an outer key of the SAME name before measuring it again
            return [G('H', [2]), M('m', [2]), Sub([G('Y', [1], u, conds=['m'])] + body, until=Cond('key', 'm'), path=('p',))], 3
        return [Sub([Sub(body, until=Cond('key', 'm'), path=('p',))], ids=['x'])], 2

    def body_until(cx, wrong=False):
        t, u, v = params3(cx)
        k = cx.choose('scenario', len(UNTIL))
        route = ('state', 'run')[cx.choose('route', 2)]
        items, nq = until_scenario(k, t, u)
        loop = [it for it in items if isinstance(it, Sub)][0]
        op = SM.to_cirq(loop)
        f1 = SM.flatten([loop])
        cx.check(key_strs(cirq.measurement_key_objs(op)) == SM.flat_measurement_keys(f1), 'measurement keys of the loop op')
        cx.check(key_strs(cirq.control_keys(op)) == SM.flat_external_controls(f1), 'control keys of the loop op')
        cx.check(not cirq.has_unitary(op), 'loop has no unitary')
        # at most 3 iterations per loop are explored (longer all-zero outcome sequences are cut: unwinding bound)
        compare_run(cx, items, nq, route, wrong, label=f'until/{UNTIL[k]}/{route}', max_draws=(3 if 'inside_ids2' not in UNTIL[k] else 4) + (1 if nq == 3 else 0))

    obs.append(Obligation('until.loops', body_until, twin=lambda cx: body_until(cx, wrong=True), opts={'weight': 8}, points=[{'t': 0.3, 'u': 0.7, 'choose:scenario': i, 'choose:route': 0, 'choose:draw0': 1, 'choose:draw1': 1, 'choose:draw2': 1} for i in range(7)], desc='repeat_until loops [H, measure m, X^t] (KeyCondition / SympyCondition; key map, parent path, nested in repetition ids, body reading an outer key of the same name): the loop runs until the scoped key is non-zero, at least once; records (every iteration) and SYMBOLIC final state equal the reference interpreter; every outcome sequence of <= 3 iterations'))

    # ==== G. defects found by this check: one obligation each ----------------------------------------------------------
    def body_zero_reps(cx, wrong=False):
        t, u, v = params3(cx)
        how = cx.choose('how', 3)
        inner = Sub([G('H', [0]), M('b', [0])], reps=0)
        op = SM.to_cirq(inner)
        if how == 0:
            cx.check(key_strs(cirq.measurement_key_objs(op)) == (set() if not wrong else {'b'}), 'a sub-circuit repeated 0 times measures nothing')
        else:
            W = dict(ids=['r']) if how == 1 else dict(reps=2, use_ids=True)
            items = [G('X', [0]), M('b', [0]), Sub([inner, G('X', [1], t, conds=['b'])], **W)]
            compare_run(cx, items, 2, 'state', wrong, label='phantom key of a 0-repetition sub-circuit must not shadow the outer key')

    obs.append(Obligation('keys.zero_repetitions', body_zero_reps, twin=lambda cx: body_zero_reps(cx, wrong=True), points=[{'t': 0.3, 'u': 0.7, 'choose:how': i} for i in range(3)], desc='CircuitOperation(repetitions=0) without repetition ids: reports no measurement keys, and does not shadow an outer key for a following control inside an enclosing scoped sub-circuit'))

    def body_zero_reps_protocols(cx, wrong=False):
        t, u, v = params3(cx)
        use = (None, True)[cx.choose('use_ids', 2)]
        op = SM.to_cirq(Sub([G('H', [0]), M('b', [0]), G('X', [1], t, conds=['a'])], reps=0, use_ids=use))
        cx.check(key_strs(cirq.control_keys(op)) == (set() if not wrong else {'a'}), 'a sub-circuit repeated 0 times reads no key')
        cx.check(not cirq.is_measurement(op), 'is_measurement of a sub-circuit repeated 0 times')

    obs.append(Obligation('keys.zero_repetitions_protocols', body_zero_reps_protocols, twin=lambda cx: body_zero_reps_protocols(cx, wrong=True), points=[], desc='CircuitOperation(repetitions=0): control_keys is empty and is_measurement is False, as for its (empty) unrolled form'))

    def body_key_index(cx, wrong=False):
        t, u, v = params3(cx)
        wi = cx.choose('wrap', len(WRAPS))
        idx = (0, 1, -2)[cx.choose('index', 3)]
        body = [G('H', [0]), M('a', [0]), G('H', [0]), M('a', [0]), G('X', [1], t, conds=[Cond('keyidx', 'a', index=idx)])]
        items = [Sub(body, **_wrap(WRAPS[wi][0]))]
        compare_run(cx, items, 2, 'state', wrong, label=f'KeyCondition index {idx} inside {WRAPS[wi][0]}')

    obs.append(Obligation('control.key_index', body_key_index, twin=lambda cx: body_key_index(cx, wrong=True), opts={'weight': 3}, points=[{'t': 0.3, 'u': 0.7, 'choose:wrap': 8, 'choose:index': 0, 'choose:draw0': 1, 'choose:draw1': 0}], desc='KeyCondition(key, index=i) (i-th instance of a repeatedly measured key) inside a sub-circuit keeps its index through key rescoping / mapping: final SYMBOLIC state equals the reference interpreter'))

    def body_bitmask(cx, wrong=False):
        t, u, v = params3(cx)
        wi = cx.choose('wrap', len(WRAPS))
        mk = [dict(bitmask=1, target=1, equal=True), dict(bitmask=2), dict(target=3), dict(bitmask=3, target=1, equal=True)][cx.choose('mask', 4)]
        body = [G('H', [0]), G('H', [1]), M('a', [0, 1]), G('X', [2], t, conds=[Cond('mask', 'a', **mk)])]
        qm = _wrap(WRAPS[wi][0])
        items = [Sub(body, **qm)]
        compare_run(cx, items, 3, 'state', wrong, label=f'BitMaskKeyCondition {mk} inside {WRAPS[wi][0]}')

    obs.append(Obligation('control.bitmask', body_bitmask, twin=lambda cx: body_bitmask(cx, wrong=True), opts={'weight': 6}, points=[{'t': 0.3, 'u': 0.7, 'choose:wrap': 8, 'choose:mask': 0, 'choose:draw0': 2}], desc='BitMaskKeyCondition (bitmask / target_value / equal_target) on a two-qubit key inside a sub-circuit keeps its fields through key rescoping / mapping'))

    def body_greedy_earliest(cx, wrong=False):
        t, u, v = params3(cx)
        k = cx.choose('shape', 4)
        if k == 3:
            # same defect seen through classical control: the controlled Z^u that FOLLOWS the sub-circuit must stay after it
            body = [G('H', [0]), M('a', [0]), G('X', [1], t, conds=['a'])]
            items = [G('H', [2]), M('a', [2]), Sub(body, reps=2, use_ids=True), G('Z', [1], u, conds=['a'])]
            circuit = build_circuit(items)
            compare_structure(cx, cirq.unroll_circuit_op_greedy_earliest(circuit, deep=True, tags_to_check=None), SM.flatten(items), 'greedy_earliest', wrong)
            return
        sub = [Sub([G('X', [0], t), G('Y', [0], 0.3), G('CX', [0, 1])]), Sub([G('X', [0], t), G('Y', [0], 0.3), G('CX', [0, 1])], reps=2), Sub([G('CZ', [0, 1], t), G('X', [0], 0.3), G('ISWAP', [0, 1], 0.5)], reps=-1)][k]
        items = [sub, G('H', [1], u)]
        circuit = build_circuit(items)
        exp = _wrong(SM.flat_unitary(SM.flatten(items), [0, 1]), wrong)
        cx.close(circuit_unitary(circuit, [0, 1]), exp, label='wrapped circuit')
        cx.close(circuit_unitary(cirq.unroll_circuit_op_greedy_earliest(circuit, tags_to_check=None), [0, 1]), exp, label='unroll_circuit_op_greedy_earliest keeps the unitary when operations follow the sub-circuit')

    obs.append(Obligation('unroll.greedy_earliest_order', body_greedy_earliest, twin=lambda cx: body_greedy_earliest(cx, wrong=True), opts={'weight': 3}, points=[], desc='unroll_circuit_op_greedy_earliest of [multi-moment sub-circuit; H^u on a qubit the sub-circuit touches last]: unitary unchanged (SYMBOLIC exponents)'))

    def body_greedy_frontier(cx, wrong=False):
        t, u, v = params3(cx)
        k = cx.choose('shape', 2)
        body = [G('H', [0]), M('a', [0]), G('X', [1], t, conds=['a'])]
        items = [Sub(body)] if k == 0 else [G('H', [2]), M('a', [2]), Sub(body, reps=2, use_ids=True), G('Z', [1], u, conds=['a'])]
        circuit = build_circuit(items)
        compare_structure(cx, cirq.unroll_circuit_op_greedy_frontier(circuit, deep=True, tags_to_check=None), SM.flatten(items), 'greedy_frontier', wrong)

    obs.append(Obligation('unroll.greedy_frontier_keys', body_greedy_frontier, twin=lambda cx: body_greedy_frontier(cx, wrong=True), points=[], desc='unroll_circuit_op_greedy_frontier keeps every classically controlled operation after the measurement it reads'))


    def body_deep_rebinding(cx, wrong=False):
        t, u, v = params3(cx)
        k = cx.choose('shape', 2)
        loop = Sub([G('X', [1], t, conds=['a']), G('H', [0]), M('a', [0])], reps=2)  # loop WITHOUT ids: reads a, then measures a
        outer = Sub([loop], ids=['s']) if k == 0 else Sub([loop], reps=2, use_ids=True, path=('p',))
        items = [G('H', [2]), M('a', [2]), outer]
        circuit = build_circuit(items)
        flat = SM.flatten(items)
        compare_structure(cx, cirq.CircuitOperation(circuit.freeze()).mapped_circuit(deep=True), flat, 'mapped_circuit(deep)')
        compare_structure(cx, cirq.unroll_circuit_op(circuit, deep=True, tags_to_check=None), flat, 'unroll_circuit_op(deep=True)', wrong)

    obs.append(Obligation('unroll.deep_loop_rebinding', body_deep_rebinding, twin=lambda cx: body_deep_rebinding(cx, wrong=True), points=[], desc='unroll_circuit_op(deep=True) of a scoped sub-circuit containing an id-less loop that reads a key before measuring it: every iteration keeps the binding of the loop body (as mapped_circuit(deep=True) and the simulator do)'))

    # ==== H. conditional blocks (cirq.If / classical control over a whole sub-circuit) under key remapping ============
    n_ifw = N_IF_WRAPS_QUICK if quick else len(IF_WRAPS)

    def if_struct_checks(cx, items, wrong=False, label=''):
        circuit = build_circuit(items, SI.to_cirq)
        flat = SI.flatten(items)
        top = cirq.CircuitOperation(circuit.freeze())
        mk, ck = SM.flat_measurement_keys(flat), SM.flat_external_controls(flat)
        for rnd in (0, 1):  # key protocols queried before and after the unrolling routes (instance caches)
            cx.check(key_strs(cirq.measurement_key_objs(circuit)) == mk, f'{label}: measurement_key_objs(circuit) [{rnd}]')
            cx.check(key_strs(cirq.control_keys(circuit)) == ck, f'{label}: control_keys(circuit) [{rnd}]')
            cx.check(cirq.measurement_key_names(top) == mk, f'{label}: measurement_key_names(op) [{rnd}]')
            cx.check(key_strs(cirq.control_keys(top)) == ck, f'{label}: control_keys(op) [{rnd}]')
            if rnd == 0:
                mc = top.mapped_circuit(deep=True)
                cx.check(key_strs(cirq.measurement_key_objs(mc)) == mk and key_strs(cirq.control_keys(mc)) == ck, f'{label}: keys of mapped_circuit(deep)')
                compare_structure(cx, expand_residual(mc), flat, f'{label}: mapped_circuit(deep)', wrong)
                compare_structure(cx, cirq.Circuit(cirq.decompose(top, keep=is_flat_op)), flat, f'{label}: decompose')
                un = cirq.unroll_circuit_op(circuit, deep=True, tags_to_check=None)
                cx.check(key_strs(cirq.measurement_key_objs(un)) == mk and key_strs(cirq.control_keys(un)) == ck, f'{label}: keys of unroll_circuit_op')
                compare_structure(cx, expand_residual(un), flat, f'{label}: unroll_circuit_op')
        for it in items:
            if isinstance(it, Sub):
                op = SI.to_cirq(it)
                f1 = SI.flatten([it])
                cx.check(key_strs(cirq.measurement_key_objs(op)) == SM.flat_measurement_keys(f1), f'{label}: measurement_key_objs(sub op)')
                cx.check(tuple(q.x for q in op.qubits) == SM.sub_qubits(it), f'{label}: qubits(sub op)')
                if it.reps != 0:
                    cx.check(key_strs(cirq.control_keys(op)) == SM.flat_external_controls(f1), f'{label}: control_keys(sub op)')
        # every conditional block on its own (as written, before any enclosing map): If._control_keys_ / qubits / no measurement
        for blk in walk_blocks(items):
            bop = SI.to_cirq(blk)
            cx.check(key_strs(cirq.control_keys(bop)) == SM.flat_external_controls(SI.flatten([blk])), f'{label}: control_keys(conditional block)')
            cx.check(set(q.x for q in bop.qubits) == set(blk.qs) and not cirq.is_measurement(bop), f'{label}: qubits / is_measurement(conditional block)')

    for bi, bname in enumerate(IF_BODY_NAMES):

        def body(cx, wrong=False, bi=bi):
            t, u, v = params3(cx)
            wi = cx.choose('wrap', n_ifw)
            items, nq = scenario_if(bi, wi, t, u)
            if_struct_checks(cx, items, wrong, label=f'{IF_BODY_NAMES[bi]}/{IF_WRAPS[wi][0]}')

        obs.append(
            Obligation(
                f'ifblock.keys.{bname}',
                body,
                twin=lambda cx, b=body: b(cx, wrong=True),
                opts={'weight': 3},
                points=[{'t': 0.3, 'u': 0.7, 'choose:wrap': i} for i in range(n_ifw)],
                desc=f'[measure a, b; enclosing sub-circuit under {n_ifw} configurations (key maps a->c, b->d, swap a<->b, both + parent path; repetition ids, qubit map); control on a] whose body {bname} contains a CONDITIONAL BLOCK '
                '(cirq.If / with_classical_controls over a CircuitOperation, several operations, an OP_TREE, nested If/CCO, inner key map / parent path / repetitions, KeyCondition / SympyCondition / BitMaskKeyCondition, Symbol exponent '
                'bound by the enclosing param_resolver) that reads the re-mapped key in its condition and inside its body: measurement keys, external control keys and the per-qubit operation sequence (qubits, control keys, SYMBOLIC gate '
                'matrices) of mapped_circuit(deep) / decompose / unroll_circuit_op (sub-circuits left below a condition expanded by cirq.decompose) equal the harness-unrolled program; control_keys of every block on its own',
            )
        )

    VIA_BODIES = ('if_sub_same', 'cco_sub_two_keys', 'if_tree_if', 'if_sub_inner_kmap', 'cco_if_sub') if quick else tuple(IF_BODY_NAMES)

    def body_if_via(cx, wrong=False):
        t, u, v = params3(cx)
        bi = IF_BODY_NAMES.index(VIA_BODIES[cx.choose('body', len(VIA_BODIES))])
        wi = cx.choose('wrap', n_ifw)
        via = VIA[cx.choose('via', len(VIA))]
        items, nq = scenario_if(bi, wi, t, u)
        k = [i for i, it in enumerate(items) if isinstance(it, Sub)][0]
        op = build_via(via, items[k].items, {n: w for n, w in dict(IF_WRAPS[wi][1], **({'params': items[k].params} if items[k].params else {})).items()})
        if op is None:
            from symx.ctx import Infeasible

            raise Infeasible()
        circuit = cirq.Circuit()
        for i, it in enumerate(items):
            circuit.append(op if i == k else SI.to_cirq(it), strategy=cirq.InsertStrategy.NEW)
        flat = SI.flatten(items)
        f1 = SI.flatten([items[k]])
        cx.check(key_strs(cirq.measurement_key_objs(op)) == SM.flat_measurement_keys(f1), f'{via}: measurement keys')
        if items[k].reps != 0:  # control_keys of a 0-repetition op: obligation keys.zero_repetitions_protocols
            cx.check(key_strs(cirq.control_keys(op)) == SM.flat_external_controls(f1), f'{via}: control keys')
        compare_structure(cx, expand_residual(cirq.unroll_circuit_op(circuit, deep=True, tags_to_check=None)), flat, f'{IF_BODY_NAMES[bi]}/{IF_WRAPS[wi][0]}/{via}', wrong)

    obs.append(
        Obligation(
            'ifblock.remap_routes',
            body_if_via,
            twin=lambda cx: body_if_via(cx, wrong=True),
            opts={'weight': 14, 'max_paths': 100000},
            points=[{'t': 0.3, 'u': 0.7, 'choose:body': i % len(VIA_BODIES), 'choose:wrap': w, 'choose:via': v_} for i, (w, v_) in enumerate([(3, 0), (4, 1), (5, 2), (2, 3), (5, 4), (2, 5), (5, 6), (1, 7), (6, 8), (4, 9), (6, 10), (7, 0)])],
            desc=f'the enclosing sub-circuit of {len(VIA_BODIES)} conditional-block bodies obtained through the other public routes ({", ".join(VIA)}): with_measurement_key_mapping (method, protocol, two composed steps), '
            'with_key_path (method, protocol), with_key_path_prefix, with_rescoped_keys, repeat(n, ids), with_repetition_ids, mapped_op(deep True/False): keys, external controls and unrolled structure with SYMBOLIC gate matrices equal the '
            'harness-unrolled program of the constructor form',
        )
    )

    IF_ROUTES = (('state', None), ('run', None), ('state', 'mapped')) + (() if quick else (('state', 'unrolled'),))

    def if_transform(kind):
        if kind == 'mapped':
            return lambda c: cirq.CircuitOperation(c.freeze()).mapped_circuit(deep=True)
        if kind == 'unrolled':
            return lambda c: cirq.unroll_circuit_op(c, deep=True, tags_to_check=None)
        return None

    for bi, bname in enumerate(IF_BODY_NAMES):

        def body(cx, wrong=False, bi=bi):
            t, u, v = params3(cx)
            wi = cx.choose('wrap', n_ifw)
            route, tr = IF_ROUTES[cx.choose('route', len(IF_ROUTES))]
            if quick and (route, tr) != ('state', None) and IF_WRAPS[wi][0] not in IF_WRAPS_QUICK_ALL_ROUTES:
                from symx.ctx import Infeasible

                raise Infeasible()
            items, nq = scenario_if(bi, wi, t, u)
            compare_run(cx, items, nq, route, wrong, label=f'{IF_WRAPS[wi][0]}/{route}/{tr}', to_cirq=SI.to_cirq, flatten=SI.flatten, transform=if_transform(tr))

        obs.append(
            Obligation(
                f'ifblock.sim.{bname}',
                body,
                twin=lambda cx, b=body: b(cx, wrong=True),
                opts={'weight': 10, 'max_paths': 100000},
                points=[{'t': 0.3, 'u': 0.7, 'choose:wrap': (3 * i + 1) % n_ifw, 'choose:route': i % len(IF_ROUTES), 'choose:draw0': i % 2, 'choose:draw1': 1, 'choose:draw2': (i // 2) % 2, 'choose:draw3': 1} for i in range(8)],
                desc=f'cirq.Simulator on [measure a, b; enclosing sub-circuit with the conditional-block body {bname} under {n_ifw} configurations; Z^u controlled by a] on {len(IF_ROUTES)} routes (as written with all record instances, Simulator.run, after mapped_circuit(deep=True)'
                + ('' if quick else ', after unroll_circuit_op(deep=True)') + '): every measurement outcome is an explorer-chosen draw, the gates below the conditions carry SYMBOLIC exponents; records (all instances) and final state equal the reference '
                'interpreter on the harness-unrolled flat program',
            )
        )

    # ---- key-protocol methods of If / ClassicallyControlledOperation, called directly ------------------------------
    def proto_ops(t, u):
        sub = lambda: Sub([G('X', [1], t, conds=['a']), G('Z', [1], u, conds=['b'])])  # noqa: E731
        return [
            ('if_single', IfB(['a'], [G('X', [1], t)], 'if')),
            ('if_over_cco', IfB(['a', 'b'], [G('X', [1], t, conds=[Cond('eq', 'a', value=1)])], 'if')),
            ('cco_over_if', IfB(['b'], [IfB(['a'], [G('Y', [1], t)], 'if')], 'cco')),
            ('if_sub', IfB(['a'], [sub()], 'if')),
            ('cco_sub', IfB(['b'], [sub()], 'cco')),
            ('if_multi', IfB(['b'], [G('X', [1], t, conds=['a']), G('Z', [1], u)], 'if')),
            ('if_sub_wrapped', IfB(['a'], [Sub([G('X', [1], t, conds=['k']), G('Y', [1], u, conds=['b'])], kmap={'k': 'a'}, path=('s',), reps=2)], 'if')),
            ('if_if_sub', IfB([Cond('mask', 'a', bitmask=1, target=1, equal=True)], [IfB([Cond('keyidx', 'b', index=0)], [sub()], 'if')], 'if')),
        ]

    N_PROTO = 8
    PROTO_T = (
        [('kmap', m) for m in ({'a': 'c'}, {'b': 'd'}, {'a': 'b', 'b': 'a'}, {'a': 'b', 'b': 'c'}, {'k': 'z', 's': 'y'})]
        + [('prefix', p) for p in (('p',), ('p', 'q'))]
        + [('prefix2', (('p',), ('q',)))]
        + [('rescope', (p, vis)) for p, vis in (
            (('p',), ()),
            (('p',), ((('p',), 'a'),)),
            (('p',), (((), 'a'), ((), 'b'))),
            (('p',), ((('p',), 'a'), ((), 'a'), ((), 'b'))),
            (('p',), ((('q',), 'a'), (('p', 'x'), 'b'))),
            (('p', 'q'), ((('p',), 'a'), (('p', 'q'), 'b'))),
            ((), (((), 'a'),)),
        )]
        + [('key_path', ('p',))]
    )

    def body_if_protocols(cx, wrong=False):
        t, u, v = params3(cx)
        oi = cx.choose('op', N_PROTO)
        kind, arg = PROTO_T[cx.choose('transform', len(PROTO_T))]
        level = ('op', 'circuit', 'context')[cx.choose('level', 3)]
        name, spec = proto_ops(t, u)[oi]
        op = SI.to_cirq(spec)
        mkey = lambda path, nm: cirq.MeasurementKey(name=nm, path=tuple(path))  # noqa: E731
        pre = [G('H', [0]), M('a', [0])]

        def T(x):
            if kind == 'kmap':
                return cirq.with_measurement_key_mapping(x, arg)
            if kind == 'prefix':
                return cirq.with_key_path_prefix(x, arg)
            if kind == 'prefix2':
                return cirq.with_key_path_prefix(cirq.with_key_path_prefix(x, arg[0]), arg[1])
            if kind == 'rescope':
                return cirq.with_rescoped_keys(x, arg[0], frozenset(mkey(p_, n_) for p_, n_ in arg[1]))
            return cirq.with_key_path(x, arg)

        if level == 'context':
            # the transformed operation used: placed after a measurement of the key its condition now names, inside a
            # sub-circuit (whose unrolling re-scopes it with the keys measured so far)
            if kind == 'kmap':
                mk_name, tspec = arg.get('a', 'a'), Sub([spec], kmap=arg)
            elif kind == 'prefix':
                mk_name, tspec = ':'.join(arg) + ':a', SI.prefixed(spec, arg)
            elif kind == 'prefix2':
                mk_name, tspec = ':'.join(arg[1] + arg[0]) + ':a', SI.prefixed(SI.prefixed(spec, arg[0]), arg[1])
            else:
                from symx.ctx import Infeasible

                raise Infeasible()
            W = [dict(), dict(reps=2, use_ids=True), dict(path=('r',))][cx.choose('outer', 3)]
            holder = cirq.CircuitOperation(cirq.FrozenCircuit(cirq.H(Q(0)), cirq.measure(Q(0), key=cirq.MeasurementKey.parse_serialized(mk_name)), T(op)), **SI.sub_kwargs(Sub([], **W)))
            flat = SI.flatten([Sub(pre[:1] + [M(mk_name, [0]), tspec], **W)])
            cx.check(key_strs(cirq.control_keys(holder)) == SM.flat_external_controls(flat), f'{name}/{kind}/context: control_keys')
            compare_structure(cx, cirq.Circuit(cirq.decompose(holder, keep=is_flat_op)), flat, f'{name}/{kind}/context', wrong)
            return
        if kind == 'key_path':
            # "Adds the path to the target's MEASUREMENT keys": a conditional block measures nothing; the operation does not
            # implement the protocol, a circuit re-paths its measurements only
            if level == 'op':
                cx.check(T(op) is NotImplemented and not wrong, 'with_key_path of an operation that measures nothing')
                return
            got = T(cirq.Circuit([SM.to_cirq(x) for x in pre] + [op]))
            flat = SI.flatten([G('H', [0]), M(':'.join(arg) + ':a', [0]), spec])
        else:
            got = T(op) if level == 'op' else T(cirq.Circuit(op))
            if kind == 'kmap':
                flat = SI.flatten([spec], kmap=arg)
            elif kind == 'prefix':
                flat = SI.flatten([SI.prefixed(spec, arg)])
            elif kind == 'prefix2':
                flat = SI.flatten([SI.prefixed(SI.prefixed(spec, arg[0]), arg[1])])
            else:
                flat = SI.flatten([spec], path=arg[0], visible=arg[1])
        cx.check(got is not NotImplemented, f'{kind}: implemented')
        if level == 'op':
            cx.check(isinstance(got, type(op)), f'{kind}: the result is an operation of the same class')
            cx.check(tuple(got.qubits) == tuple(op.qubits), f'{kind}: qubits kept')
            bare, sbare = got.without_classical_controls(), spec_bare(SI.prefixed(spec, arg) if kind == 'prefix' else spec)
            if kind in ('prefix', 'kmap') and isinstance(sbare, Sub):
                # documented attributes of the sub-circuit below the conditions: parent_path = prefix + old path; composed key map
                cx.check(isinstance(bare, cirq.CircuitOperation) and tuple(bare.parent_path) == tuple(sbare.path), f'{name}/{kind}: parent_path of the conditional sub-circuit')
                if kind == 'kmap':
                    names = sorted({c_.name for g_ in sbare.items for c_ in g_.conds})
                    want = {n_: arg.get(sbare.kmap.get(n_, n_), sbare.kmap.get(n_, n_)) for n_ in names}
                    cx.check(dict(bare.measurement_key_map) == {a_: b_ for a_, b_ in want.items() if a_ != b_}, f'{name}/{kind}: measurement_key_map of the conditional sub-circuit')
        cx.check(key_strs(cirq.control_keys(got)) == SM.flat_external_controls(flat), f'{name}/{kind}: control_keys')
        cx.check(key_strs(cirq.measurement_key_objs(got)) == SM.flat_measurement_keys(flat), f'{name}/{kind}: measurement keys')
        real = cirq.Circuit(cirq.decompose(got, keep=is_flat_op))
        compare_structure(cx, real, flat, f'{name}/{kind}/{level}', wrong)
        # the operation handed in is immutable: its own keys are as before
        cx.check(key_strs(cirq.control_keys(op)) == SM.flat_external_controls(SI.flatten([spec])), f'{name}/{kind}: original operation unchanged')

    obs.append(
        Obligation(
            'ifblock.protocols',
            body_if_protocols,
            twin=lambda cx: body_if_protocols(cx, wrong=True),
            opts={'weight': 8, 'max_paths': 100000},
            points=[{'t': 0.3, 'u': 0.7, 'choose:op': i % N_PROTO, 'choose:transform': i % len(PROTO_T), 'choose:level': (i // 3) % 3, 'choose:outer': i % 3} for i in range(len(PROTO_T))],
            desc=f'key protocols called DIRECTLY on {N_PROTO} conditional operations (If / CCO over one gate, over a CCO, CCO over If, over a CircuitOperation, several operations, a wrapped CircuitOperation, nested Ifs with BitMask / indexed conditions), '
            f'on the operation and through Circuit -> Moment: cirq.with_measurement_key_mapping (5 maps incl. swap and chain), with_key_path_prefix (once, twice), with_rescoped_keys (7 path / bindable-key sets), with_key_path, control_keys: '
            'the fully decomposed result (SYMBOLIC gate matrices) and its control keys equal the flat program of the spec transformed by hand; the operation handed in is unchanged',
        )
    )

    # ---- conditions on TWO keys under key maps -----------------------------------------------------------------------------
    TWO_KEY_MAPS_OK = [None, {'a': 'c'}, {'b': 'd'}, {'a': 'c', 'b': 'd'}]
    TWO_KEY_MAPS_BAD = [{'a': 'b', 'b': 'a'}, {'a': 'b', 'b': 'c'}, {'b': 'a', 'a': 'c'}]

    def body_two_keys(cx, maps, wrong=False):
        t, u, v = params3(cx)
        km = maps[cx.choose('kmap', len(maps))]
        shape = cx.choose('shape', 3)
        W = [dict(), dict(reps=2, use_ids=True), dict(path=('p',))][cx.choose('wrap', 2 if quick else 3)]
        c2 = Cond('eq2', 'a', name2='b')
        blk = [G('X', [1], t, conds=[c2]), IfB([c2], [Sub([G('X', [1], t, conds=['a']), G('Z', [1], u)])], 'if'), IfB(['a'], [G('X', [1], t, conds=[c2]), G('Z', [1], u)], 'if')][shape]
        items = [Sub([G('H', [0]), G('H', [2]), M('a', [0]), M('b', [2]), blk], kmap=km, **W), G('H', [1], 0.5)]
        circuit = build_circuit(items, SI.to_cirq)
        flat = SI.flatten(items)
        if cx.choose('observe', 2) == 0:
            cx.check(key_strs(cirq.control_keys(circuit)) == SM.flat_external_controls(flat), 'control keys (none: both keys are measured inside)')
            compare_structure(cx, cirq.Circuit(cirq.decompose(cirq.CircuitOperation(circuit.freeze()), keep=is_flat_op)), flat, f'two-key condition under {km}', wrong)
        else:
            compare_run(cx, items, 3, 'state', wrong, label=f'two-key condition under {km}', to_cirq=SI.to_cirq, flatten=SI.flatten)

    obs.append(
        Obligation(
            'ifblock.two_key_condition',
            lambda cx, wrong=False: body_two_keys(cx, TWO_KEY_MAPS_OK, wrong),
            twin=lambda cx: body_two_keys(cx, TWO_KEY_MAPS_OK, True),
            opts={'weight': 6, 'max_paths': 100000},
            points=[{'t': 0.3, 'u': 0.7, 'choose:kmap': i % 4, 'choose:shape': i % 3, 'choose:wrap': (i // 2) % 2, 'choose:observe': i % 2, 'choose:draw0': i % 2, 'choose:draw1': (i // 2) % 2} for i in range(6)],
            desc='SympyCondition Eq(a, b) on TWO keys measured in the sub-circuit (as a control, as the condition of an If over a CircuitOperation, inside a multi-operation If) under key maps that send no key of the condition onto '
            'another key of it (none, a->c, b->d, both) x (plain, repetition ids, parent path): unrolled structure and simulation (SYMBOLIC exponents, explorer-chosen outcomes) equal the flat program',
        )
    )
    obs.append(
        Obligation(
            'finding.sympy_condition_key_swap',
            lambda cx, wrong=False: body_two_keys(cx, TWO_KEY_MAPS_BAD, wrong),
            twin=lambda cx: body_two_keys(cx, TWO_KEY_MAPS_BAD, True),
            opts={'weight': 6, 'max_paths': 100000},
            points=[],
            desc='the same under key maps that send one key of the condition onto another key of it (swap a<->b, chains a->b->c): every key of the condition is renamed by the map, simultaneously',
        )
    )
    return obs


LEVEL = (
    'Bounded symbolic execution of the real CircuitOperation / key-protocol / condition / simulator / unroll code, decided by z3 wherever values are '
    'continuous: gate exponents inside sub-circuits and param_resolver values are symbolic reals (two per obligation, box [-4,4]); they flow through '
    'mapped_circuit, _unitary_ (single-qubit fast path incl. a matrix_power model), decompose, unroll_circuit_op*, the simulator, and are compared entry-wise '
    'with the product / reference-interpreter state of the FLAT program that the harness builds by applying the maps by hand from a plain-data spec tree. '
    'Measurement outcomes are explorer-chosen per draw (scripted PRNG: every outcome of non-zero probability is a path). The SHAPE of the nesting (bodies, '
    'repetitions in -2..3, qubit maps, key maps, parent paths, repetition ids, depth, scoping scenario) and all key/path comparisons are finite: that part is '
    'solver-driven bounded exploration of stated menus, exhausted, not a proof over all circuits. '
    'Conditional blocks (obligations ifblock.*): cirq.If / with_classical_controls over a CircuitOperation or several operations, placed inside an enclosing sub-circuit that renames the keys; '
    'the exponents of the gates below the conditions are symbolic reals, the outcomes of all measurements explorer-chosen draws; body shapes, enclosing configurations, construction routes and '
    'protocol arguments are exhausted menus.'
)

ASSUMPTIONS = BASE_ASSUMPTIONS + [
    'measurement outcomes: a scripted generator stands for np.random.RandomState inside the simulator; it records the probability vector requested and lets the explorer choose every outcome of non-zero probability; probabilities are constants in these circuits (measured qubits are prepared by H / X); a symbolic probability whose non-constant part is a sum of unit-modulus exponentials with total coefficient <= 1e-9 (floating-point residue of cos^2+sin^2) is taken as its constant part',
    'numpy.linalg.matrix_power on symbolic matrices is modelled by its documented definition (symx/linalg_models.py)',
    'repeat_until loops: outcome sequences needing more than 3 iterations of one loop are cut (unwinding bound), stated in bounds',
    'conditional blocks (oracles/subcircuit_if_model.py): a condition in front of a measurement-free block is that condition on every operation of the unrolled block (If / ClassicallyControlledOperation docstrings); mapped_circuit(deep=True) and unroll_circuit_op(deep=True) leave a CircuitOperation that stands below a classical condition in place (they descend into bare CircuitOperations only): it is expanded by cirq.decompose before the operation-by-operation comparison, and simulated as left; model validated against the real code on 10000 random concrete spec trees with conditional blocks during development',
    'scoping oracle (oracles/subcircuit_model.py) written from the CircuitOperation / control_keys / Condition docstrings and docs/build/classical_control.ipynb; validated against the real code on 12000 random concrete spec trees during development',
]


def main(tier, seed=0, replay=None, only=None, procs=None):
    bounds = {
        'symbolic': 'exponents t,u of the gates inside sub-circuits / controlled gates (reals in [-4,4]); param_resolver values (t, 0.5*Symbol chains); measurement outcomes (explorer-chosen draws)',
        'enumerated (exhausted menus)': {
            'repetitions': list(REPS),
            'unitary bodies': [b[0] for b in unitary_bodies(0, 0, 0)],
            'qubit maps': 'none / swap / onto fresh qubits in reversed order; compositions f,g over 4 maps (dict, callable, with_qubits)',
            'nesting depth': '2 (quick) / 3 (thorough); depth 2: outer x inner repetitions (-1,2)x(-2,0,1,3) quick, full 6x6 thorough; depth 3: (-1,2)x(-2,0,1,3)x(-1,2)',
            'wrapper configurations of measuring sub-circuits': [w[0] for w in WRAPS],
            'inner bodies': [b[0] for b in inner_bodies(0, 0)],
            'nested scoping scenarios': NESTED,
            'key maps': '6 maps, all ordered pairs; path operations: ' + ', '.join(['prefix', 'prefix twice', 'with_key_path', 'with_rescoped_keys', 'replace', 'with_repetition_ids', 'repeat with ids', 'mapped_op']),
            'conditions': 'KeyCondition (with index), BitMaskKeyCondition, SympyCondition Eq(key, const), cirq.If',
            'repeat_until': '7 scenarios, <= 3 iterations per loop',
            'conditional blocks (ifblock.*)': {
                'bodies of the enclosing sub-circuit': IF_BODY_NAMES,
                'enclosing configurations': [w[0] for w in IF_WRAPS] + [f'quick: the first {N_IF_WRAPS_QUICK}; quick simulates run / mapped_circuit routes for {list(IF_WRAPS_QUICK_ALL_ROUTES)} only'],
                'construction routes of the enclosing sub-circuit': VIA,
                'direct protocol calls': '8 conditional operations x (5 key maps, 3 prefixes, 7 with_rescoped_keys path / bindable sets, with_key_path) x (operation, Circuit -> Moment, used inside a sub-circuit after a measurement of the renamed key)',
                'two-key SympyCondition Eq(a, b)': 'key maps none / a->c / b->d / both (healthy family); swap a<->b and chains a->b->c are obligation finding.sympy_condition_key_swap',
                'simulation': 'circuit as written (state route, Simulator.run), after mapped_circuit(deep=True), after unroll_circuit_op(deep=True) (thorough)',
            },
            'simulation routes': 'SimulationProductState around an own ClassicalDataDictionaryStore (all record instances) / Simulator.simulate_moment_steps default / Simulator.run(repetitions=1)',
        },
        'sizes': 'sub-circuits <= 4 ops on <= 2 (3 with a 2-qubit measurement) qubits, outer circuit <= 3 qubits',
        'parameter_box': [-BOX, BOX],
        'tolerance': '1e-7; 2.5e-5 for cirq.decompose products (Cirq drops global phases np.isclose to 1)',
        'outside': [
            'non-injective measurement_key_map over the touched key names (constructor accepts them; with_measurement_key_mapping documents a ValueError): not in the menus',
            'sympy formulas other than Symbol / float*Symbol in param_resolver (ParamResolver falls back to sympy.subs, which cannot carry symbolic values)',
            'symbolic Born probabilities (C02); density-matrix / Clifford simulators; qudits; noise',
            'numpy.linalg inverse of symbolic matrices larger than 2x2',
            'serialization (_json_dict_), diagrams, repr/str',
            'conditional blocks: bodies with measurements (documented ValueError of If / ClassicallyControlledOperation), negative repetitions of a classically controlled body (no inverse), repeat_until inside a block, key maps that are not injective over the touched names, If._qasm_ (C19) / _circuit_diagram_info_ / _json_dict_ (C11); a key path on a measurement-free conditional sub-circuit has no effect on key binding, so with_key_path_prefix of the BODY is observed through the documented parent_path attribute only; conditions that contain both a key and the same key with the prefix already applied',
            'CircuitOperation.repeat(n, ids) on an id-less loop (|repetitions| > 1): rejected by the constructor length check, accepted here as the documented ValueError',
        ],
    }
    return run_check(PID, tier, 'checks.C12', SHIMS, LEVEL, ASSUMPTIONS, bounds, seed=seed, replay=replay, only=only, procs=procs)
